"""Extension rule set "intents": helper functions of the handler registries, causes, decorators, object keys, per-object memories,
index containers and the admission plumbing that the property modules rely on but did not examine themselves.

Every check is `check_xxx(ctx, rule)`; the table `EXTRA` at the end ties it to the properties whose statement needs it.
"""
from __future__ import annotations

import ast
import re
from typing import Any, Iterable, Optional

from .. import absint
from ..core import Ctx
from ..rules import calls_in, cfg_of, cond_implies, construct, dominating_conditions, is_call_to, kwarg, method_call, norm, origin, table_check
from ..srcmodel import AnalysisError, FuncInfo, dotted, src, walk_no_defs
from .C15 import bool_results, lazy_table

REG = 'kopf._core.intents.registries'
HANDLERS = 'kopf._core.intents.handlers'
CAUSES = 'kopf._core.intents.causes'
ON = 'kopf.on'
PROC = 'kopf._core.reactor.processing'
IDX = 'kopf._core.engines.indexing'
INV = 'kopf._core.reactor.inventory'
ADM = 'kopf._core.engines.admission'
Q = 'kopf._core.reactor.queueing'


# ====================================================================== small helpers
def _e(s: str) -> str:
    return re.escape(s)


def _param(f: FuncInfo, name: str) -> str:
    if not any(a.arg == name for a in f.params()):
        raise AnalysisError(f'{f.loc()}: {f.short} has no `{name}` parameter')
    return name


def _one_loop(f: FuncInfo) -> ast.For:
    loops = [n for n in walk_no_defs(f.node) if isinstance(n, (ast.For, ast.While))]
    if len(loops) != 1 or not isinstance(loops[0], ast.For) or not isinstance(loops[0].target, ast.Name):
        raise AnalysisError(f'{f.loc()}: expected exactly one `for <name> in ...` loop in {f.short}')
    return loops[0]


def _is_const(e: Optional[ast.AST], value: Any) -> bool:
    return isinstance(e, ast.Constant) and e.value is value


def _body(f: FuncInfo) -> list:
    return [s for s in f.node.body if not (isinstance(s, ast.Expr) and isinstance(s.value, ast.Constant))]  # type: ignore[attr-defined]


def _returns(f: FuncInfo) -> list[ast.Return]:
    return [n for n in walk_no_defs(f.node) if isinstance(n, ast.Return)]


def _inner_functions(repo, f: FuncInfo) -> list[FuncInfo]:
    return [g for g in repo.all_functions() if g.outer is f]


def _yield_keys(paths: Iterable[absint.Path]) -> dict:
    return {id(e.node): e for p in paths for e in p.effects('yield')}


# ====================================================================== registries: ids
def check_generate_id(ctx: Ctx, rule: str) -> None:
    """generate_id: explicit id wins (None-test), else the callable's id; a non-empty suffix is appended, a non-empty prefix prepended, '/'-separated."""
    repo = ctx.repo
    f = repo.fn(f'{REG}.generate_id')
    ctx.analysed(f)
    for n in ('fn', 'id', 'prefix', 'suffix'):
        _param(f, n)
    paths = absint.analyse(repo, f, absint.Config())
    atoms = {'IDN': r'^isnone\(id\)$', 'S': r'^truthy\(suffix\)$', 'P': r'^truthy\(prefix\)$'}

    def spec(v):
        return (('prefix',) if v['P'] else ()) + (('callable-id',) if v['IDN'] else ('id',)) + (('suffix',) if v['S'] else ())

    def observe(p: absint.Path):
        if p.status != 'return' or p.retval is None:
            return (f'<{p.status}>',)
        k = re.sub(r'[\w.]*HandlerId', '', p.retval.key)
        toks = []
        for m in re.finditer(r'[\w.]*get_callable_id\(fn\)|\bprefix\b|\bsuffix\b|\bid\b', k):
            toks.append('callable-id' if m.group(0).endswith('get_callable_id(fn)') else m.group(0))
        if k.count('/') != len(toks) - 1:
            toks.append(f'<{k.count("/")} separators>')
        return tuple(toks)
    table_check(ctx, rule, f, paths, atoms, spec, observe,
                what='generate_id: the handler id is [prefix/]<explicit id if given (not None), else the id of the callable>[/suffix]; empty prefix/suffix '
                     'add nothing (ids key the progress records, the deduplication and the webhook URLs)')


def check_callable_id(ctx: Ctx, rule: str) -> None:
    """get_callable_id: partials and functools.wraps-wrappers are unwrapped BEFORE the function/method cases; None/unknown callables raise."""
    repo = ctx.repo
    f = repo.fn(f'{REG}.get_callable_id')
    ctx.analysed(f)
    c = f.params()[0].arg
    paths = absint.analyse(repo, f, absint.Config())
    part = rf'^isinstance\({_e(c)}, functools\.partial\)$'
    wrap = rf"^truthy\(hasattr\({_e(c)}, '__wrapped__'\)\)$"
    rows = set()
    bad = []
    for p in paths:
        rk = p.retval.key if p.retval is not None else ''
        if p.atom(rf'^isnone\({_e(c)}\)$') is True:
            rows.add('none')
            if p.status != 'raise':
                bad.append('None gets an id instead of an error')
            continue
        if p.status == 'raise':
            rows.add('raise')
            continue
        if p.status != 'return':
            bad.append(f'a path ends as {p.status}')
            continue
        if p.atom(part) is True:
            rows.add('partial')
            if rk != f'{REG}.get_callable_id({c}.func)':
                bad.append(f'a partial is not identified by its wrapped function: returns {rk[:80]}')
        elif p.atom(wrap) is True:
            rows.add('wrapped')
            if not (rk.startswith(f'{REG}.get_callable_id(') and '__wrapped__' in rk):
                bad.append(f'a functools.wraps-wrapper is not identified by its wrapped function: returns {rk[:80]}')
        else:
            rows.add('terminal')
            if p.atom(part) is not False or p.atom(wrap) is not False:
                bad.append(f'an id ({rk[:60]}) is derived without first unwrapping partials/wrappers (a decorated function is a function too)')
    ctx.count('paths', len(paths))
    ctx.ob(rule, f'get_callable_id ({len(paths)} paths): partials and functools.wraps-wrappers are identified by the innermost function, decided before the '
           'plain function/method cases; None and unknown callables raise (two registrations of one function get one default id and are deduplicated)',
           not bad and {'partial', 'wrapped', 'terminal', 'none'} <= rows, loc=f.loc(), construct=construct(f, 'dispatch:unwrap-before-naming'),
           detail=' | '.join(dict.fromkeys(bad)) or f'rows seen: {sorted(rows)}')


# ====================================================================== registries: activity handlers and fallbacks
def check_activity_registry(ctx: Ctx, rule: str) -> None:
    repo = ctx.repo
    f, g = cfg_of(ctx, f'{REG}.ActivityRegistry.iter_handlers')
    act = f.params()[1].arg if len(f.params()) > 1 else None
    if act is None:
        raise AnalysisError(f'{f.loc()}: {f.short} has no activity parameter')
    loops = [n for n in walk_no_defs(f.node) if isinstance(n, ast.For)]
    if len(loops) != 2 or not all(isinstance(lp.target, ast.Name) for lp in loops):
        raise AnalysisError(f'{f.loc()}: expected two loops over the handlers (regular, fallback) in {f.short}')

    def flags_in(lp: ast.AST) -> set:
        out = set()
        for n in walk_no_defs(lp):
            tg = n.targets if isinstance(n, ast.Assign) else [n.target] if isinstance(n, ast.AnnAssign) and n.value is not None else []
            if tg and _is_const(n.value, True):  # type: ignore[union-attr]
                out |= {t.id for t in tg if isinstance(t, ast.Name)}
        return out
    regular = [lp for lp in loops if flags_in(lp)]
    fallback = [lp for lp in loops if not flags_in(lp)]
    ok_shape = len(regular) == 1 and len(fallback) == 1 and len(flags_in(regular[0])) == 1
    ctx.ob(rule, 'ActivityRegistry.iter_handlers: the pass over the regular handlers records in one flag that it selected something', ok_shape, loc=f.loc(),
           construct=construct(f, 'flow:found-flag'))
    if not ok_shape:
        return
    la, lb = regular[0], fallback[0]
    flag = next(iter(flags_in(la)))
    inits = []
    for n in walk_no_defs(f.node):
        tg = n.targets if isinstance(n, ast.Assign) else [n.target] if isinstance(n, ast.AnnAssign) and n.value is not None else []
        if any(isinstance(t, ast.Name) and t.id == flag for t in tg) and not any(n in list(walk_no_defs(lp)) for lp in loops):
            inits.append(n)
    ctx.ob(rule, 'ActivityRegistry.iter_handlers: the flag starts as False and is only ever raised inside the regular pass', len(inits) == 1
           and _is_const(inits[0].value, False) and not flags_in(lb), loc=f.loc(inits[0]) if inits else f.loc(), construct=construct(f, 'mono:found'),
           detail='; '.join(norm(n, 60) for n in inits))
    atoms = {'AN': r'^isnone\(handler\.activity\)$', 'AE': rf'^eq\(({_e(act)}, handler\.activity|handler\.activity, {_e(act)})\)$',
             'FB': r'^truthy\(handler\._fallback\)$'}

    def found_set(p: absint.Path) -> bool:
        v = p.env.get(flag)
        return v is not None and v.kind in ('const', 'bool') and v.data is True
    pa = absint.analyse(repo, f, absint.Config(), stmts=la.body, env={la.target.id: absint.sym('handler')})
    lazy_table(ctx, rule, f, [(p, (len(p.effects('yield')), found_set(p))) for p in pa], atoms,
               lambda v: (1, True) if (v['AN'] or (v['AE'] and not v['FB'])) else (0, False), role='table:regular',
               what='ActivityRegistry.iter_handlers, regular pass (one handler): selected iff it is for any activity or for this activity and is not a '
                    'fallback; every selection raises the found flag')
    pb = absint.analyse(repo, f, absint.Config(), stmts=lb.body, env={lb.target.id: absint.sym('handler')})
    lazy_table(ctx, rule, f, [(p, len(p.effects('yield'))) for p in pb], atoms,
               lambda v: 1 if (v['AN'] or (v['AE'] and v['FB'])) else 0, role='table:fallback',
               what='ActivityRegistry.iter_handlers, fallback pass (one handler): selected iff it is for any activity or a fallback for this activity')
    ys = _yield_keys(pa + pb)
    ctx.ob(rule, 'ActivityRegistry.iter_handlers: what is yielded is the examined handler itself', bool(ys) and all(e.key == 'handler' for e in ys.values()),
           loc=f.loc(), construct=construct(f, 'flow:yield handler'))
    nb = [n for n in g.nodes if n.kind == 'loop' and n.stmt is lb]
    guarded = bool(nb) and all(any(cond_implies(t, o, lambda e, oo: isinstance(e, ast.Name) and e.id == flag and oo is False)
                                   for t, o, _ in dominating_conditions(g, n)) for n in nb)
    ctx.ob(rule, 'ActivityRegistry.iter_handlers: the fallback handlers are consulted only when no regular handler was selected', guarded,
           loc=f.loc(lb), construct=construct(f, 'guard:fallback under not found'))
    # the fallbacks: piggybacked logins of the smart registry; everything a user registers is regular
    s = repo.fn(f'{REG}.SmartOperatorRegistry.__init__')
    ctx.analysed(s)
    ctors = [x for x in calls_in(s.node) if f'{HANDLERS}.ActivityHandler' in repo.callee_names(s, x)]
    ctx.require_sites(rule, 'SmartOperatorRegistry: piggybacked login handlers', len(ctors), 3, s.loc())
    appended = {id(a) for x in calls_in(s.node) if method_call(x, 'append') is not None and dotted(method_call(x, 'append')) == 'self._activities' for a in x.args}
    for x in ctors:
        a = kwarg(x, 'activity')
        ok = _is_const(kwarg(x, '_fallback'), True) and a is not None and (repo.resolve(s.module, a) or '').endswith('Activity.AUTHENTICATION') and id(x) in appended
        ctx.ob(rule, 'SmartOperatorRegistry: every built-in login handler is an AUTHENTICATION fallback (used only when the operator declares no login handler) '
               'registered among the activities', ok, loc=s.loc(x), construct=construct(s, f'config:fallback:{norm(kwarg(x, "fn"), 50)}'))
    d = repo.cls(f'{HANDLERS}.ActivityHandler').field_defaults.get('_fallback')
    ctx.ob(rule, 'ActivityHandler._fallback defaults to False (declared handlers are regular)', _is_const(d, False), loc=repo.cls(f'{HANDLERS}.ActivityHandler').module.relpath(),
           construct=f'{HANDLERS}.ActivityHandler:default:_fallback', detail=norm(d))
    others = [(h, x) for h in repo.all_functions() if h is not s for x in calls_in(h.node) if f'{HANDLERS}.ActivityHandler' in repo.callee_names(h, x)]
    bad = [(h, x) for h, x in others if kwarg(x, '_fallback') is not None and not _is_const(kwarg(x, '_fallback'), False)]
    ctx.ob(rule, 'no activity handler outside the smart registry is marked as a fallback', not bad, loc=bad[0][0].loc(bad[0][1]) if bad else '',
           construct='confine:_fallback=True')


# ====================================================================== registries: plain selections
def check_simple_iter(ctx: Ctx, rule: str, classes: Iterable[str] = ('IndexingRegistry', 'WatchingRegistry', 'SpawningRegistry')) -> None:
    repo = ctx.repo
    for cls in classes:
        f = repo.fn(f'{REG}.{cls}.iter_handlers')
        ctx.analysed(f)
        _param(f, 'cause'), _param(f, 'excluded')
        loop = _one_loop(f)
        hv = loop.target.id  # type: ignore[attr-defined]
        paths = absint.analyse(repo, f, absint.Config(), stmts=loop.body, env={hv: absint.sym('handler')})
        atoms = {'X': r'^in\(handler\.id, excluded\)$', 'MT': rf'^truthy\({_e(REG)}\.match\('}
        lazy_table(ctx, rule, f, [(p, len(p.effects('yield'))) for p in paths], atoms, lambda v: 1 if (not v['X'] and v['MT']) else 0,
                   what=f'{cls}.iter_handlers (one handler): selected iff not excluded and match(handler, cause) -- all declared criteria, nothing else')
        ys = _yield_keys(paths)
        ctx.ob(rule, f'{cls}.iter_handlers: what is yielded is the examined handler itself', bool(ys) and all(e.key == 'handler' for e in ys.values()),
               loc=f.loc(loop), construct=construct(f, 'flow:yield handler'))
        mc = [x for x in calls_in(loop) if is_call_to(repo, f, x, f'{REG}.match')]
        ctx.require_sites(rule, f'{cls}.iter_handlers: evaluation of the criteria (match)', len(mc), 1, f.loc())
        for x in mc:
            ok = dotted(kwarg(x, 'handler', 0)) == hv and dotted(kwarg(x, 'cause', 1)) == 'cause'
            ctx.ob(rule, f'{cls}.iter_handlers: match() is asked about this handler and this cause', ok, loc=f.loc(x), construct=construct(f, 'config:match(handler, cause)'))


def check_registry_loops(ctx: Ctx, rule: str) -> None:
    """Every selection of a registry ranges over the complete list of registered handlers; the list is per registry instance."""
    repo = ctx.repo
    gen = repo.cls(f'{REG}.GenericRegistry')
    n = 0
    for f in repo.functions_in(REG):
        if f.cls is None or f.outer is not None or not repo.is_subclass(f.cls.qualname, gen.qualname):
            continue
        loops = [lp for lp in walk_no_defs(f.node) if isinstance(lp, (ast.For, ast.comprehension))
                 and any(isinstance(a, ast.Attribute) and a.attr == '_handlers' or (isinstance(a, ast.Call) and method_call(a, 'get_all_handlers') is not None)
                         for a in ast.walk(lp.iter))]
        for lp in loops:
            n += 1
            it = lp.iter
            ok = dotted(it) == 'self._handlers' or (isinstance(it, ast.Call) and dotted(method_call(it, 'get_all_handlers') or ast.Constant(0)) == 'self' and not it.args)
            ctx.ob(rule, f'{f.short}: the selection ranges over ALL registered handlers of this registry (no slice, filter or copy of another list)', ok,
                   loc=f.loc(it), construct=construct(f, f'flow:loop over self._handlers:{norm(it, 40)}'), detail=norm(it))
        if f.name == 'iter_handlers' and not (len(_body(f)) == 1 and isinstance(_body(f)[0], ast.Raise)):
            ctx.ob(rule, f'{f.short}: the selection is a loop over the registered handlers', bool(loops), loc=f.loc(), construct=construct(f, 'flow:has handler loop'))
    ctx.require_sites(rule, 'registries: loops over the registered handlers', n, 12)
    init = repo.fn(f'{REG}.GenericRegistry.__init__')
    app = repo.fn(f'{REG}.GenericRegistry.append')
    ctx.analysed(init, app)
    v = gen.field_values.get('_handlers')
    ctx.ob(rule, 'GenericRegistry: every registry instance starts with its own empty handler list (created in __init__, no class-level shared list)',
           isinstance(v, ast.List) and not v.elts and '_handlers' not in gen.field_defaults, loc=init.loc(), construct=construct(init, 'config:_handlers=[]'), detail=norm(v))
    h = app.params()[1].arg if len(app.params()) > 1 else ''
    adds = [x for x in calls_in(app.node) if method_call(x, 'append') is not None and dotted(method_call(x, 'append')) == 'self._handlers'
            and len(x.args) == 1 and dotted(x.args[0]) == h]
    conds = [s for s in walk_no_defs(app.node) if isinstance(s, (ast.If, ast.Return, ast.Try, ast.Raise))]
    ctx.ob(rule, 'GenericRegistry.append: the handler is appended to the list unconditionally (registration order = invocation order, no handler dropped)',
           len(adds) == 1 and not conds, loc=app.loc(), construct=construct(app, 'flow:append'))
    orr = repo.cls(f'{REG}.OperatorRegistry')
    want = {'_activities': 'ActivityRegistry', '_indexing': 'IndexingRegistry', '_watching': 'WatchingRegistry', '_spawning': 'SpawningRegistry',
            '_changing': 'ChangingRegistry', '_webhooks': 'WebhooksRegistry'}
    oi = repo.fn(f'{REG}.OperatorRegistry.__init__')
    for fld, cls in want.items():
        v = orr.field_values.get(fld)
        ok = isinstance(v, ast.Call) and not v.args and not v.keywords and repo.resolve(oi.module, v.func) == f'{REG}.{cls}'
        ctx.ob(rule, f'OperatorRegistry.{fld} is a fresh {cls} of its own (handler kinds are kept apart: each kind is selected by its own rule)', ok,
               loc=oi.loc(v) if v is not None else oi.loc(), construct=f'{REG}.OperatorRegistry:config:{fld}', detail=norm(v))


def check_has_handlers(ctx: Ctx, rule: str) -> None:
    repo = ctx.repo
    f = repo.fn(f'{REG}.ResourceRegistry.has_handlers')
    ctx.analysed(f)
    _param(f, 'resource')
    loop = _one_loop(f)
    hv = loop.target.id  # type: ignore[attr-defined]
    res = bool_results(repo, f, stmts=loop.body, env={hv: absint.sym('handler')})
    res = [(p, o if isinstance(o, bool) else None) for p, o in res]
    lazy_table(ctx, rule, f, res, {'M': rf'^truthy\({_e(REG)}\._matches_resource\(handler, resource\)'}, lambda v: True if v['M'] else None,
               what='ResourceRegistry.has_handlers (one handler): yes iff the handler\'s selector accepts this resource; a non-matching handler does not end the search')
    tail = [s for s in f.node.body if isinstance(s, ast.Return)]
    ctx.ob(rule, 'ResourceRegistry.has_handlers: no when no handler is for the resource', bool(tail) and _is_const(tail[-1].value, False), loc=f.loc(),
           construct=construct(f, 'formula:default False'))
    # extra fields: every field criterion of a handler for this resource
    x = repo.fn(f'{REG}.ResourceRegistry.iter_extra_fields')
    ctx.analysed(x)
    lp = _one_loop(x)
    paths = absint.analyse(repo, x, absint.Config(), stmts=lp.body, env={lp.target.id: absint.sym('handler')})  # type: ignore[attr-defined]
    lazy_table(ctx, rule, x, [(p, tuple(e.key for e in p.effects('yield'))) for p in paths],
               {'M': rf'^truthy\({_e(REG)}\._matches_resource\(handler, resource\)', 'F': r'^truthy\(handler\.field\)$'},
               lambda v: ('handler.field',) if (v['M'] and v['F']) else (),
               what='ResourceRegistry.iter_extra_fields (one handler): its field is reported iff the handler is for this resource and has a field criterion '
                    '(the compared essences must contain every field some handler filters on, e.g. status fields)')
    gx = repo.fn(f'{REG}.ResourceRegistry.get_extra_fields')
    ctx.analysed(gx)
    rets = _returns(gx)
    ok = len(rets) == 1 and isinstance(rets[0].value, ast.Call) and dotted(rets[0].value.func) in ('set', 'frozenset') and len(rets[0].value.args) == 1 \
        and isinstance(rets[0].value.args[0], ast.Call) and dotted(method_call(rets[0].value.args[0], 'iter_extra_fields') or ast.Constant(0)) == 'self' \
        and dotted(kwarg(rets[0].value.args[0], 'resource', 0)) == 'resource'
    ctx.ob(rule, 'ResourceRegistry.get_extra_fields: the set of all reported fields for the asked resource', ok, loc=gx.loc(), construct=construct(gx, 'flow:set(iter_extra_fields)'))


def check_dedup_state(ctx: Ctx, rule: str) -> None:
    """_deduplicated: the seen-set is fresh per call and lives across the iterations; the first occurrence (the handler itself) is yielded."""
    repo = ctx.repo
    f = repo.fn(f'{REG}._deduplicated')
    ctx.analysed(f)
    loop = _one_loop(f)
    hv = loop.target.id  # type: ignore[attr-defined]
    srcp = f.params()[0].arg
    ctx.ob(rule, '_deduplicated: iterates the given selection itself, in its order', dotted(loop.iter) == srcp, loc=f.loc(loop), construct=construct(f, 'flow:loop over src'),
           detail=norm(loop.iter))
    tests = [n for n in walk_no_defs(loop) if isinstance(n, ast.Compare) and len(n.ops) == 1 and isinstance(n.ops[0], (ast.In, ast.NotIn)) and isinstance(n.comparators[0], ast.Name)]
    ctx.require_sites(rule, '_deduplicated: membership test against the seen-set', len(tests), 1, f.loc())
    for t in tests:
        name = t.comparators[0].id  # type: ignore[attr-defined]
        defs = [n for n in ast.walk(f.node) if (isinstance(n, ast.Assign) and any(isinstance(x, ast.Name) and x.id == name for x in n.targets))
                or (isinstance(n, ast.AnnAssign) and isinstance(n.target, ast.Name) and n.target.id == name and n.value is not None)
                or (isinstance(n, ast.AugAssign) and isinstance(n.target, ast.Name) and n.target.id == name)]
        top = f.node.body  # type: ignore[attr-defined]
        v = defs[0].value if len(defs) == 1 and not isinstance(defs[0], ast.AugAssign) else None
        empty = (isinstance(v, ast.Call) and dotted(v.func) == 'set' and not v.args and not v.keywords)
        ok = len(defs) == 1 and empty and defs[0] in top and loop in top and top.index(defs[0]) < top.index(loop) \
            and not any(a.arg == name for a in f.params()) and 'global' not in {type(n).__name__.lower() for n in ast.walk(f.node)}
        ctx.ob(rule, '_deduplicated: the seen-set is a local created empty once per call, before the loop (not re-created per handler, not shared between '
               'calls): a second registration of the same (function, id) is dropped within one selection, and only there', ok,
               loc=f.loc(defs[0]) if defs else f.loc(), construct=construct(f, 'config:fresh seen-set before loop'), detail='; '.join(norm(d, 60) for d in defs))
    ys = [n for n in walk_no_defs(loop) if isinstance(n, ast.Yield)]
    ctx.ob(rule, '_deduplicated: what is yielded is the examined handler itself', bool(ys) and all(dotted(y.value) == hv for y in ys if y.value is not None)
           and all(y.value is not None for y in ys), loc=f.loc(loop), construct=construct(f, 'flow:yield handler'))


# ====================================================================== causes are built per handler kind; prematch is the weak form
def check_cause_gating(ctx: Ctx, rule: str) -> None:
    repo = ctx.repo
    sites = repo.call_sites_of(f'{REG}.prematch', exact=False)
    allowed = {f'{REG}.ChangingRegistry.prematch', f'{REG}.ChangingRegistry.requires_finalizer'}
    ctx.require_sites(rule, 'calls of registries.prematch', len(sites), 2)
    for h, x in sites:
        ctx.ob(rule, f'registries.prematch (criteria WITHOUT "the field changed"/old/new) is used only to gate persistence and the finalizer, never to select '
               f'handlers for invocation (call in {h.short})', h.qualname in allowed, loc=h.loc(x), construct=f'{h.qualname}:confine:prematch')
    f = repo.fn(f'{PROC}._detect_causes')
    ctx.analysed(f)
    for n in ('registry', 'resource', 'body', 'patch', 'raw_event', 'memory', 'indexers'):
        _param(f, n)
    kinds = {'detect_watching_cause': '_watching', 'detect_spawning_cause': '_spawning', 'detect_changing_cause': '_changing'}
    parent = f.module.parent
    for callee, fld in kinds.items():
        calls = [x for x in calls_in(f.node) if is_call_to(repo, f, x, f'{CAUSES}.{callee}')]
        ctx.require_sites(rule, f'_detect_causes: {callee}', len(calls), 1, f.loc())
        for x in calls:
            guard = None
            p = parent.get(x)
            if isinstance(p, ast.IfExp) and p.body is x and _is_const(p.orelse, None):
                guard = origin(f, p.test)
            else:
                node = parent.get(x)
                while node is not None and node is not f.node:
                    pp = parent.get(node)
                    if isinstance(pp, ast.If) and node in pp.body:
                        guard = origin(f, pp.test)
                        break
                    node = pp
            ok = isinstance(guard, ast.Call) and (dotted(method_call(guard, 'has_handlers') or ast.Constant(0)) or '') == f'registry.{fld}' \
                and dotted(kwarg(guard, 'resource', 0)) == 'resource'
            ctx.ob(rule, f'_detect_causes: the {callee.split("_")[1]} cause exists iff the {fld} registry has handlers for this resource (and no cause otherwise: '
                   'a resource without handlers of a kind gets nothing of that kind)', ok, loc=f.loc(x), construct=construct(f, f'guard:{callee} under {fld}.has_handlers'),
                   detail=norm(guard))
            want = {'resource': 'resource', 'body': 'body', 'patch': 'patch', 'memo': 'memory.memo', 'indices': 'indexers.indices'}
            if callee != 'detect_spawning_cause':
                want['raw_event'] = 'raw_event'
            badk = [k for k, w in want.items() if dotted(kwarg(x, k) or ast.Constant(0)) != w]
            ctx.ob(rule, f'_detect_causes: {callee} receives this event\'s resource, body, patch, raw event, the object\'s memo and the read-only indices',
                   not badk, loc=f.loc(x), construct=construct(f, f'config:{callee} kwargs'), detail=f'unexpected: {badk}')
    # the three kinds' field criteria all reach the essence that is compared
    builds = [x for x in calls_in(f.node) if method_call(x, 'build') is not None and 'diffbase_storage' in src(x.func)]
    ctx.require_sites(rule, '_detect_causes: build of the current essence', len(builds), 1, f.loc())
    for x in builds:
        ef = origin(f, kwarg(x, 'extra_fields')) if kwarg(x, 'extra_fields') is not None else None
        got = {dotted(method_call(c, 'get_extra_fields')) for c in calls_in(ef) if method_call(c, 'get_extra_fields') is not None
               and dotted(kwarg(c, 'resource', 0)) == 'resource'} if ef is not None else set()
        ors = ef is not None and all(isinstance(n.op, ast.BitOr) for n in ast.walk(ef) if isinstance(n, ast.BinOp))
        ctx.ob(rule, '_detect_causes: the current essence is built with the field criteria of the watching, changing and spawning handlers of this resource '
               '(a field some handler filters on is part of old/new/diff)', got == {'registry._watching', 'registry._changing', 'registry._spawning'} and ors,
               loc=f.loc(x), construct=construct(f, 'flow:extra_fields'), detail=norm(ef))
    # the low-level detectors pass everything through
    w = repo.fn(f'{CAUSES}.detect_watching_cause')
    s = repo.fn(f'{CAUSES}.detect_spawning_cause')
    ctx.analysed(w, s)
    for d, cls, want in ((w, 'WatchingCause', {'event': 'raw_event', 'body': 'body'}), (s, 'SpawningCause', {'body': 'body'})):
        ctors = [x for x in calls_in(d.node) if f'{CAUSES}.{cls}' in repo.callee_names(d, x)]
        ctx.require_sites(rule, f'{d.name}: construction of the cause', len(ctors), 1, d.loc())
        for x in ctors:
            ok = all(dotted(kwarg(x, k) or ast.Constant(0)) == v for k, v in want.items()) and any(k.arg is None and dotted(k.value) == 'kwargs' for k in x.keywords)
            if cls == 'WatchingCause':
                t = kwarg(x, 'type')
                ok = ok and isinstance(t, ast.Subscript) and dotted(t.value) == 'raw_event' and isinstance(t.slice, ast.Constant) and t.slice.value == 'type'
            rets = _returns(d)
            ok = ok and len(rets) == 1 and origin(d, rets[0].value) is x
            ctx.ob(rule, f'{d.name}: the cause is built from the given body/event and all the other arguments unchanged, and returned', ok, loc=d.loc(x),
                   construct=construct(d, 'config:pass-through'))


# ====================================================================== kopf/on.py: what a decorator registers
SPEC_KW = ('group', 'version', 'kind', 'plural', 'singular', 'shortcut', 'category')
NOT_PASSED = {'arg1', 'arg2', 'arg3', *SPEC_KW, 'id', 'field', 'registry', 'operation', 'optional'}
NONE4 = {'errors': None, 'timeout': None, 'retries': None, 'backoff': None}
DECORATORS = {
    # decorator: (handler class, registry field, id suffix = field path?, constant facts, resolved facts)
    'startup': ('ActivityHandler', '_activities', False, {}, {'activity': 'Activity.STARTUP'}),
    'cleanup': ('ActivityHandler', '_activities', False, {}, {'activity': 'Activity.CLEANUP'}),
    'login': ('ActivityHandler', '_activities', False, {}, {'activity': 'Activity.AUTHENTICATION'}),
    'probe': ('ActivityHandler', '_activities', False, {}, {'activity': 'Activity.PROBE'}),
    'validate': ('WebhookHandler', '_webhooks', True, NONE4, {}),
    'mutate': ('WebhookHandler', '_webhooks', True, NONE4, {}),
    'resume': ('ChangingHandler', '_changing', True, {'old': None, 'new': None}, {}),
    'create': ('ChangingHandler', '_changing', True, {'old': None, 'new': None, 'deleted': None}, {}),
    'update': ('ChangingHandler', '_changing', True, {'deleted': None}, {}),
    'delete': ('ChangingHandler', '_changing', True, {'old': None, 'new': None, 'deleted': None}, {}),
    'field': ('ChangingHandler', '_changing', True, {'deleted': None}, {}),
    'index': ('IndexingHandler', '_indexing', False, {}, {}),
    'event': ('WatchingHandler', '_watching', True, NONE4, {}),
    'daemon': ('DaemonHandler', '_spawning', True, {}, {}),
    'timer': ('TimerHandler', '_spawning', True, {}, {}),
    'subhandler': ('ChangingHandler', None, False, {'selector': None, 'deleted': None}, {}),
}
ACTIVITY = ('startup', 'cleanup', 'login', 'probe')
GROUPS = {
    'all': tuple(DECORATORS),
    'changing': ('resume', 'create', 'update', 'delete', 'field', 'subhandler'),
    'finalizer': ('delete', 'daemon', 'timer'),
    'index': ('index',),
    'webhooks': ('validate', 'mutate'),
}


def _outer_param(f: FuncInfo, inner: FuncInfo, e: Optional[ast.AST], name: str, *, rebind_ok: bool = False) -> bool:
    """``e`` is the decorator's own parameter ``name``, not rebound on the way."""
    if not (isinstance(e, ast.Name) and e.id == name and any(a.arg == name for a in f.params())):
        return False
    if rebind_ok:
        return True
    stores = [n for g in (f, inner) for n in walk_no_defs(g.node) if isinstance(n, ast.Name) and n.id == name and isinstance(n.ctx, ast.Store)]
    return not stores and not any(a.arg == name for a in inner.params())


def check_decorators(ctx: Ctx, rule: str, group: str = 'all') -> None:
    repo = ctx.repo
    for dec in GROUPS[group]:
        cls, reg, suffix, consts, facts = DECORATORS[dec]
        f = repo.fn(f'{ON}.{dec}')
        inners = _inner_functions(repo, f)
        if len(inners) != 1:
            raise AnalysisError(f'{f.loc()}: expected exactly one inner decorator function in on.{dec}')
        g = inners[0]
        ctx.analysed(f, g)
        K = f'{ON}.{dec}'
        fnp = g.params()[0].arg if g.params() else ''
        ctors = [x for x in calls_in(g.node) if any(n.startswith(HANDLERS + '.') and n in repo.classes for n in repo.callee_names(g, x))]
        if len(ctors) != 1:
            ctx.ob(rule, f'on.{dec}: exactly one handler is constructed per decorated function', False, loc=g.loc(), construct=f'{K}:sites:handler construction',
                   detail=f'found {len(ctors)}')
            continue
        x = ctors[0]
        kws = {k.arg: k.value for k in x.keywords if k.arg}
        ctx.ob(rule, f'on.{dec} constructs a {cls}', f'{HANDLERS}.{cls}' in repo.callee_names(g, x) and not x.args and all(k.arg for k in x.keywords), loc=g.loc(x),
               construct=f'{K}:config:class', detail=norm(x.func))
        # (1) behaviour and criteria parameters reach the handler field of the same name, unchanged
        for a in f.params():
            p = a.arg
            if p in NOT_PASSED:
                continue
            v = kws.get(p)
            if p == 'operations':
                o = origin(g, v) if v is not None else None
                ok = isinstance(v, ast.Name) and v.id == p and isinstance(o, ast.Call) and is_call_to(repo, g, o, f'{ON}._verify_operations') \
                    and [dotted(z) for z in o.args] + [f'{k.arg}={dotted(k.value)}' for k in o.keywords] in (
                        ['operation', 'operations'], ['operation=operation', 'operations=operations'], ['operations=operations', 'operation=operation'])
                ctx.ob(rule, f'on.{dec}: the handler\'s operations are the declared operations= joined with the deprecated operation=, as verified by '
                       '_verify_operations', ok, loc=g.loc(x), construct=f'{K}:flow:operations', detail=norm(o))
                continue
            ctx.ob(rule, f'on.{dec}: the declared {p}= reaches the handler\'s `{p}` unchanged', _outer_param(f, g, v, p), loc=g.loc(v) if v is not None else g.loc(x),
                   construct=f'{K}:flow:{p}', detail=f'{p}={norm(v)}')
        for k, want in consts.items():
            ctx.ob(rule, f'on.{dec}: registers its handler with {k}={want}', _is_const(kws.get(k), want), loc=g.loc(x), construct=f'{K}:config:{k}', detail=norm(kws.get(k)))
        for k, want in facts.items():
            r = repo.resolve(g.module, kws[k]) if k in kws else None
            ctx.ob(rule, f'on.{dec}: registers its handler with {k}={want}', (r or '').endswith('.' + want), loc=g.loc(x), construct=f'{K}:config:{k}', detail=str(r))
        # (2) the function and its id
        ctx.ob(rule, f'on.{dec}: the handler\'s fn is the decorated function itself', isinstance(kws.get('fn'), ast.Name) and kws['fn'].id == fnp and bool(fnp), loc=g.loc(x),
               construct=f'{K}:flow:fn')
        rets = _returns(g)
        ctx.ob(rule, f'on.{dec}: the decorator returns the decorated function itself (stacked decorators register one and the same function object, which is '
               'what the deduplication compares)', bool(rets) and all(isinstance(r.value, ast.Name) and r.value.id == fnp for r in rets), loc=g.loc(rets[0]) if rets else g.loc(),
               construct=f'{K}:flow:return fn')
        idc = origin(g, kws['id']) if 'id' in kws else None
        ok = isinstance(idc, ast.Call) and is_call_to(repo, g, idc, f'{REG}.generate_id') and not idc.args \
            and isinstance(kwarg(idc, 'fn'), ast.Name) and kwarg(idc, 'fn').id == fnp and _outer_param(f, g, kwarg(idc, 'id'), 'id')  # type: ignore[union-attr]
        ctx.ob(rule, f'on.{dec}: the handler id is generate_id(fn=<the decorated function>, id=<the declared id>)', ok, loc=g.loc(x), construct=f'{K}:flow:id', detail=norm(idc))
        fld = kws.get('field')
        has_field = any(a.arg == 'field' for a in f.params())
        if has_field:
            fo = origin(g, fld) if fld is not None else None
            ok = isinstance(fo, ast.BoolOp) and isinstance(fo.op, ast.Or) and len(fo.values) == 2 and _is_const(fo.values[1], None) \
                and isinstance(fo.values[0], ast.Call) and is_call_to(repo, g, fo.values[0], 'dicts.parse_field') \
                and len(fo.values[0].args) == 1 and _outer_param(f, g, fo.values[0].args[0], 'field')
            ctx.ob(rule, f'on.{dec}: the handler\'s field is the parsed declared field= (or None when there is none: "no field" is falsy everywhere)', ok, loc=g.loc(x),
                   construct=f'{K}:flow:field', detail=norm(fo))
        if isinstance(idc, ast.Call):
            sfx = kwarg(idc, 'suffix')
            if suffix:
                so = origin(g, sfx) if sfx is not None else None
                ok = isinstance(so, ast.Call) and method_call(so, 'join') is not None and isinstance(method_call(so, 'join'), ast.Constant) and len(so.args) == 1 \
                    and isinstance(fld, ast.Name) and fld.id in {n.id for n in ast.walk(so.args[0]) if isinstance(n, ast.Name)}
                ctx.ob(rule, f'on.{dec}: the id is suffixed with the handler\'s own field path (two field handlers of one function keep distinct ids and progress)', ok,
                       loc=g.loc(idc), construct=f'{K}:flow:id suffix', detail=norm(sfx))
            else:
                ctx.ob(rule, f'on.{dec}: the id carries no field suffix' + (' (the id of an index is the name handlers look it up by)' if dec == 'index' else ''),
                       sfx is None, loc=g.loc(idc), construct=f'{K}:flow:id suffix', detail=norm(sfx))
            pfx = kwarg(idc, 'prefix')
            if dec == 'subhandler':
                po = origin(g, pfx) if pfx is not None else None
                par = [n for n in ast.walk(po) if isinstance(n, ast.Attribute) and n.attr == 'id'] if po is not None else []
                src_ok = bool(par) and all(isinstance(origin(g, n.value), ast.Call) and (repo.resolve(g.module, origin(g, n.value).func) or '').endswith('execution.handler_var.get')  # type: ignore[union-attr]
                                           for n in par)
                ctx.ob(rule, 'on.subhandler: the id is prefixed with the id of the currently executed parent handler (sub-handlers of different parents keep apart)',
                       src_ok, loc=g.loc(idc), construct=f'{K}:flow:id prefix', detail=norm(po))
            else:
                ctx.ob(rule, f'on.{dec}: a top-level handler id has no prefix', pfx is None, loc=g.loc(idc), construct=f'{K}:flow:id prefix', detail=norm(pfx))
        # (3) the selector is built from the resource specification as given
        if dec not in ACTIVITY and dec != 'subhandler':
            so = origin(g, kws['selector']) if 'selector' in kws else None
            ok = isinstance(so, ast.Call) and any(n.endswith('references.Selector') for n in repo.callee_names(g, so)) \
                and [dotted(a) for a in so.args] == ['arg1', 'arg2', 'arg3'] and all(_outer_param(f, g, a, n) for a, n in zip(so.args, ('arg1', 'arg2', 'arg3'))) \
                and {k.arg for k in so.keywords} == set(SPEC_KW) and all(_outer_param(f, g, k.value, k.arg) for k in so.keywords)
            ctx.ob(rule, f'on.{dec}: the handler\'s selector is built from the positional and keyword resource specification exactly as given '
                   '(arg1..3 in order; group/version/kind/plural/singular/shortcut/category each under its own name)', ok, loc=g.loc(so) if so is not None else g.loc(x),
                   construct=f'{K}:flow:selector', detail=norm(so))
        # (4) registered in the registry of its kind
        apps = [c for c in calls_in(g.node) if method_call(c, 'append') is not None and len(c.args) == 1 and origin(g, c.args[0]) is x]
        ok = len(apps) == 1
        if ok:
            recv = method_call(apps[0], 'append')
            if reg is not None:
                base = origin(g, recv.value) if isinstance(recv, ast.Attribute) else None  # type: ignore[union-attr]
                ok = isinstance(recv, ast.Attribute) and recv.attr == reg and isinstance(base, ast.IfExp) and _outer_param(f, g, base.body, 'registry') \
                    and isinstance(base.orelse, ast.Call) and is_call_to(repo, g, base.orelse, f'{REG}.get_default_registry') \
                    and cond_implies(base.test, True, lambda e, o: isinstance(e, ast.Compare) and isinstance(e.ops[0], ast.Is) and dotted(e.left) == 'registry'
                                     and _is_const(e.comparators[0], None) and o is False)
            else:
                ro = origin(g, recv) if recv is not None else None
                ok = isinstance(ro, ast.Call) and (repo.resolve(g.module, ro.func) or '').endswith('subhandling.subregistry_var.get')
        ctx.ob(rule, f'on.{dec}: the handler is appended, once, to ' + (f'`{reg}` of the given registry (the default registry only when none is given)' if reg else
               'the sub-registry of the currently executed handler'), ok, loc=g.loc(apps[0]) if apps else g.loc(), construct=f'{K}:flow:registered in {reg or "subregistry"}',
               detail='; '.join(norm(a.func, 60) for a in apps))
        # (5) declared criteria are validated before anything is registered
        if dec not in ACTIVITY:
            vf = [c for c in calls_in(g.node) if is_call_to(repo, g, c, f'{ON}._verify_filters')]
            ok = len(vf) == 1 and [dotted(a) for a in vf[0].args] == ['labels', 'annotations'] and not vf[0].keywords
            ctx.ob(rule, f'on.{dec}: the declared labels/annotations criteria are verified (a `None` criterion value is rejected, it would never match)', ok,
                   loc=g.loc(vf[0]) if vf else g.loc(), construct=f'{K}:config:_verify_filters')
            cv = [c for c in calls_in(g.node) if is_call_to(repo, g, c, f'{ON}._warn_conflicting_values')]
            want = ['field', 'value'] + (['old', 'new'] if any(a.arg == 'old' for a in f.params()) else [])
            ok = len(cv) == 1 and [dotted(a) for a in cv[0].args] == want and not cv[0].keywords
            ctx.ob(rule, f'on.{dec}: value=' + ('/old=/new=' if len(want) > 2 else '') + ' criteria without a field= are rejected at declaration (without a field the '
                   'value criteria would be silently ignored by the matcher)', ok, loc=g.loc(cv[0]) if cv else g.loc(), construct=f'{K}:config:_warn_conflicting_values',
                   detail='; '.join(norm(c, 80) for c in cv))
    if group in ('all', 'changing'):
        r = repo.fn(f'{ON}.register')
        ctx.analysed(r)
        subs = [c for c in calls_in(r.node) if is_call_to(repo, r, c, f'{ON}.subhandler')]
        ctx.require_sites(rule, 'on.register: delegation to on.subhandler', len(subs), 1, r.loc())
        for c in subs:
            bad = [a.arg for a in r.params() if a.arg != 'fn' and dotted(kwarg(c, a.arg) or ast.Constant(0)) != a.arg]
            rets = _returns(r)
            app = bool(rets) and all(isinstance(t.value, ast.Call) and origin(r, t.value.func) is c and [dotted(a) for a in t.value.args] == ['fn'] for t in rets)
            ctx.ob(rule, 'on.register: every declared option reaches on.subhandler under its own name and the resulting decorator is applied to the given function',
                   not bad and not c.args and app, loc=r.loc(c), construct=f'{ON}.register:flow:pass-through', detail=f'not passed through: {bad}')


def check_decl_validators(ctx: Ctx, rule: str) -> None:
    repo = ctx.repo
    f = repo.fn(f'{ON}._warn_conflicting_values')
    ctx.analysed(f)
    for n in ('field', 'value', 'old', 'new'):
        _param(f, n)
    paths = absint.analyse(repo, f, absint.Config())
    atoms = {'F': r'^isnone\(field\)$', 'V': r'^isnone\(value\)$', 'O': r'^isnone\(old\)$', 'N': r'^isnone\(new\)$'}

    def spec(v):
        crit = (not v['V']) or (not v['O']) or (not v['N'])
        if v['F'] and crit:
            return 'raise'
        if (not v['V']) and ((not v['O']) or (not v['N'])):
            return 'raise'
        return 'ok'
    table_check(ctx, rule, f, paths, atoms, spec, lambda p: 'raise' if p.status == 'raise' else 'ok',
                what='_warn_conflicting_values: a value=, old= or new= criterion (not None) without a field is rejected, and so is value= together with old=/new= '
                     '(the matcher ignores value criteria of a field-less handler)')
    g = repo.fn(f'{ON}._verify_filters')
    ctx.analysed(g)
    paths = absint.analyse(repo, g, absint.Config())
    for prm in ('labels', 'annotations'):
        _param(g, prm)
        rx_none, rx_val = rf'^isnone\({prm}\)$', rf'^isnone\(item\({prm}\.items\(\)\)\[1\]\)$'
        bad = []
        hit = 0
        for p in paths:
            v = p.atom(rx_val)
            if v is True:
                hit += 1
                if p.status != 'raise':
                    bad.append(f'a None {prm} criterion is accepted')
                if p.atom(rx_none) is not False:
                    bad.append(f'{prm} criteria are examined although {prm} is None')
        ctx.ob(rule, f'_verify_filters: every {prm} criterion whose value is None is rejected (only when {prm} criteria are given)', not bad and hit > 0, loc=g.loc(),
               construct=construct(g, f'formula:{prm} None rejected'), detail='; '.join(dict.fromkeys(bad)) or f'{hit} paths decide it')
    oks = [p for p in paths if p.status != 'raise']
    spurious = [p for p in paths if p.status == 'raise' and p.atom(r'^isnone\(item\(labels\.items\(\)\)\[1\]\)$') is not True
                and p.atom(r'^isnone\(item\(annotations\.items\(\)\)\[1\]\)$') is not True]
    ctx.ob(rule, '_verify_filters: nothing else is rejected', bool(oks) and not spurious, loc=g.loc(), construct=construct(g, 'formula:no other rejection'))


def check_verify_operations(ctx: Ctx, rule: str) -> None:
    repo = ctx.repo
    f = repo.fn(f'{ON}._verify_operations')
    ctx.analysed(f)
    _param(f, 'operation'), _param(f, 'operations')
    paths = absint.analyse(repo, f, absint.Config())
    atoms = {'ON': r'^isnone\(operation\)$', 'OSN': r'^isnone\(operations\)$', 'OST': (r'^truthy\(operations\)$', 'truthy(operations)')}

    def spec(v):
        if not v['ON']:
            return 'joined'
        if v['OSN']:
            return 'operations'
        return 'operations' if v['OST'] else 'raise'

    def observe(p: absint.Path):
        if p.status == 'raise':
            return 'raise'
        if p.status != 'return' or p.retval is None:
            return f'<{p.status}>'
        k = p.retval.key
        if k == 'operations':
            return 'operations'
        return 'joined' if ('[operation]' in k and 'operations' in k) else k[:60]
    table_check(ctx, rule, f, paths, atoms, spec, observe,
                what='_verify_operations: a deprecated operation= is joined into the declared operations; an EMPTY collection of operations is rejected (the '
                     'selection reads falsy operations as "any operation"); None stays None')


# ====================================================================== handlers.ResourceHandler.adjust_cause
def check_adjust_cause(ctx: Ctx, rule: str) -> None:
    repo = ctx.repo
    f = repo.fn(f'{HANDLERS}.ResourceHandler.adjust_cause')
    ctx.analysed(f)
    c = _param(f, 'cause')

    def eff(it, p, call, names):
        return 'replace' if (repo.resolve(f.module, call.func) or '') == 'dataclasses.replace' else None
    paths = absint.analyse(repo, f, absint.Config(effect=eff))
    atoms = {'FN': r'^isnone\(self\.field\)$', 'CC': rf'^isinstance\({c}, {_e(CAUSES)}\.ChangingCause\)$'}

    def observe(p: absint.Path):
        if p.status != 'return' or p.retval is None:
            return f'<{p.status}>'
        r = p.effects('replace')
        if not r:
            return 'same' if p.retval.key == c else p.retval.key[:60]
        e = r[0]
        a0 = e.kw.get('#0')

        def narrowed(k: str, fn: str, attr: str) -> bool:
            v = e.kw.get(k)
            return v is not None and v.key.startswith(fn + '(') and f'{c}.{attr}, self.field' in v.key
        ok = a0 is not None and a0.key == c and narrowed('old', 'kopf._cogs.structs.dicts.resolve', 'old') and narrowed('new', 'kopf._cogs.structs.dicts.resolve', 'new') \
            and narrowed('diff', 'kopf._cogs.structs.diffs.reduce', 'diff') and p.retval.key == e.key and set(e.kw) == {'#0', 'old', 'new', 'diff'}
        return 'narrowed' if ok else 'narrowed?' + ','.join(f'{k}={v.key[:50]}' for k, v in e.kw.items())
    table_check(ctx, rule, f, paths, atoms, lambda v: 'narrowed' if (not v['FN'] and v['CC']) else 'same', observe,
                what='ResourceHandler.adjust_cause: for a field handler and a changing cause old/new/diff are narrowed to the handler\'s field (old from old, new '
                     'from new, diff reduced), everything else of the cause is kept; otherwise the cause is returned as is (sub-handlers are matched against it)')


# ====================================================================== causes: what callbacks and handlers see
BODY_KWARGS = {'spec': 'self.body.spec', 'meta': 'self.body.metadata', 'status': 'self.body.status', 'uid': 'self.body.metadata.uid', 'name': 'self.body.metadata.name',
               'namespace': 'self.body.metadata.namespace', 'labels': 'self.body.metadata.labels', 'annotations': 'self.body.metadata.annotations'}


def _is_super_attr(e: Optional[ast.AST], attr: str) -> bool:
    return isinstance(e, ast.Attribute) and e.attr == attr and isinstance(e.value, ast.Call) and dotted(e.value.func) == 'super' and not e.value.args


def check_cause_kwargs(ctx: Ctx, rule: str) -> None:
    repo = ctx.repo
    f = repo.fn(f'{CAUSES}.ResourceCause._kwargs')
    ctx.analysed(f)
    rets = _returns(f)
    v = origin(f, rets[0].value) if len(rets) == 1 and rets[0].value is not None else None
    ok = isinstance(v, ast.Call) and dotted(v.func) == 'dict' and len(v.args) == 1 and _is_super_attr(v.args[0], '_kwargs')
    ctx.ob(rule, 'ResourceCause._kwargs: the kwargs of filter callbacks and handlers are the cause\'s own fields (body, patch, memo, logger, ...) plus the body views', ok,
           loc=f.loc(), construct=construct(f, 'config:dict(super()._kwargs, ...)'), detail=norm(v))
    kws = {k.arg: k.value for k in v.keywords if k.arg} if isinstance(v, ast.Call) else {}
    for k, want in BODY_KWARGS.items():
        ctx.ob(rule, f'ResourceCause._kwargs: `{k}` is {want[5:]} of the cause\'s own body (what a `when=`/value callback decides on is the object of this event)',
               dotted(kws.get(k) or ast.Constant(0)) == want, loc=f.loc(kws[k]) if k in kws else f.loc(), construct=construct(f, f'config:{k}'), detail=norm(kws.get(k)))
    # hidden implementation fields: removed from a COPY of the inherited kwargs, nothing else removed
    hidden = {'BaseCause': {'indices'}, 'WebhookCause': {'reason', 'webhook'}, 'SpawningCause': {'reset'}, 'ChangingCause': {'initial'}, 'DaemonCause': {'stopper'}}
    for cls, keys in hidden.items():
        h = repo.fn(f'{CAUSES}.{cls}._kwargs')
        ctx.analysed(h)
        dels = {t.slice.value for n in walk_no_defs(h.node) if isinstance(n, ast.Delete) for t in n.targets
                if isinstance(t, ast.Subscript) and isinstance(t.slice, ast.Constant)}
        pops = {c.args[0].value for c in calls_in(h.node) if method_call(c, 'pop') is not None and c.args and isinstance(c.args[0], ast.Constant)}
        rets = _returns(h)
        rv = origin(h, rets[0].value) if len(rets) == 1 and rets[0].value is not None else None
        copied = isinstance(rv, ast.Call) and dotted(rv.func) == 'dict' and len(rv.args) == 1 and _is_super_attr(rv.args[0], '_kwargs') and not rv.keywords
        ctx.ob(rule, f'{cls}._kwargs: exactly {sorted(keys)} are withheld from the kwargs, on a copy of the inherited ones', (dels | pops) == keys and copied, loc=h.loc(),
               construct=construct(h, 'config:withheld keys'), detail=f'removed {sorted(dels | pops)}; base {norm(rv)}')
    s = repo.fn(f'{CAUSES}.BaseCause._super_kwargs')
    ctx.analysed(s)
    rets = _returns(s)
    rv = rets[0].value if len(rets) == 1 else None
    ctx.ob(rule, 'BaseCause._super_kwargs: every index is exposed to handlers under its own name (the read-only view given to the cause)',
           isinstance(rv, ast.Call) and dotted(rv.func) == 'dict' and len(rv.args) == 1 and dotted(rv.args[0]) == 'self.indices' and not rv.keywords, loc=s.loc(),
           construct=construct(s, 'flow:dict(self.indices)'), detail=norm(rv))
    k = repo.fn('kopf._core.actions.invocation.Kwargable.kwargs')
    ctx.analysed(k)
    rets = _returns(k)
    rv = rets[0].value if len(rets) == 1 else None
    ok = isinstance(rv, ast.BinOp) and isinstance(rv.op, ast.BitOr) and dotted(rv.left) == 'self._kwargs' and dotted(rv.right) == 'self._super_kwargs'
    ctx.ob(rule, 'Kwargable.kwargs: the kwargs given to filter callbacks are the cause\'s kwargs overlaid with the indices', ok, loc=k.loc(), construct=construct(k, 'flow:_kwargs | _super_kwargs'),
           detail=norm(rv))


def check_cause_deleted(ctx: Ctx, rule: str) -> None:
    repo = ctx.repo
    f = repo.fn(f'{CAUSES}.ChangingCause.deleted')
    ctx.analysed(f)
    rets = _returns(f)
    v = origin(f, rets[0].value) if len(rets) == 1 and rets[0].value is not None else None
    ok = isinstance(v, ast.Call) and is_call_to(repo, f, v, 'finalizers.is_deletion_ongoing') and dotted(kwarg(v, 'body', 0) or ast.Constant(0)) == 'self.body' \
        and len(v.args) + len(v.keywords) == 1
    ctx.ob(rule, 'ChangingCause.deleted: "the object is being deleted" is the same predicate the cause detection uses (is_deletion_ongoing) on the cause\'s own body '
           '-- it decides whether resume handlers run on an object marked for deletion', ok, loc=f.loc(), construct=construct(f, 'sibling:is_deletion_ongoing(self.body)'),
           detail=norm(v))
    ctx.ob(rule, 'ChangingCause.deleted is a property (the selection reads `cause.deleted` as a value)', any(d == 'property' or d.endswith('.property') for d in f.decorators),
           loc=f.loc(), construct=construct(f, 'config:property'))


# ====================================================================== queueing: the key of a per-object stream
def _get_chain(e: Optional[ast.AST]) -> Optional[tuple[str, tuple]]:
    """`root.get('a', {}).get('b')` / `root['a']['b']` / mixtures -> (root, ('a', 'b')); None if anything else is involved."""
    keys: list = []
    while True:
        if isinstance(e, ast.Subscript) and isinstance(e.slice, ast.Constant):
            keys.append(e.slice.value)
            e = e.value
        elif isinstance(e, ast.Call) and method_call(e, 'get') is not None and e.args and isinstance(e.args[0], ast.Constant) and not e.keywords \
                and (len(e.args) == 1 or (len(e.args) == 2 and (isinstance(e.args[1], ast.Dict) and not e.args[1].keys or _is_const(e.args[1], None)))):
            keys.append(e.args[0].value)
            e = e.func.value  # type: ignore[attr-defined]
        else:
            break
    d = dotted(e) if e is not None else None
    return (d, tuple(reversed(keys))) if d else None


def check_get_uid(ctx: Ctx, rule: str) -> None:
    repo = ctx.repo
    f = repo.fn(f'{Q}.get_uid')
    ctx.analysed(f)
    ev = f.params()[0].arg
    paths = absint.analyse(repo, f, absint.Config())
    md = rf"{_e(ev)}\['object'\]\['metadata'\]"
    atoms = {'HAS': rf"^in\('uid', {md}\)$"}

    def observe(p: absint.Path):
        if p.status != 'return' or p.retval is None:
            return f'<{p.status}>'
        k = p.retval.key
        if re.search(rf"ObjectUid\({md}\['uid'\]\)$", k) or re.fullmatch(rf"{md}\['uid'\]", k):
            return 'uid'
        return 'fallback' if 'join' in k else k[:60]
    table_check(ctx, rule, f, paths, atoms, lambda v: 'uid' if v['HAS'] else 'fallback', observe,
                what='get_uid: the uid of the object wins whenever metadata has one (a presence test, not a truthiness test of something else); only otherwise the '
                     'composed fallback is used')
    # the fallback is composed of all five identifying fields of the event's object
    def chain(x):
        # follow single-assignment locals of the root: `metadata = raw_body['metadata']`, `raw_body = raw_event['object']`
        c = _get_chain(x)
        for _ in range(4):
            if c is None or c[0] == ev or '.' in c[0]:
                break
            o = origin(f, ast.Name(id=c[0], ctx=ast.Load()), 1)
            if isinstance(o, ast.Name) and o.id == c[0]:
                break
            oc = _get_chain(o)
            if oc is None:
                break
            c = (oc[0], oc[1] + c[1])
        return c
    lists = [n for n in walk_no_defs(f.node) if isinstance(n, (ast.List, ast.Tuple)) and len(n.elts) >= 3 and all(chain(x) is not None for x in n.elts)]
    ctx.require_sites(rule, 'get_uid: the list of identifying fields of the fallback', len(lists), 1, f.loc())
    for n in lists:
        got = {chain(x) for x in n.elts}
        want = {(ev, ('object', 'kind')), (ev, ('object', 'apiVersion')), (ev, ('object', 'metadata', 'name')), (ev, ('object', 'metadata', 'namespace')),
                (ev, ('object', 'metadata', 'creationTimestamp'))}
        ctx.ob(rule, 'get_uid: without a uid the key is composed of kind, apiVersion, name, namespace and creationTimestamp of the event\'s object (objects of '
               'different namespaces/kinds or re-created objects do not share a stream)', got == want, loc=f.loc(n), construct=construct(f, 'config:fallback fields'),
               detail=f'missing {sorted(want - got)}; unexpected {sorted(got - want)}')
    # ... and that key, with the resource, addresses the stream
    w = repo.fn(f'{Q}.watcher')
    ctx.analysed(w)
    sites = [x for x in calls_in(w.node) if is_call_to(repo, w, x, f'{Q}.get_uid')]
    ctx.require_sites(rule, 'watcher: computation of the object key', len(sites), 1, w.loc())
    loops = [n for n in walk_no_defs(w.node) if isinstance(n, ast.AsyncFor)]
    evs = {n.target.id for n in loops if isinstance(n.target, ast.Name)}
    for x in sites:
        par = w.module.parent.get(x)
        ok = isinstance(par, ast.Tuple) and len(par.elts) == 2 and dotted(par.elts[0]) == 'resource' and par.elts[1] is x and len(x.args) == 1 and dotted(x.args[0]) in evs
        ctx.ob(rule, 'watcher: the stream key of an event is (resource, get_uid(<that very event>))', ok, loc=w.loc(x), construct=construct(w, 'flow:key=(resource, get_uid(event))'),
               detail=norm(par))
        asg = w.module.parent.get(par) if par is not None else None
        keyname = asg.target.id if isinstance(asg, ast.AnnAssign) and isinstance(asg.target, ast.Name) else \
            asg.targets[0].id if isinstance(asg, ast.Assign) and isinstance(asg.targets[0], ast.Name) else None
        subs = [n for n in walk_no_defs(w.node) if isinstance(n, ast.Subscript) and dotted(n.value) == 'streams']
        ctx.ob(rule, 'watcher: every access to the streams uses that key', keyname is not None and bool(subs) and all(dotted(n.slice) == keyname for n in subs),
               loc=w.loc(x), construct=construct(w, 'flow:streams[key]'))


def check_get_version(ctx: Ctx, rule: str) -> None:
    repo = ctx.repo
    f = repo.fn(f'{Q}.get_version')
    ctx.analysed(f)
    ev = f.params()[0].arg
    paths = absint.analyse(repo, f, absint.Config())

    def observe(p: absint.Path):
        if p.status != 'return' or p.retval is None:
            return f'<{p.status}>'
        return 'None' if p.retval.key == 'None' else p.retval.key
    want = f"{ev}.get('object', {{}}).get('metadata', {{}}).get('resourceVersion')"
    alt = f"{ev}['object']['metadata']['resourceVersion']"
    table_check(ctx, rule, f, paths, {'EOS': rf'^isinstance\({_e(ev)}, {_e(Q)}\.EOS\)$'}, lambda v: 'None' if v['EOS'] else 'rv',
                lambda p: 'rv' if observe(p) in (want, alt) else observe(p),
                what='get_version: the version of an event is metadata.resourceVersion of its object; the end-of-stream marker has none (the awaited version of the '
                     'own patch is compared with it)')


# ====================================================================== inventory: per-object memories
def check_memories(ctx: Ctx, rule: str) -> None:
    repo = ctx.repo
    mem = repo.cls(f'{INV}.ResourceMemory')
    per_object = {'memo': None, 'error_throttler': 'kopf._core.actions.throttlers.Throttler', 'indexing_memory': f'{IDX}.IndexingMemory',
                  'daemons_memory': 'kopf._core.engines.daemons.DaemonsMemory'}
    for fld, cls in per_object.items():
        d = mem.field_defaults.get(fld)
        fac = kwarg(d, 'default_factory') if isinstance(d, ast.Call) and (repo.resolve(mem.module, d.func) or '') == 'dataclasses.field' else None
        if cls is None:
            made = [c for c in ast.walk(fac) if isinstance(c, ast.Call)] if isinstance(fac, ast.Lambda) else []
            ok = isinstance(fac, ast.Lambda) and any((repo.resolve(mem.module, c.func) or '').endswith('ephemera.Memo') and not c.args for c in made)
        else:
            ok = fac is not None and repo.resolve(mem.module, fac) == cls
        ctx.ob(rule, f'ResourceMemory.{fld}: every object gets its own instance (default_factory), never a default shared by all objects', ok and kwarg(d, 'default') is None,
               loc=mem.module.relpath(), construct=f'{INV}.ResourceMemory:default_factory:{fld}', detail=norm(d))
    ctx.ob(rule, 'ResourceMemory.remaining_patch starts as None (no carried-forward patch for a new object)', _is_const(mem.field_defaults.get('remaining_patch'), None),
           loc=mem.module.relpath(), construct=f'{INV}.ResourceMemory:default:remaining_patch')
    im = repo.cls(f'{IDX}.IndexingMemory')
    ctx.ob(rule, 'IndexingMemory.indexing_state starts as None (nothing to retry or to back off from)', _is_const(im.field_defaults.get('indexing_state'), None),
           loc=im.module.relpath(), construct=f'{IDX}.IndexingMemory:default:indexing_state')
    mi = repo.fn(f'{INV}.ResourceMemories.__init__')
    v = repo.cls(f'{INV}.ResourceMemories').field_values.get('_items')
    ctx.ob(rule, 'ResourceMemories: every container starts with its own empty mapping', isinstance(v, ast.Dict) and not v.keys, loc=mi.loc(), construct=construct(mi, 'config:_items={}'))
    # recall_memo: the memo of exactly the memory that recall() gives for these arguments
    f = repo.fn(f'{INV}.ResourceMemories.recall_memo')
    ctx.analysed(f)
    paths = absint.analyse(repo, f, absint.Config())
    want = 'self.recall(raw_body=raw_body, memobase=memobase, ephemeral=ephemeral).memo'
    alt = 'self.recall(raw_body, memobase=memobase, ephemeral=ephemeral).memo'
    ok = len(paths) == 1 and paths[0].status == 'return' and paths[0].retval is not None and paths[0].retval.key in (want, alt)
    ctx.ob(rule, 'ResourceMemories.recall_memo: returns the memo of the memory recalled for this body, passing memobase= and ephemeral= on (an ephemeral recall -- the '
           'review of an object that does not exist yet -- must not leave a memory behind) and never claiming the object was noticed by the listing', ok, loc=f.loc(),
           construct=construct(f, 'flow:recall(...).memo'), detail=paths[0].retval.key if paths and paths[0].retval is not None else '')
    # the iterators over all memories
    for name, item in (('iter_all_memories', None), ('iter_all_daemon_memories', 'daemons_memory')):
        g = repo.fn(f'{INV}.ResourceMemories.{name}')
        ctx.analysed(g)
        conds = [n for n in walk_no_defs(g.node) if isinstance(n, (ast.If, ast.IfExp, ast.Break, ast.Continue, ast.Return, ast.Try)) or (isinstance(n, ast.comprehension) and n.ifs)]
        ys = [n for n in walk_no_defs(g.node) if isinstance(n, (ast.Yield, ast.YieldFrom))]
        src_ok = any(isinstance(c, ast.Call) and method_call(c, 'values') is not None and dotted(method_call(c, 'values')) == 'self._items' and not c.args for c in calls_in(g.node))
        if item is None:
            shape = len(ys) == 1 and (isinstance(ys[0], ast.YieldFrom) or isinstance(ys[0].value, ast.Name))
        else:
            shape = len(ys) == 1 and isinstance(ys[0], ast.Yield) and isinstance(ys[0].value, ast.Attribute) and ys[0].value.attr == item and isinstance(ys[0].value.value, ast.Name)
        ctx.ob(rule, f'ResourceMemories.{name}: yields ' + (f'the {item} of ' if item else '') + 'EVERY remembered object, unconditionally (the daemon killer and the '
               'shutdown must reach all of them)', not conds and shape and src_ok, loc=g.loc(), construct=construct(g, 'flow:all memories'))


# ====================================================================== indexing containers
def check_index_containers(ctx: Ctx, rule: str) -> None:
    repo = ctx.repo
    # Store._replace / _discard
    f = repo.fn(f'{IDX}.Store._replace')
    ctx.analysed(f)
    k, o = (f.params()[1].arg, f.params()[2].arg) if len(f.params()) == 3 else ('', '')
    paths = absint.analyse(repo, f, absint.Config())

    def obs_store(p: absint.Path):
        w = [e for e in p.trace if e.label.startswith('setitem:')]
        return tuple((e.label, e.kw['index'].key, e.kw['value'].key) for e in w)
    table_check(ctx, rule, f, paths, {'IN': rf'^in\({_e(k)}, self\.__items\)$', 'EQ': rf'^eq\(({_e(o)}, self\.__items\[{_e(k)}\]|self\.__items\[{_e(k)}\], {_e(o)})\)$'},
                lambda v: () if (v['IN'] and v['EQ']) else (('setitem:self.__items', k, o),), obs_store,
                what='Store._replace: the value of the object is (over)written under its key unless the very same value is already stored (a new object and a changed '
                     'value are both stored)')
    d = repo.fn(f'{IDX}.Store._discard')
    ctx.analysed(d)
    dk = d.params()[1].arg if len(d.params()) == 2 else ''
    dels = [n for n in walk_no_defs(d.node) if isinstance(n, ast.Delete)]
    pops = [c for c in calls_in(d.node) if method_call(c, 'pop') is not None and dotted(method_call(c, 'pop')) == 'self.__items']
    removes = (len(dels) == 1 and len(dels[0].targets) == 1 and isinstance(dels[0].targets[0], ast.Subscript) and dotted(dels[0].targets[0].value) == 'self.__items'
               and dotted(dels[0].targets[0].slice) == dk and not pops) or (not dels and len(pops) == 1 and dotted(pops[0].args[0]) == dk and len(pops[0].args) == 2)
    guards = [n for n in walk_no_defs(d.node) if isinstance(n, (ast.If, ast.Return))]
    tolerant = bool(pops) or any(isinstance(t, ast.Try) and any(h.type is not None and dotted(h.type) == 'KeyError' for h in t.handlers) for t in walk_no_defs(d.node)) \
        or any(isinstance(n, ast.If) for n in guards)
    bad_guard = [n for n in guards if isinstance(n, ast.If) and not cond_implies(n.test, True, lambda e, oo: isinstance(e, ast.Compare) and isinstance(e.ops[0], ast.In)
                                                                                   and dotted(e.left) == dk and dotted(e.comparators[0]) == 'self.__items' and oo is True)]
    ctx.ob(rule, 'Store._discard: the object\'s value is removed under its key, whatever it is, and an absent key is tolerated', removes and tolerant and not bad_guard
           and not any(isinstance(n, ast.Return) for n in guards), loc=d.loc(), construct=construct(d, 'flow:del items[key]'))
    # Index._discard
    g = repo.fn(f'{IDX}.Index._discard')
    ctx.analysed(g)
    if [a.arg for a in g.params()][1:] != ['acckey', 'obj_keys']:
        raise AnalysisError(f'{g.loc()}: unexpected signature of {g.short}')
    loop = _one_loop(g)
    paths = absint.analyse(repo, g, absint.Config())
    bad = []
    rows = set()
    for p in paths:
        known = p.atom(r'^in\(acckey, self\.__reverse\)$')
        if known is not True:
            rows.add('unknown')
            if p.trace:
                bad.append('an object without a reverse entry causes writes')
            continue
        given = p.atom(r'^isnone\(obj_keys\)$')
        cur = p.env.get('obj_keys')
        if given is None:
            bad.append('which keys to discard is decided without asking whether obj_keys were given (is None)')
        elif given is True:
            rows.add('all')
            if cur is None or not re.fullmatch(r'(self\.__reverse\[acckey\]\.copy\(\)|(set|list|tuple|frozenset)\(self\.__reverse\[acckey\]\))', cur.key):
                bad.append(f'"all keys of the object" is not a copy of its reverse entry: {cur.key if cur else None}')
        else:
            rows.add('given')
            if cur is None or cur.key != 'obj_keys':
                bad.append(f'the given keys are replaced by {cur.key if cur else None}')
        emptied = p.atom(r'^truthy\(self\.__reverse\[acckey\]\)$')
        dr = [e for e in p.trace if e.label == 'delitem:self.__reverse']
        if (emptied is False) != bool(dr) or any(e.kw['index'].key != 'acckey' for e in dr):
            bad.append('the reverse entry is freed iff it became empty: violated')
    ctx.count('paths', len(paths))
    ctx.ob(rule, f'Index._discard ({len(paths)} paths): only for an object that has a reverse entry; the keys to discard are the GIVEN ones whenever any were given '
           '(`is not None`: an empty set of obsolete keys discards nothing), else a copy of all keys of the object; the reverse entry is freed exactly when emptied',
           not bad and {'unknown', 'all', 'given'} <= rows, loc=g.loc(), construct=construct(g, 'table:which keys'), detail=' | '.join(dict.fromkeys(bad)))
    lp = absint.analyse(repo, g, absint.Config(effect=lambda it, p, call, names: ('call:' + call.func.attr) if isinstance(call.func, ast.Attribute)
                                                                                                     and call.func.attr in ('_discard', 'discard', 'remove') else None),
                        stmts=loop.body, env={loop.target.id: absint.sym('KEY')})  # type: ignore[attr-defined]

    def obs_iter(p: absint.Path):
        out = []
        for e in p.trace:
            if e.label == 'call:_discard':
                out.append(('store-discard', e.key.startswith('self.__items[KEY]._discard(acckey)')))
            elif e.label in ('call:discard', 'call:remove'):
                out.append(('reverse-discard', e.key.startswith('self.__reverse[acckey].') and e.key.endswith('(KEY)')))
            elif e.label.startswith('delitem:'):
                out.append((e.label, e.kw['index'].key))
        return tuple(out)
    table_check(ctx, rule, g, lp, {'LEFT': r'^truthy\(self\.__items\[KEY\]\)$'},
                lambda v: (('store-discard', True),) + ((('delitem:self.__items', 'KEY'),) if not v['LEFT'] else ()) + (('reverse-discard', True),), obs_iter,
                what='Index._discard (one key): the object is discarded from the store of that key, a store emptied by it is removed from the index, and the key is '
                     'removed from the object\'s reverse entry')
    # Index._replace: what is stored, where
    r = repo.fn(f'{IDX}.Index._replace')
    ctx.analysed(r)
    rl = [n for n in walk_no_defs(r.node) if isinstance(n, ast.For)]
    ctx.require_sites(rule, 'Index._replace: loop over the (key, value) pairs of the result', len(rl), 1, r.loc())
    for lp_ in rl[:1]:
        okl = isinstance(lp_.iter, ast.Call) and method_call(lp_.iter, 'items') is not None and dotted(method_call(lp_.iter, 'items')) == 'obj' \
            and isinstance(lp_.target, ast.Tuple) and len(lp_.target.elts) == 2 and all(isinstance(t, ast.Name) for t in lp_.target.elts)
        if not okl:
            ctx.ob(rule, 'Index._replace: iterates all (key, value) pairs of the result', False, loc=r.loc(lp_), construct=construct(r, 'flow:loop over obj.items()'))
            continue
        kn, vn = (t.id for t in lp_.target.elts)  # type: ignore[union-attr]
        reps = [c for c in calls_in(lp_) if method_call(c, '_replace') is not None]
        adds = [c for c in calls_in(lp_) if method_call(c, 'add') is not None]
        conds = [n for s in lp_.body for n in walk_no_defs(s) if isinstance(n, (ast.If, ast.Continue, ast.Break, ast.Return))]
        stores = {n.targets[0].id for s in lp_.body for n in walk_no_defs(s) if isinstance(n, ast.Assign) and isinstance(n.targets[0], ast.Name)
                  and any(isinstance(x, ast.Subscript) and dotted(x.value) == 'self.__items' and dotted(x.slice) == kn for x in ast.walk(n))}
        ok = len(reps) == 1 and [dotted(a) for a in reps[0].args] == ['acckey', vn] and dotted(method_call(reps[0], '_replace')) in stores \
            and len(adds) == 1 and [dotted(a) for a in adds[0].args] == [kn] and not conds
        ctx.ob(rule, 'Index._replace: for EVERY (key, value) of the result the value is stored in the store of THAT key under the object\'s access key, and the key is '
               'recorded in the object\'s reverse entry', ok, loc=r.loc(lp_), construct=construct(r, 'flow:store[key]._replace(acckey, value); reverse.add(key)'))
        news = [c for s in lp_.body for c in calls_in(s) if f'{IDX}.Store' in repo.callee_names(r, c)]
        ctx.ob(rule, 'Index._replace: a key seen for the first time gets a fresh Store of its own', len(news) == 1 and not news[0].args, loc=r.loc(lp_),
               construct=construct(r, 'config:fresh Store per key'))
    dis = [c for c in calls_in(r.node) if method_call(c, '_discard') is not None and dotted(method_call(c, '_discard')) == 'self']
    for c in dis:
        a1 = origin(r, c.args[1]) if len(c.args) > 1 else (origin(r, kwarg(c, 'obj_keys')) if kwarg(c, 'obj_keys') is not None else None)
        ok = isinstance(a1, ast.BinOp) and isinstance(a1.op, ast.Sub) and isinstance(a1.left, ast.Name) and 'obj' in {n.id for n in ast.walk(a1.right) if isinstance(n, ast.Name)} \
            and dotted(c.args[0] if c.args else kwarg(c, 'acckey')) == 'acckey'
        ctx.ob(rule, 'Index._replace: what is discarded afterwards are the keys recorded for the object MINUS the keys of the new result (obsolete keys only)', ok, loc=r.loc(c),
               construct=construct(r, 'flow:_discard(acckey, recorded - new)'), detail=norm(a1))
    # fresh containers
    for cls, flds in (('Store', {'__items': ast.Dict}), ('Index', {'__items': ast.Dict, '__reverse': ast.Dict})):
        ci = repo.cls(f'{IDX}.{cls}')
        init = repo.fn(f'{IDX}.{cls}.__init__')
        got = {t.attr: n.value for n in walk_no_defs(init.node) if isinstance(n, ast.Assign) for t in n.targets if isinstance(t, ast.Attribute) and dotted(t.value) == 'self'}
        ok = all(isinstance(got.get(a), ast.Dict) and not got[a].keys for a in flds) and not any(a in ci.field_defaults for a in flds)
        ctx.ob(rule, f'{cls}: every instance starts with its own empty mappings (no class-level shared container)', ok, loc=init.loc(), construct=construct(init, 'config:fresh containers'))
    oi = repo.fn(f'{IDX}.OperatorIndexer.__init__')
    v = repo.cls(f'{IDX}.OperatorIndexer').field_values.get('index')
    ctx.ob(rule, 'OperatorIndexer: every indexer owns a fresh Index', isinstance(v, ast.Call) and repo.resolve(oi.module, v.func) == f'{IDX}.Index' and not v.args, loc=oi.loc(),
           construct=construct(oi, 'config:index=Index()'))


def check_indexers(ctx: Ctx, rule: str) -> None:
    repo = ctx.repo
    mk = repo.fn(f'{IDX}.OperatorIndexers.make_key')
    ctx.analysed(mk)
    b = _param(mk, 'body')
    paths = absint.analyse(repo, mk, absint.Config())
    rv = paths[0].retval if len(paths) == 1 and paths[0].status == 'return' else None
    elts = [e.key for e in rv.data] if rv is not None and rv.kind == 'tuple' else []

    def part(k: str) -> tuple:
        return (f"{b}.get('metadata', {{}}).get('{k}')", f"{b}['metadata'].get('{k}')", f"{b}.metadata.{k}", f"{b}.metadata.get('{k}')")
    ok = len(elts) == 3 and all(e in part(k) for e, k in zip(elts, ('namespace', 'name', 'uid')))
    ctx.ob(rule, 'OperatorIndexers.make_key: the key of an object in the index containers is (namespace, name, uid) of ITS metadata -- the same for the event that '
           'stored it and the event that removes it, different for different objects', ok, loc=mk.loc(), construct=construct(mk, 'config:key=(namespace, name, uid)'),
           detail=rv.key if rv is not None else 'no single return')
    en = repo.fn(f'{IDX}.OperatorIndexers.ensure')
    ctx.analysed(en)
    lp = _one_loop(en)
    hv = lp.target.id  # type: ignore[attr-defined]
    asg = [n for s in lp.body for n in walk_no_defs(s) if isinstance(n, ast.Assign) and len(n.targets) == 1 and isinstance(n.targets[0], ast.Subscript)
           and dotted(n.targets[0].value) == 'self']
    conds = [n for s in lp.body for n in walk_no_defs(s) if isinstance(n, (ast.If, ast.Continue, ast.Break, ast.Return))]
    ok = len(asg) == 1 and dotted(asg[0].targets[0].slice) == f'{hv}.id' and isinstance(asg[0].value, ast.Call) and f'{IDX}.OperatorIndexer' in repo.callee_names(en, asg[0].value) \
        and not asg[0].value.args and not conds and dotted(lp.iter) == en.params()[1].arg
    ctx.ob(rule, 'OperatorIndexers.ensure: EVERY given index handler gets a fresh indexer of its own under its handler id (the name the index is exposed by)', ok, loc=en.loc(lp),
           construct=construct(en, 'flow:self[handler.id]=OperatorIndexer()'))
    rp = repo.fn(f'{IDX}.OperatorIndexer.replace')
    ctx.analysed(rp)
    paths = absint.analyse(repo, rp, absint.Config(effect=lambda it, p, call, names: 'store' if method_call(call, '_replace') is not None else None))

    def obs(p: absint.Path):
        st = p.effects('store')
        return st[0].kw['#1'].key if len(st) == 1 and '#1' in st[0].kw and st[0].kw['#0'].key == 'key' and st[0].key.startswith('self.index._replace(') else f'<{len(st)} stores>'
    table_check(ctx, rule, rp, paths, {'MAP': r'^isinstance\(obj, collections\.abc\.Mapping\)$'}, lambda v: 'obj' if v['MAP'] else '{None: obj}', obs,
                what='OperatorIndexer.replace: a mapping result is stored per key as is, any other result under the single key None')
    vw = repo.fn(f'{IDX}.OperatorIndices.__getitem__')
    ctx.analysed(vw)
    rets = _returns(vw)
    rv2 = rets[0].value if len(rets) == 1 else None
    idp = vw.params()[1].arg if len(vw.params()) > 1 else ''
    ok = isinstance(rv2, ast.Attribute) and rv2.attr == 'index' and isinstance(rv2.value, ast.Subscript) and dotted(rv2.value.value) == 'self.__indexers' \
        and idp in {n.id for n in ast.walk(rv2.value.slice) if isinstance(n, ast.Name)}
    ctx.ob(rule, 'OperatorIndices[id]: handlers are given the index of the indexer registered under that id (the one the indexing results are written to)', ok, loc=vw.loc(),
           construct=construct(vw, 'flow:indexers[id].index'), detail=norm(rv2))
    vi = repo.cls(f'{IDX}.OperatorIndexers').field_values.get('indices')
    ii = repo.fn(f'{IDX}.OperatorIndexers.__init__')
    ctx.ob(rule, 'OperatorIndexers.indices: the read-only view is a view of THIS set of indexers', isinstance(vi, ast.Call) and repo.resolve(ii.module, vi.func) == f'{IDX}.OperatorIndices'
           and [dotted(a) for a in vi.args] == ['self'], loc=ii.loc(), construct=construct(ii, 'config:indices=OperatorIndices(self)'))


# ====================================================================== admission: the reconstructed cause, the resource, the managed configuration
def _if_not_none(e: Optional[ast.AST]) -> Optional[tuple[str, ast.AST, ast.AST]]:
    """`A if x is not None else B` / `B if x is None else A` -> (x, A, B)."""
    if not isinstance(e, ast.IfExp) or not isinstance(e.test, ast.Compare) or len(e.test.ops) != 1 or not _is_const(e.test.comparators[0], None):
        return None
    x = dotted(e.test.left)
    if x is None:
        return None
    if isinstance(e.test.ops[0], ast.IsNot):
        return x, e.body, e.orelse
    if isinstance(e.test.ops[0], ast.Is):
        return x, e.orelse, e.body
    return None


def check_admission_cause(ctx: Ctx, rule: str) -> None:
    repo = ctx.repo
    f, g = cfg_of(ctx, f'{ADM}.serve_admission_request')
    for n in ('request', 'headers', 'sslpeer', 'memories', 'memobase', 'insights', 'indices'):
        _param(f, n)
    ctors = [x for x in calls_in(f.node) if f'{CAUSES}.WebhookCause' in repo.callee_names(f, x)]
    ctx.require_sites(rule, 'serve_admission_request: construction of the webhook cause', len(ctors), 1, f.loc())
    if len(ctors) != 1:
        return
    y = ctors[0]
    K = lambda role: construct(f, role)  # noqa: E731

    def o(e: Optional[ast.AST]) -> Optional[ast.AST]:
        e = origin(f, e) if e is not None else None
        return e.value if isinstance(e, ast.Await) else e

    def req(e: Optional[ast.AST], key: str) -> bool:
        return _get_chain(o(e)) == ('request', ('request', key))
    ctx.ob(rule, 'serve_admission_request: the cause\'s userinfo is the reviewed request\'s `userInfo`', req(kwarg(y, 'userinfo'), 'userInfo'), loc=f.loc(y), construct=K('config:cause.userinfo'))
    dr = o(kwarg(y, 'dryrun'))
    ctx.ob(rule, 'serve_admission_request: the cause\'s dryrun is the truth of the reviewed request\'s `dryRun`', isinstance(dr, ast.Call) and dotted(dr.func) == 'bool'
           and len(dr.args) == 1 and req(dr.args[0], 'dryRun'), loc=f.loc(y), construct=K('config:cause.dryrun'), detail=norm(dr))
    for kw in ('headers', 'sslpeer'):
        t = _if_not_none(o(kwarg(y, kw)))
        ok = t is not None and t[0] == kw and dotted(t[1]) == kw and isinstance(t[2], ast.Dict) and not t[2].keys
        ctx.ob(rule, f'serve_admission_request: the {kw} given by the webhook server reach the cause unchanged (an empty mapping only when none were given)', ok, loc=f.loc(y),
               construct=K(f'config:cause.{kw}'), detail=norm(o(kwarg(y, kw))))
    ctx.ob(rule, 'serve_admission_request: the cause carries the read-only indices it was given', dotted(kwarg(y, 'indices') or ast.Constant(0)) == 'indices', loc=f.loc(y),
           construct=K('config:cause.indices'))
    # old / new bodies
    roles = {}
    for kw, key in (('old', 'oldObject'), ('new', 'object')):
        t = _if_not_none(o(kwarg(y, kw)))
        raw = None
        if t is not None and isinstance(t[1], ast.Call) and any(n.endswith('bodies.Body') for n in repo.callee_names(f, t[1])) and len(t[1].args) == 1 \
                and dotted(t[1].args[0]) == t[0] and _is_const(t[2], None):
            raw = t[0]
        ok = raw is not None and req(ast.Name(id=raw, ctx=ast.Load()), key)
        roles[kw] = raw if ok else None
        ctx.ob(rule, f'serve_admission_request: the cause\'s `{kw}` is the reviewed request\'s `{key}` as a Body, and None exactly when the request has none '
               '(DELETE has no new object, CREATE no old one)', ok, loc=f.loc(y), construct=K(f'config:cause.{kw}'), detail=norm(o(kwarg(y, kw))))
    b = o(kwarg(y, 'body'))
    rawb = b.args[0] if isinstance(b, ast.Call) and any(n.endswith('bodies.Body') for n in repo.callee_names(f, b)) and len(b.args) == 1 else None
    t = _if_not_none(o(rawb)) if rawb is not None else None
    ok = t is not None and roles.get('new') is not None and t[0] == roles['new'] and dotted(t[1]) == roles['new'] and dotted(t[2]) == roles.get('old')
    ctx.ob(rule, 'serve_admission_request: the reviewed body (what filters see, what the JSON patch refers to) is the NEW object whenever the request has one, else the old '
           'one (DELETE)', ok, loc=f.loc(y), construct=K('config:cause.body'), detail=norm(o(rawb)) if rawb is not None else norm(b))
    d = o(kwarg(y, 'diff'))
    ok = isinstance(d, ast.Call) and is_call_to(repo, f, d, 'diffs.diff') and [dotted(a) for a in d.args] == [dotted(kwarg(y, 'old')), dotted(kwarg(y, 'new'))] and not d.keywords \
        and dotted(kwarg(y, 'old')) is not None
    ctx.ob(rule, 'serve_admission_request: the cause\'s diff is diff(old, new) of those two bodies, in that order', ok, loc=f.loc(y), construct=K('config:cause.diff'), detail=norm(d))
    # memo
    m = o(kwarg(y, 'memo'))
    ok = isinstance(m, ast.Call) and method_call(m, 'recall_memo') is not None and dotted(method_call(m, 'recall_memo')) == 'memories'
    if ok:
        eph = o(kwarg(m, 'ephemeral'))
        a0 = m.args[0] if m.args else kwarg(m, 'raw_body')
        is_create = isinstance(eph, ast.Compare) and len(eph.ops) == 1 and isinstance(eph.ops[0], ast.Eq) and _is_const(eph.comparators[0], None) is False \
            and isinstance(eph.comparators[0], ast.Constant) and eph.comparators[0].value == 'CREATE' and req(eph.left, 'operation')
        ok = dotted(kwarg(m, 'memobase') or ast.Constant(0)) == 'memobase' and is_create and a0 is not None and rawb is not None and dotted(a0) == dotted(rawb)
    ctx.ob(rule, 'serve_admission_request: the memo is recalled for the reviewed raw body with the operator\'s memobase, ephemerally exactly for CREATE (the object does '
           'not exist yet: its memory must not be remembered)', ok, loc=f.loc(y), construct=K('flow:memo<-recall_memo'), detail=norm(m))
    r = o(kwarg(y, 'resource'))
    ok = isinstance(r, ast.Call) and is_call_to(repo, f, r, f'{ADM}.find_resource') and dotted(kwarg(r, 'request') or ast.Constant(0)) == 'request' \
        and dotted(kwarg(r, 'insights') or ast.Constant(0)) == 'insights'
    ctx.ob(rule, 'serve_admission_request: the cause\'s resource is the one identified from this request among the resources served by webhooks', ok, loc=f.loc(y),
           construct=K('flow:resource<-find_resource'), detail=norm(r))
    # incomplete requests are refused before anything runs
    ynodes = [n for n in g.nodes if n.stmt is not None and y in list(ast.walk(n.stmt)) and n.kind in ('stmt', 'return')]
    for what, nm_ in (('user info', dotted(kwarg(y, 'userinfo'))), ('reviewed body', dotted(rawb) if rawb is not None else None)):
        def not_none(e: ast.AST, oo: bool, _n=nm_) -> bool:
            return isinstance(e, ast.Compare) and len(e.ops) == 1 and isinstance(e.ops[0], ast.Is) and dotted(e.left) == _n and _is_const(e.comparators[0], None) and oo is False
        ok = bool(ynodes) and nm_ is not None and all(any(cond_implies(t_, o_, not_none) for t_, o_, _ in dominating_conditions(g, n)) for n in ynodes)
        ctx.ob(rule, f'serve_admission_request: a request without {what} never reaches the handlers (it is refused: the cause is built only under `is not None`)', ok,
               loc=f.loc(y), construct=K(f'guard:{what} is not None'))


def check_find_resource(ctx: Ctx, rule: str) -> None:
    repo = ctx.repo
    f = repo.fn(f'{ADM}.find_resource')
    ctx.analysed(f)
    _param(f, 'request'), _param(f, 'insights')
    sels = [x for x in calls_in(f.node) if any(n.endswith('references.Selector') for n in repo.callee_names(f, x))]
    ctx.require_sites(rule, 'find_resource: selector of the requested resource', len(sels), 1, f.loc())
    for x in sels:
        got = {k.arg: _get_chain(origin(f, k.value)) for k in x.keywords if k.arg}
        want = {'group': 'group', 'version': 'version', 'plural': 'resource'}
        ok = not x.args and set(got) == set(want)
        for k, fld in want.items():
            c = got.get(k)
            # request['request']['resource'][fld], possibly through named locals
            chain: tuple = ()
            e: Optional[ast.AST] = origin(f, kwarg(x, k)) if kwarg(x, k) is not None else None
            for _ in range(4):
                c = _get_chain(e) if e is not None else None
                if c is None:
                    break
                chain = c[1] + chain
                if c[0] == 'request':
                    break
                e2 = origin(f, ast.Name(id=c[0], ctx=ast.Load())) if '.' not in c[0] else None
                if e2 is None or isinstance(e2, ast.Name):
                    break
                e = e2
            ok = ok and c is not None and c[0] == 'request' and chain == ('request', 'resource', fld)
        ctx.ob(rule, 'find_resource: the resource is looked up by group, version and plural name exactly as the request\'s `resource` stanza names them', ok, loc=f.loc(x),
               construct=construct(f, 'config:Selector(group, version, plural)'), detail=norm(x))
    selc = [x for x in calls_in(f.node) if method_call(x, 'select') is not None]
    ok = len(selc) == 1 and len(selc[0].args) == 1 and dotted(selc[0].args[0]) == 'insights.webhook_resources' and any(origin(f, method_call(selc[0], 'select')) is s for s in sels)
    ctx.ob(rule, 'find_resource: the candidates are the resources that webhook handlers were declared for (insights.webhook_resources)', ok, loc=f.loc(),
           construct=construct(f, 'flow:select(webhook_resources)'))
    paths = absint.analyse(repo, f, absint.Config())
    bad = []
    rows = set()
    for p in paths:
        some = p.atom(r'^truthy\(.*\.select\(insights\.webhook_resources\)\)$')
        cmp = [v for k, v in p.atoms.items() if k.startswith('cmp(1, len(')]
        exc = (p.exc or '').rsplit('.', 1)[-1]
        if some is False:
            rows.add('none')
            if p.status != 'raise' or exc != 'UnknownResourceError':
                bad.append(f'no candidate: {p.status} {exc}')
        elif some is True:
            if not cmp:
                bad.append('candidates exist but their number is not compared with one')
            elif cmp[0] == '<':
                rows.add('many')
                if p.status != 'raise' or exc != 'AmbiguousResourceError':
                    bad.append(f'several candidates: {p.status} {exc}')
            elif cmp[0] == '=':
                rows.add('one')
                if p.status != 'return' or p.retval is None or not re.search(r'\.select\(insights\.webhook_resources\)\)?\[0\]$', p.retval.key):
                    bad.append(f'one candidate: {p.status} {p.retval.key[:80] if p.retval else ""}')
        else:
            bad.append('the outcome does not depend on whether a candidate exists')
    ctx.count('paths', len(paths))
    ctx.ob(rule, f'find_resource ({len(paths)} paths): no served resource => UnknownResourceError, several => AmbiguousResourceError, exactly one => that one (handlers '
           'never run for a guessed resource)', not bad and rows == {'none', 'many', 'one'}, loc=f.loc(), construct=construct(f, 'table:0/1/many'), detail=' | '.join(dict.fromkeys(bad)))


def _dicts_with(f: FuncInfo, *keys: str) -> list[ast.Dict]:
    return [n for n in ast.walk(f.node) if isinstance(n, ast.Dict) and set(keys) <= {k.value for k in n.keys if isinstance(k, ast.Constant)}]


def _dget(d: ast.Dict, key: str) -> Optional[ast.AST]:
    for k, v in zip(d.keys, d.values):
        if isinstance(k, ast.Constant) and k.value == key:
            return v
    return None


def check_managed_webhooks(ctx: Ctx, rule: str) -> None:
    repo = ctx.repo
    f = repo.fn(f'{ADM}.build_webhooks')
    ctx.analysed(f)
    hp = f.params()[0].arg
    for n in ('resources', 'name_suffix', 'client_config', 'persistent_only'):
        _param(f, n)
    whs = _dicts_with(f, 'name', 'rules', 'clientConfig')
    ctx.require_sites(rule, 'build_webhooks: the webhook entry', len(whs), 1, f.loc())
    comps = [n for n in ast.walk(f.node) if isinstance(n, (ast.ListComp, ast.GeneratorExp)) and any(dotted(gn.iter) == hp for gn in n.generators)]
    loops = [n for n in walk_no_defs(f.node) if isinstance(n, ast.For) and dotted(n.iter) == hp]
    hv = None
    filt: list = []
    if len(comps) == 1 and len(comps[0].generators) == 1 and isinstance(comps[0].generators[0].target, ast.Name):
        hv, filt = comps[0].generators[0].target.id, comps[0].generators[0].ifs
    elif len(loops) == 1 and isinstance(loops[0].target, ast.Name):
        hv = loops[0].target.id
        filt = [n.test for n in walk_no_defs(loops[0]) if isinstance(n, ast.If)]
    if hv is None:
        raise AnalysisError(f'{f.loc()}: build_webhooks does not iterate its handlers in a recognised way')

    def persist_only(e: ast.AST) -> bool:
        return isinstance(e, ast.BoolOp) and isinstance(e.op, ast.Or) and len(e.values) == 2 and isinstance(e.values[0], ast.UnaryOp) and isinstance(e.values[0].op, ast.Not) \
            and dotted(e.values[0].operand) == 'persistent_only' and dotted(e.values[1]) == f'{hv}.persistent'
    ctx.ob(rule, 'build_webhooks: one entry per webhook handler; handlers are left out only in persistent-only mode, and then exactly the non-persistent ones',
           len(filt) == 1 and persist_only(filt[0]), loc=f.loc(), construct=construct(f, 'formula:not persistent_only or handler.persistent'),
           detail='; '.join(norm(t) for t in filt))
    for wh in whs:
        cc = _dget(wh, 'clientConfig')
        ok = isinstance(cc, ast.Call) and is_call_to(repo, f, cc, f'{ADM}._inject_handler_id') and [dotted(a) for a in cc.args] == ['client_config', f'{hv}.id'] and not cc.keywords
        ctx.ob(rule, 'build_webhooks: every entry\'s client config is the server\'s config with THIS handler\'s id injected (the URL tells the server which handler a review is for)',
               ok, loc=f.loc(wh), construct=construct(f, 'config:clientConfig=_inject_handler_id(client_config, handler.id)'), detail=norm(cc))
        nm_ = _dget(wh, 'name')
        ok = isinstance(nm_, ast.Call) and is_call_to(repo, f, nm_, f'{ADM}._normalize_name') and dotted(kwarg(nm_, 'id', 0) or ast.Constant(0)) == f'{hv}.id' \
            and dotted(kwarg(nm_, 'suffix', 1) or ast.Constant(0)) == 'name_suffix'
        ctx.ob(rule, 'build_webhooks: the entry is named after the handler id (distinct handlers, distinct entries)', ok, loc=f.loc(wh), construct=construct(f, 'config:name'))
        os_ = _dget(wh, 'objectSelector')
        ok = isinstance(os_, ast.Call) and is_call_to(repo, f, os_, f'{ADM}._build_labels_selector') and [dotted(a) for a in os_.args] == [f'{hv}.labels']
        ctx.ob(rule, 'build_webhooks: the server-side object selector is derived from THIS handler\'s label criteria', ok, loc=f.loc(wh), construct=construct(f, 'config:objectSelector'))
        fp = _dget(wh, 'failurePolicy')
        ok = isinstance(fp, ast.IfExp) and dotted(fp.test) == f'{hv}.ignore_failures' and isinstance(fp.body, ast.Constant) and fp.body.value == 'Ignore' \
            and isinstance(fp.orelse, ast.Constant) and fp.orelse.value == 'Fail'
        ctx.ob(rule, 'build_webhooks: a failing/unreachable webhook denies the operation unless the handler opted into ignore_failures', ok, loc=f.loc(wh),
               construct=construct(f, 'config:failurePolicy'), detail=norm(fp))
        rules_ = _dget(wh, 'rules')
        rd = [n for n in ast.walk(rules_) if isinstance(n, ast.Dict)] if rules_ is not None else []
        rcomp = rules_ if isinstance(rules_, ast.ListComp) and len(rules_.generators) == 1 else None
        if rcomp is None or len(rd) != 1 or not isinstance(rcomp.generators[0].target, ast.Name):
            ctx.ob(rule, 'build_webhooks: one rule per served resource', False, loc=f.loc(wh), construct=construct(f, 'flow:rules per resource'))
            continue
        rv = rcomp.generators[0].target.id
        ifs = rcomp.generators[0].ifs
        checks = [t for t in ifs if isinstance(t, ast.Call) and method_call(t, 'check') is not None and dotted(method_call(t, 'check')) == f'{hv}.selector'
                  and [dotted(a) for a in t.args] == [rv]]
        others = [t for t in ifs if t not in checks and not (isinstance(t, ast.Compare) and dotted(t.left) == f'{hv}.selector' and isinstance(t.ops[0], ast.IsNot)
                                                              and _is_const(t.comparators[0], None))]
        ctx.ob(rule, 'build_webhooks: an entry has one rule for EVERY served resource its handler\'s selector accepts, and for no other', dotted(rcomp.generators[0].iter) == 'resources'
               and len(checks) == 1 and not others, loc=f.loc(rules_), construct=construct(f, 'formula:rules iff selector.check(resource)'), detail='; '.join(norm(t) for t in ifs))
        r0 = rd[0]
        ops = _dget(r0, 'operations')
        inner = ops.args[0] if isinstance(ops, ast.Call) and dotted(ops.func) == 'list' and len(ops.args) == 1 else ops
        ok = isinstance(inner, ast.BoolOp) and isinstance(inner.op, ast.Or) and dotted(inner.values[0]) == f'{hv}.operations' and isinstance(inner.values[1], (ast.List, ast.Tuple)) \
            and [getattr(e, 'value', None) for e in inner.values[1].elts] == ['*']
        ctx.ob(rule, 'build_webhooks: the rule\'s operations are the handler\'s declared operations, all operations ("*") when none were declared', ok, loc=f.loc(r0),
               construct=construct(f, 'config:rule.operations'), detail=norm(ops))
        rs = _dget(r0, 'resources')
        t = rs if isinstance(rs, ast.IfExp) else None
        ok = False
        if t is not None and isinstance(t.test, ast.Compare) and dotted(t.test.left) == f'{hv}.subresource' and _is_const(t.test.comparators[0], None):
            main, sub = (t.body, t.orelse) if isinstance(t.test.ops[0], ast.Is) else (t.orelse, t.body)
            ok = isinstance(main, ast.List) and [dotted(e) for e in main.elts] == [f'{rv}.plural'] and isinstance(sub, ast.List) and len(sub.elts) == 1 \
                and isinstance(sub.elts[0], ast.JoinedStr) and [dotted(v.value) for v in sub.elts[0].values if isinstance(v, ast.FormattedValue)] == [f'{rv}.plural', f'{hv}.subresource'] \
                and [v.value for v in sub.elts[0].values if isinstance(v, ast.Constant)] == ['/']
        ctx.ob(rule, 'build_webhooks: the rule covers the main resource when the handler declares no subresource (a None-test), else `<plural>/<subresource>`', ok, loc=f.loc(r0),
               construct=construct(f, 'config:rule.resources'), detail=norm(rs))
        gv = (_dget(r0, 'apiGroups'), _dget(r0, 'apiVersions'))
        ok = all(isinstance(x, ast.List) and len(x.elts) == 1 for x in gv) and dotted(gv[0].elts[0]) == f'{rv}.group' and dotted(gv[1].elts[0]) == f'{rv}.version'  # type: ignore[union-attr]
        ctx.ob(rule, 'build_webhooks: the rule names the group and the version of that resource', ok, loc=f.loc(r0), construct=construct(f, 'config:rule.group/version'))
    # _inject_handler_id
    j = repo.fn(f'{ADM}._inject_handler_id')
    ctx.analysed(j)
    cfgp, idp = [a.arg for a in j.params()][:2]
    paths = absint.analyse(repo, j, absint.Config())
    copy_key = f'copy.deepcopy({cfgp})'
    bad = []
    rows = set()
    for p in paths:
        if p.status != 'return' or p.retval is None or p.retval.key != copy_key:
            bad.append(f'what is returned is not the deep copy of the given config: {p.retval.key[:60] if p.retval else p.status}')
        for e in p.trace:
            if e.label.startswith('setitem:') and not e.label.startswith('setitem:' + copy_key):
                bad.append(f'a write goes to something else than the copy: {e.label[:70]}')
        for fld, idx in (('url', "'url'"), ('service', "'path'")):
            isn = p.atom(rf"^isnone\({_e(copy_key)}\.get\('{fld}'\)\)$")
            ws = [e for e in p.trace if e.label.startswith('setitem:') and e.kw['index'].key == idx]
            rows.add((fld, isn))
            if isn is None:
                bad.append(f'the {fld} is rewritten without asking whether there is one')
            elif isn is True and ws:
                bad.append(f'an absent {fld} is written')
            elif isn is False and (len(ws) != 1 or not re.search(rf'/\{{urllib\.parse\.quote\({_e(idp)}\)\}}"$', ws[0].kw['value'].key)):
                bad.append(f'the {fld} does not end with /<quoted handler id>: {ws[0].kw["value"].key[:90] if ws else "no write"}')
    ctx.count('paths', len(paths))
    ctx.ob(rule, f'_inject_handler_id ({len(paths)} paths): works on a deep copy of the shared client config (one handler\'s id never leaks into another entry or accumulates), '
           'appends `/<url-quoted handler id>` to the url and to the service path, whichever exist, and returns that copy', not bad and len(rows) == 4, loc=j.loc(),
           construct=construct(j, 'table:url/service path'), detail=' | '.join(dict.fromkeys(bad)))
    # _build_labels_selector
    s = repo.fn(f'{ADM}._build_labels_selector')
    ctx.analysed(s)
    lp = s.params()[0].arg
    comps = [n for n in ast.walk(s.node) if isinstance(n, (ast.ListComp, ast.GeneratorExp))]
    ok_shape = len(comps) == 1 and len(comps[0].generators) == 1 and isinstance(comps[0].generators[0].target, ast.Tuple) and len(comps[0].generators[0].target.elts) == 2
    if not ok_shape:
        ctx.ob(rule, '_build_labels_selector: one expression per label criterion', False, loc=s.loc(), construct=construct(s, 'flow:per-criterion'))
        return
    gen = comps[0].generators[0]
    kn, vn = (dotted(t) for t in gen.target.elts)  # type: ignore[union-attr]
    it = gen.iter
    ok = isinstance(it, ast.Call) and method_call(it, 'items') is not None and lp in {n.id for n in ast.walk(it) if isinstance(n, ast.Name)}
    only_callables = len(gen.ifs) == 1 and isinstance(gen.ifs[0], ast.UnaryOp) and isinstance(gen.ifs[0].op, ast.Not) and isinstance(gen.ifs[0].operand, ast.Call) \
        and dotted(gen.ifs[0].operand.func) == 'callable' and [dotted(a) for a in gen.ifs[0].operand.args] == [vn]
    ctx.ob(rule, '_build_labels_selector: every label criterion of the handler yields an expression, except callbacks (which only the operator can evaluate: they must NOT '
           'narrow what the API server sends)', ok and only_callables, loc=s.loc(comps[0]), construct=construct(s, 'formula:all but callables'), detail='; '.join(norm(t) for t in gen.ifs))
    table = {}
    e = comps[0].elt
    while isinstance(e, ast.IfExp):
        t = e.test
        tok = None
        if isinstance(t, ast.Compare) and len(t.ops) == 1 and isinstance(t.ops[0], (ast.Is, ast.Eq)) and dotted(t.left) == vn:
            tok = (repo.resolve(s.module, t.comparators[0]) or '').rsplit('.', 1)[-1]
        table[tok] = e.body
        e = e.orelse
    table['<value>'] = e

    def op_of(d: Optional[ast.AST]) -> Optional[str]:
        v = _dget(d, 'operator') if isinstance(d, ast.Dict) else None
        return v.value if isinstance(v, ast.Constant) else None
    keyed = all(isinstance(d, ast.Dict) and dotted(_dget(d, 'key') or ast.Constant(0)) == kn for d in table.values())
    vals = _dget(table['<value>'], 'values') if isinstance(table['<value>'], ast.Dict) else None
    val_ok = isinstance(vals, ast.List) and len(vals.elts) == 1 and vn in {n.id for n in ast.walk(vals.elts[0]) if isinstance(n, ast.Name)}
    ctx.ob(rule, '_build_labels_selector: PRESENT => Exists, ABSENT => DoesNotExist, a plain value => In [that value], each on the criterion\'s own label key (the API server '
           'must not withhold objects the handler\'s criteria accept)', {k: op_of(v) for k, v in table.items()} == {'PRESENT': 'Exists', 'ABSENT': 'DoesNotExist', '<value>': 'In'}
           and keyed and val_ok, loc=s.loc(comps[0]), construct=construct(s, 'table:token->operator'), detail=str({k: op_of(v) for k, v in table.items()}))


# ====================================================================== wiring
def _dec(group: str):
    def run(ctx: Ctx, rule: str) -> None:
        check_decorators(ctx, rule, group)
    run.__name__ = f'check_decorators_{group}'
    return run


def _iter(*classes: str):
    def run(ctx: Ctx, rule: str) -> None:
        check_simple_iter(ctx, rule, classes)
    run.__name__ = 'check_simple_iter_' + '_'.join(classes)
    return run


EXTRA = {
    'C15': [
        (check_generate_id, 'R15.20'), (check_callable_id, 'R15.21'), (check_activity_registry, 'R15.22'), (_iter('IndexingRegistry', 'WatchingRegistry', 'SpawningRegistry'), 'R15.23'),
        (check_has_handlers, 'R15.24'), (check_dedup_state, 'R15.25'), (check_cause_gating, 'R15.26'), (_dec('all'), 'R15.27'), (check_decl_validators, 'R15.28'),
        (check_registry_loops, 'R15.29'), (check_cause_kwargs, 'R15.30'), (check_adjust_cause, 'R15.31'),
    ],
    'C05': [(check_cause_deleted, 'R5.20'), (_dec('changing'), 'R5.21'), (check_cause_gating, 'R5.22')],
    'C06': [(_dec('finalizer'), 'R6.20'), (_iter('SpawningRegistry'), 'R6.21'), (check_registry_loops, 'R6.22')],
    'C14': [(check_cause_deleted, 'R14.30'), (check_memories, 'R14.31')],
    'C17': [(check_index_containers, 'R17.20'), (check_indexers, 'R17.21'), (_iter('IndexingRegistry'), 'R17.22'), (check_has_handlers, 'R17.23'), (_dec('index'), 'R17.24'),
            (check_memories, 'R17.25'), (check_cause_kwargs, 'R17.26')],
    'C01': [(check_get_uid, 'R1.30')],
    'C07': [(check_get_version, 'R7.30')],
    'C18': [(check_admission_cause, 'R18.30'), (check_find_resource, 'R18.31'), (check_managed_webhooks, 'R18.32'), (check_verify_operations, 'R18.33'), (_dec('webhooks'), 'R18.34'),
            (check_generate_id, 'R18.35'), (check_memories, 'R18.36')],
}
