"""Statement-level control-flow graph with cancellation/exception tiers (DESIGN.md §2.2).

Abrupt completions are routed through a stack of frames (try bodies, handlers, with-blocks, loops);
``finally`` bodies and ``with`` exits are instantiated once per continuation kind, so paths stay precise.

Exception kinds:
  'cancel'  -- CancelledError, delivered only at suspension points (await / async with / async for / yield);
  'exc'     -- an ``Exception`` raised by an explicit ``raise`` or by a call that may raise;
  'lookup'  -- KeyError/IndexError of a subscript: modelled only where the code itself handles it.
"""
from __future__ import annotations

import ast
import itertools
from typing import Callable, Iterable, Optional

from .srcmodel import AnalysisError, FuncInfo, Repo, dotted, src, walk_no_defs

CANCEL_CLASSES = {'asyncio.CancelledError', 'BaseException'}

# Calls assumed total (never raise): builtin container operations, logging, constructors of asyncio primitives.
TOTAL_CALL_NAMES = {
    'len', 'isinstance', 'issubclass', 'list', 'dict', 'set', 'frozenset', 'tuple', 'str', 'repr', 'bool', 'id',
    'max', 'min', 'sorted', 'any', 'all', 'sum', 'enumerate', 'zip', 'range', 'reversed', 'callable', 'type', 'hash',
    'getattr', 'hasattr', 'print', 'iter', 'abs', 'round', 'format', 'super', 'object', 'filter', 'map',
    'asyncio.get_running_loop', 'asyncio.current_task', 'asyncio.Event', 'asyncio.Queue', 'asyncio.Condition',
    'asyncio.Lock', 'asyncio.Future', 'asyncio.create_task', 'asyncio.shield', 'asyncio.ensure_future',
    'functools.partial', 'contextlib.suppress', 'contextlib.nullcontext', 'contextlib.AsyncExitStack',
    'contextlib.ExitStack', 'time.time', 'time.monotonic', 'datetime.datetime.now', 'datetime.timedelta',
    'collections.defaultdict', 'collections.deque', 'weakref.WeakSet', 'threading.Event', 'threading.Lock',
    'copy.copy', 'copy.deepcopy', 'dataclasses.field', 'dataclasses.replace', 'itertools.chain', 'itertools.count',
    'typing.cast', 'cast', 'logging.getLogger', 'warnings.warn',
}
TOTAL_METHODS = {
    'set', 'clear', 'is_set', 'empty', 'done', 'cancel', 'cancelled', 'append', 'extend', 'add', 'discard', 'get',
    'items', 'values', 'keys', 'setdefault', 'update', 'copy', 'qsize', 'full', 'time', 'notify_all', 'notify',
    'debug', 'info', 'warning', 'error', 'exception', 'critical', 'log', 'startswith', 'endswith', 'join', 'split',
    'format', 'lower', 'upper', 'capitalize', 'strip', 'rstrip', 'lstrip', 'replace', 'encode', 'decode', 'is_on',
    'is_off', 'add_done_callback', 'remove_done_callback', 'locked', 'total_seconds', 'isoformat', 'union',
    'difference', 'intersection', 'count', 'most_common', 'put_nowait', 'popleft', 'get_name', 'set_name',
}


class Node:
    __slots__ = ('id', 'kind', 'stmt', 'label', 'succ', 'suspends', 'cond', 'role', 'in_finally', 'frames', 'exc_edges')

    def __init__(self, nid: int, kind: str, stmt: Optional[ast.AST], label: str):
        self.id = nid
        self.kind = kind            # entry exit stmt return raise break continue if loop branch with-enter with-exit
        #                             finally except dispatch join match case
        self.stmt = stmt
        self.label = label
        self.succ: list['Node'] = []
        self.suspends = False
        self.cond: Optional[tuple[ast.AST, bool]] = None   # for 'branch' nodes: (test expr, outcome)
        self.role = ''              # exit class for exits: normal / exc / cancel ; continuation kind for copies
        self.in_finally = False
        self.frames: tuple = ()
        self.exc_edges: dict[str, 'Node'] = {}   # kind -> target (subset of succ)

    @property
    def lineno(self) -> int:
        return getattr(self.stmt, 'lineno', 0) if self.stmt is not None else 0

    def add(self, n: Optional['Node']) -> None:
        if n is not None and n not in self.succ:
            self.succ.append(n)

    def __repr__(self) -> str:
        return f'<{self.id}:{self.kind}@{self.lineno} {self.label[:60]}>'


class Frame:
    def __init__(self, kind: str, stmt: Optional[ast.AST] = None, **kw):
        self.kind = kind       # func | loop | try-body | try-rest | with
        self.stmt = stmt
        self.memo: dict = {}
        self.__dict__.update(kw)


def expr_suspends(node: ast.AST) -> bool:
    return any(isinstance(n, (ast.Await, ast.Yield, ast.YieldFrom)) for n in walk_no_defs(node))


class CFG:
    def __init__(self, repo: Repo, f: FuncInfo, *, may_raise: Optional[Callable[[FuncInfo, ast.Call], bool]] = None,
                 swallows: Optional[Callable[[FuncInfo, ast.AST, str], bool]] = None):
        self.repo = repo
        self.f = f
        self.nodes: list[Node] = []
        self._ids = itertools.count()
        self._may_raise = may_raise or default_may_raise(repo)
        self._swallows = swallows or default_swallows(repo)
        self.entry = self.new('entry', None, 'entry')
        self.exit_normal = self.new('exit', None, 'normal'); self.exit_normal.role = 'normal'
        self.exit_exc = self.new('exit', None, 'exception'); self.exit_exc.role = 'exc'
        self.exit_cancel = self.new('exit', None, 'cancelled'); self.exit_cancel.role = 'cancel'
        self.is_async_gen = f.is_async and f.is_generator()
        self.is_gen = f.is_generator()
        frames = (Frame('func'),)
        last = self.block(f.node.body, self.entry, frames)  # type: ignore[attr-defined]
        if last is not None:
            last.add(self.exit_normal)
        self._pred: Optional[dict[Node, list[Node]]] = None

    # ------------------------------------------------------------------ construction
    def new(self, kind: str, stmt: Optional[ast.AST], label: str = '', frames: tuple = ()) -> Node:
        n = Node(next(self._ids), kind, stmt, label)
        n.frames = frames
        n.in_finally = any(getattr(fr, 'in_finally', False) for fr in frames)
        self.nodes.append(n)
        return n

    def route(self, k, frames: tuple) -> Node:
        """Target node for an abrupt completion ``k`` leaving the innermost frame of ``frames``.

        k: 'ret' | 'brk' | 'cont' | 'cancel' | 'exc' | ('cls', qualified-class-name)
        """
        fr = frames[-1]
        outer = frames[:-1]
        key = k
        if key in fr.memo:
            return fr.memo[key]
        if fr.kind == 'func':
            if k == 'ret':
                t = self.exit_normal
            elif k == 'cancel' or (isinstance(k, tuple) and self.repo.is_subclass(k[1], 'asyncio.CancelledError')):
                t = self.exit_cancel
            elif k in ('brk', 'cont'):
                raise AnalysisError(f'{self.f.loc()}: break/continue outside a loop')
            else:
                t = self.exit_exc
        elif fr.kind == 'loop':
            if k == 'brk':
                t = fr.after
            elif k == 'cont':
                t = fr.head
            else:
                t = self.route(k, outer)
        elif fr.kind == 'try-body':
            t = self._route_try_body(k, fr, outer)
        elif fr.kind == 'try-rest':
            t = self._via_finally(k, fr, outer)
        elif fr.kind == 'with':
            t = self._route_with(k, fr, outer)
        elif fr.kind == 'finally-copy':
            t = self.route(k, outer)
        else:  # pragma: no cover
            raise AnalysisError(f'unknown frame kind {fr.kind}')
        fr.memo[key] = t
        return t

    def _handler_classes(self, h: ast.ExceptHandler) -> list[str]:
        if h.type is None:
            return ['BaseException']
        elts = h.type.elts if isinstance(h.type, ast.Tuple) else [h.type]
        out = []
        for e in elts:
            r = self.repo.resolve(self.f.module, e)
            out.append(r or (dotted(e) or src(e)))
        return out

    def _route_try_body(self, k, fr: Frame, outer: tuple) -> Node:
        s: ast.Try = fr.stmt
        handlers = fr.handler_nodes     # list of (ExceptHandler, entry node, classes)
        if k in ('ret', 'brk', 'cont'):
            return self._via_finally(k, fr, outer)
        if k == 'cancel' or (isinstance(k, tuple) and self.repo.is_subclass(k[1], 'asyncio.CancelledError')):
            for h, hn, classes in handlers:
                if any(c in CANCEL_CLASSES for c in classes):
                    return hn
            return self._via_finally('cancel', fr, outer)
        if isinstance(k, tuple):
            cname = k[1]
            if self.repo.known_class(cname):
                for h, hn, classes in handlers:
                    if any(self.repo.is_subclass(cname, c) for c in classes):
                        return hn
                return self._via_finally(k, fr, outer)
            k = 'exc'
        if k == 'lookup':
            d = self.new('dispatch', s, 'dispatch(lookup)', outer)
            for h, hn, classes in handlers:
                if any(self.repo.is_subclass('KeyError', c) or self.repo.is_subclass('IndexError', c) for c in classes):
                    d.add(hn)
            if not d.succ:
                d.add(self.route('lookup', outer)) if len(outer) > 1 or outer[-1].kind != 'func' else None
            return d
        # generic Exception: any handler that can catch some Exception subclass
        d = self.new('dispatch', s, 'dispatch(exc)', outer)
        caught_all = False
        for h, hn, classes in handlers:
            if all(c == 'asyncio.CancelledError' for c in classes):
                continue
            d.add(hn)
            if any(c in ('Exception', 'BaseException') for c in classes):
                caught_all = True
                break
        if not caught_all:
            d.add(self._via_finally('exc', fr, outer))
        return d

    def _via_finally(self, k, fr: Frame, outer: tuple) -> Node:
        s: ast.Try = fr.stmt
        if not s.finalbody:
            return self.route(k, outer)
        mk = ('fin', k)
        if mk in fr.shared:
            return fr.shared[mk]
        label = k if isinstance(k, str) else k[1]
        inner_frames = outer + (Frame('finally-copy', s, in_finally=True),)
        start = self.new('finally', s, f'finally[{label}]', inner_frames)
        start.role = label
        fr.shared[mk] = start
        end = self.block(s.finalbody, start, inner_frames)
        if end is not None:
            end.add(self.route(k, outer))
        return start

    def _route_with(self, k, fr: Frame, outer: tuple) -> Node:
        s = fr.stmt
        label = k if isinstance(k, str) else k[1]
        x = self.new('with-exit', s, f'with-exit[{label}] ' + fr.label, outer)
        x.role = label
        if isinstance(s, ast.AsyncWith):
            x.suspends = True
        if k in ('ret', 'brk', 'cont'):
            x.add(self.route(k, outer))
            return x
        kind = 'cancel' if (k == 'cancel' or (isinstance(k, tuple) and self.repo.is_subclass(k[1], 'asyncio.CancelledError'))) else 'exc'
        sw = [self._swallows(self.f, it.context_expr, kind) for it in s.items]
        if any(sw):
            x.add(fr.after)
        # even a swallowing manager may let it through (e.g. suppress(X) for a different class): keep both unless certain
        if not (any(sw) and fr.certain(kind)):
            x.add(self.route(k, outer))
        if isinstance(s, ast.AsyncWith) and kind != 'cancel':
            x.add(self.route('cancel', outer))   # __aexit__ is itself a suspension point
        return x

    # ---- statements
    def _exc_kinds(self, exprs: Iterable[ast.AST], frames: tuple) -> tuple[bool, bool, bool]:
        """(suspends, may raise exc, lookup-possible) for evaluating these expressions."""
        susp = raises = lookup = False
        awaited: set[int] = set()
        for e in exprs:
            if e is None:
                continue
            for n in walk_no_defs(e):
                if isinstance(n, ast.Await):
                    susp = True
                    if isinstance(n.value, ast.Call):
                        awaited.add(id(n.value))
                        if self._await_may_raise(n.value):
                            raises = True
                    else:
                        raises = True      # awaiting a future/task: its exception is re-raised here
                elif isinstance(n, (ast.Yield, ast.YieldFrom)):
                    susp = True
                    raises = True          # the consumer may throw into a generator
            for n in walk_no_defs(e):
                if isinstance(n, ast.Call) and id(n) not in awaited:
                    if self._may_raise(self.f, n):
                        raises = True
                elif isinstance(n, ast.Subscript) and isinstance(n.ctx, (ast.Load, ast.Del)):
                    lookup = True
        return susp, raises, lookup

    TOTAL_AWAITS = {'asyncio.sleep', 'asyncio.Event.wait', 'asyncio.Queue.put', 'asyncio.Queue.join',
                    'asyncio.Condition.wait', 'asyncio.Condition.wait_for', 'asyncio.Lock.acquire'}

    def _await_may_raise(self, call: ast.Call) -> bool:
        names = self.repo.callee_names(self.f, call)
        if names and all(n in self.TOTAL_AWAITS for n in names):
            return False
        return True

    def simple(self, stmt: ast.AST, pred: Node, frames: tuple, kind: str = 'stmt', exprs: Optional[list] = None,
               label: Optional[str] = None) -> Node:
        n = self.new(kind, stmt, label if label is not None else src(stmt, 90), frames)
        pred.add(n)
        probe = exprs if exprs is not None else [stmt]
        susp, raises, lookup = self._exc_kinds(probe, frames)
        if susp:
            n.suspends = True
            t = self.route('cancel', frames); n.add(t); n.exc_edges['cancel'] = t
        if raises:
            t = self.route('exc', frames); n.add(t); n.exc_edges['exc'] = t
        if lookup and self._lookup_handled(frames):
            t = self.route('lookup', frames); n.add(t); n.exc_edges['lookup'] = t
        return n

    def _lookup_handled(self, frames: tuple) -> bool:
        for fr in reversed(frames):
            if fr.kind == 'try-body':
                for h, hn, classes in fr.handler_nodes:
                    if any(self.repo.is_subclass('KeyError', c) or self.repo.is_subclass('IndexError', c) for c in classes) \
                            and not any(c in ('Exception', 'BaseException') for c in classes):
                        return True
        return False

    def block(self, stmts: list, pred: Optional[Node], frames: tuple) -> Optional[Node]:
        cur = pred
        for s in stmts:
            if cur is None:
                break
            cur = self.stmt(s, cur, frames)
        return cur

    def _joined(self, join: Node) -> Optional[Node]:
        return join if any(join in n.succ for n in self.nodes) else None

    def branch(self, pred: Node, test: ast.AST, outcome: bool, frames: tuple, stmt: ast.AST) -> Node:
        b = self.new('branch', stmt, ('' if outcome else 'not ') + src(test, 80), frames)
        b.cond = (test, outcome)
        pred.add(b)
        return b

    def stmt(self, s: ast.AST, pred: Node, frames: tuple) -> Optional[Node]:
        if isinstance(s, (ast.FunctionDef, ast.AsyncFunctionDef, ast.ClassDef, ast.Import, ast.ImportFrom, ast.Pass,
                          ast.Nonlocal, ast.Global)):
            return pred
        if isinstance(s, ast.Expr) and isinstance(s.value, ast.Constant):
            return pred
        if isinstance(s, ast.Return):
            n = self.simple(s, pred, frames, 'return', [s.value] if s.value is not None else [])
            n.add(self.route('ret', frames))
            return None
        if isinstance(s, ast.Raise):
            n = self.new('raise', s, src(s, 90), frames)
            pred.add(n)
            susp, raises, lookup = self._exc_kinds([s.exc, s.cause], frames)
            if susp:
                n.suspends = True; n.add(self.route('cancel', frames))
            k = self._raise_kind(s, frames)
            for kk in k:
                t = self.route(kk, frames); n.add(t); n.exc_edges['cancel' if kk == 'cancel' else 'exc'] = t
            return None
        if isinstance(s, ast.Break):
            n = self.new('break', s, 'break', frames); pred.add(n); n.add(self.route('brk', frames)); return None
        if isinstance(s, ast.Continue):
            n = self.new('continue', s, 'continue', frames); pred.add(n); n.add(self.route('cont', frames)); return None
        if isinstance(s, ast.Assert):
            n = self.simple(s, pred, frames, 'stmt', [s.test])
            t = self.route(('cls', 'AssertionError'), frames); n.add(t)
            return n
        if isinstance(s, ast.If):
            t = self.simple(s, pred, frames, 'if', [s.test], 'if ' + src(s.test, 80))
            join = self.new('join', None, 'endif', frames)
            bt = self.branch(t, s.test, True, frames, s)
            bf = self.branch(t, s.test, False, frames, s)
            a = self.block(s.body, bt, frames)
            b = self.block(s.orelse, bf, frames) if s.orelse else bf
            for x in (a, b):
                if x is not None:
                    x.add(join)
            return self._joined(join)
        if isinstance(s, (ast.While, ast.For, ast.AsyncFor)):
            return self._loop(s, pred, frames)
        if isinstance(s, (ast.With, ast.AsyncWith)):
            return self._with(s, pred, frames)
        if isinstance(s, ast.Try):
            return self._try(s, pred, frames)
        if isinstance(s, ast.Match):
            t = self.simple(s, pred, frames, 'match', [s.subject], 'match ' + src(s.subject, 70))
            join = self.new('join', None, 'endmatch', frames)
            exhaustive = False
            for case in s.cases:
                c = self.new('case', case.pattern, 'case ' + src(case.pattern, 70) + (f' if {src(case.guard, 40)}' if case.guard else ''), frames)
                t.add(c)
                if case.guard is not None and expr_suspends(case.guard):
                    c.suspends = True
                end = self.block(case.body, c, frames)
                if end is not None:
                    end.add(join)
                if isinstance(case.pattern, ast.MatchAs) and case.pattern.pattern is None and case.guard is None:
                    exhaustive = True
            if not exhaustive:
                t.add(join)
            return self._joined(join)
        if isinstance(s, ast.TryStar):  # pragma: no cover
            raise AnalysisError(f'{self.f.loc(s)}: try/except* is not supported')
        return self.simple(s, pred, frames)

    def _raise_kind(self, s: ast.Raise, frames: tuple) -> list:
        if s.exc is None:
            # re-raise of whatever the enclosing handler caught
            for fr in reversed(frames):
                if fr.kind == 'try-rest' and getattr(fr, 'handler_classes', None):
                    out: list = []
                    for c in fr.handler_classes:
                        if c in CANCEL_CLASSES:
                            out.append('cancel')
                        if c != 'asyncio.CancelledError':
                            out.append(('cls', c) if self.repo.known_class(c) and c not in ('Exception', 'BaseException') else 'exc')
                    return list(dict.fromkeys(out)) or ['exc']
            return ['exc']
        e = s.exc.func if isinstance(s.exc, ast.Call) else s.exc
        r = self.repo.resolve(self.f.module, e)
        if r and self.repo.known_class(r):
            if self.repo.is_subclass(r, 'asyncio.CancelledError'):
                return ['cancel']
            return [('cls', r)]
        return ['exc']

    def _loop(self, s, pred: Node, frames: tuple) -> Optional[Node]:
        if isinstance(s, ast.While):
            head = self.simple(s, pred, frames, 'loop', [s.test], 'while ' + src(s.test, 70))
        else:
            head = self.simple(s, pred, frames, 'loop', [s.iter], ('async for ' if isinstance(s, ast.AsyncFor) else 'for ')
                               + src(s.target, 30) + ' in ' + src(s.iter, 50))
            if isinstance(s, ast.AsyncFor):
                head.suspends = True
                head.add(self.route('cancel', frames)); head.add(self.route('exc', frames))
                head.exc_edges['cancel'] = self.route('cancel', frames); head.exc_edges['exc'] = self.route('exc', frames)
        after = self.new('join', None, 'after-loop', frames)
        lf = Frame('loop', s, head=head, after=after)
        body_frames = frames + (lf,)
        infinite = isinstance(s, ast.While) and isinstance(s.test, ast.Constant) and bool(s.test.value) is True
        if isinstance(s, ast.While):
            bt = self.branch(head, s.test, True, body_frames, s)
            end = self.block(s.body, bt, body_frames)
        else:
            bt = self.new('branch', s, 'next ' + src(s.target, 30), body_frames)
            head.add(bt)
            end = self.block(s.body, bt, body_frames)
        if end is not None:
            end.add(head)
        if not infinite:
            if isinstance(s, ast.While):
                bf = self.branch(head, s.test, False, frames, s)
            else:
                bf = self.new('branch', s, 'exhausted ' + src(s.iter, 40), frames)
                head.add(bf)
            e = self.block(s.orelse, bf, frames) if s.orelse else bf
            if e is not None:
                e.add(after)
        return self._joined(after)

    def _with(self, s, pred: Node, frames: tuple) -> Optional[Node]:
        label = ', '.join(src(i.context_expr, 50) for i in s.items)
        enter = self.simple(s, pred, frames, 'with-enter', [i.context_expr for i in s.items],
                            ('async with ' if isinstance(s, ast.AsyncWith) else 'with ') + label)
        if isinstance(s, ast.AsyncWith) and not enter.suspends:
            enter.suspends = True
            t = self.route('cancel', frames); enter.add(t); enter.exc_edges['cancel'] = t
        if not enter.exc_edges.get('exc') and not self._enter_total(s):
            t = self.route('exc', frames); enter.add(t); enter.exc_edges['exc'] = t
        after = self.new('join', None, 'after-with', frames)

        def certain(kind: str) -> bool:
            return all(self._swallow_certain(it.context_expr, kind) for it in s.items)
        wf = Frame('with', s, after=after, label=label, certain=certain)
        end = self.block(s.body, enter, frames + (wf,))
        if end is not None:
            x = self.new('with-exit', s, 'with-exit[normal] ' + label, frames)
            x.role = 'normal'
            if isinstance(s, ast.AsyncWith):
                x.suspends = True
                x.add(self.route('cancel', frames))
            end.add(x)
            x.add(after)
        return self._joined(after)

    def _enter_total(self, s) -> bool:
        for it in s.items:
            e = it.context_expr
            if isinstance(e, ast.Call):
                r = self.repo.resolve(self.f.module, e.func)
                if r in ('contextlib.suppress', 'contextlib.nullcontext'):
                    continue
                return False
            # a lock/condition/semaphore object: entering cannot raise (only cancel)
        return True

    def _swallow_certain(self, e: ast.AST, kind: str) -> bool:
        # suppress(CancelledError) certainly swallows a cancellation; suppress(Exception) certainly swallows exc
        if isinstance(e, ast.Call) and self.repo.resolve(self.f.module, e.func) == 'contextlib.suppress':
            names = [self.repo.resolve(self.f.module, a) or '' for a in e.args]
            if kind == 'cancel':
                return any(n in CANCEL_CLASSES for n in names)
            return any(n in ('Exception', 'BaseException') for n in names)
        return False

    def _try(self, s: ast.Try, pred: Node, frames: tuple) -> Optional[Node]:
        after = self.new('join', None, 'after-try', frames)
        shared: dict = {}
        handler_nodes = []
        rest_frames = {}
        for h in s.handlers:
            classes = self._handler_classes(h)
            hf = Frame('try-rest', s, shared=shared, handler_classes=classes, handler=h)
            hn = self.new('except', h, 'except ' + (src(h.type, 60) if h.type else ''), frames + (hf,))
            handler_nodes.append((h, hn, classes))
            rest_frames[id(h)] = hf
        bf = Frame('try-body', s, shared=shared, handler_nodes=handler_nodes)
        end = self.block(s.body, pred, frames + (bf,))
        ef = Frame('try-rest', s, shared=shared, handler_classes=None)
        if end is not None and s.orelse:
            end = self.block(s.orelse, end, frames + (ef,))
        if end is not None:
            end.add(self._fin_normal(s, ef, frames, after))
        for h, hn, classes in handler_nodes:
            hf = rest_frames[id(h)]
            hend = self.block(h.body, hn, frames + (hf,))
            if hend is not None:
                hend.add(self._fin_normal(s, hf, frames, after))
        return self._joined(after)

    def _fin_normal(self, s: ast.Try, fr: Frame, outer: tuple, after: Node) -> Node:
        if not s.finalbody:
            return after
        mk = ('fin', 'normal')
        if mk in fr.shared:
            return fr.shared[mk]
        inner_frames = outer + (Frame('finally-copy', s, in_finally=True),)
        start = self.new('finally', s, 'finally[normal]', inner_frames)
        start.role = 'normal'
        fr.shared[mk] = start
        end = self.block(s.finalbody, start, inner_frames)
        if end is not None:
            end.add(after)
        return start

    # ------------------------------------------------------------------ queries
    def preds(self) -> dict[Node, list[Node]]:
        if self._pred is None:
            p: dict[Node, list[Node]] = {n: [] for n in self.nodes}
            for n in self.nodes:
                for m in n.succ:
                    p[m].append(n)
            self._pred = p
        return self._pred

    def exits(self, classes: Iterable[str] = ('normal', 'exc', 'cancel')) -> list[Node]:
        m = {'normal': self.exit_normal, 'exc': self.exit_exc, 'cancel': self.exit_cancel}
        return [m[c] for c in classes]

    def find(self, pred: Callable[[Node], bool]) -> list[Node]:
        return [n for n in self.nodes if pred(n)]

    def stmt_nodes(self, pred: Callable[[ast.AST], bool], kinds: Optional[set] = None) -> list[Node]:
        """Nodes whose own statement/expressions satisfy ``pred`` (copies in every finally instance included)."""
        out = []
        for n in self.nodes:
            if n.stmt is None or n.kind in ('branch', 'join', 'finally', 'with-exit', 'dispatch', 'except', 'case'):
                continue
            if kinds and n.kind not in kinds:
                continue
            for e in self.own_exprs(n):
                if any(pred(x) for x in walk_no_defs(e, include_lambdas=False)):
                    out.append(n)
                    break
        return out

    def own_exprs(self, n: Node) -> list[ast.AST]:
        s = n.stmt
        if s is None:
            return []
        if n.kind == 'if':
            return [s.test]
        if n.kind == 'loop':
            return [s.test] if isinstance(s, ast.While) else [s.iter, s.target]
        if n.kind == 'with-enter':
            return [i.context_expr for i in s.items] + [i.optional_vars for i in s.items if i.optional_vars is not None]
        if n.kind == 'match':
            return [s.subject]
        if n.kind in ('stmt', 'return', 'raise'):
            return [s]
        return []

    def call_nodes(self, target: str | Callable[[set[str], ast.Call], bool]) -> list[Node]:
        """Nodes containing a call whose resolved callee matches ``target``."""
        def is_target(x: ast.AST) -> bool:
            if not isinstance(x, ast.Call):
                return False
            names = self.repo.callee_names(self.f, x)
            if callable(target):
                return target(names, x)
            tq = self.repo._qual(target)
            return tq in names
        return self.stmt_nodes(is_target)

    def reach(self, start: Iterable[Node], stop: Callable[[Node], bool] = lambda n: False, *,
              edge_ok: Optional[Callable[[Node, Node], bool]] = None) -> set[Node]:
        """Nodes reachable from ``start`` (exclusive) without expanding nodes where ``stop`` holds."""
        seen: set[Node] = set()
        todo = list(start)
        while todo:
            n = todo.pop()
            for m in n.succ:
                if m in seen:
                    continue
                if edge_ok is not None and not edge_ok(n, m):
                    continue
                seen.add(m)
                if not stop(m):
                    todo.append(m)
        return seen

    def reach_back(self, targets: Iterable[Node], stop: Callable[[Node], bool] = lambda n: False) -> set[Node]:
        pred = self.preds()
        seen: set[Node] = set()
        todo = list(targets)
        while todo:
            n = todo.pop()
            for p in pred[n]:
                if p in seen:
                    continue
                seen.add(p)
                if not stop(p):
                    todo.append(p)
        return seen

    def pruned(self, assume: Callable[[ast.AST, bool], Optional[bool]]) -> Callable[[Node, Node], bool]:
        """Edge filter dropping branch nodes whose condition contradicts an assumption.

        ``assume(test, outcome)`` returns False when taking this branch is impossible under the assumption.
        """
        def ok(a: Node, b: Node) -> bool:
            if b.kind == 'branch' and b.cond is not None:
                r = assume(b.cond[0], b.cond[1])
                if r is False:
                    return False
            return True
        return ok

    def dominated(self, targets: Iterable[Node], by: Iterable[Node], *, edge_ok=None) -> list[Node]:
        """Targets reachable from the entry without passing any node of ``by`` (empty list = dominated)."""
        byset = set(by)
        r = self.reach([self.entry], stop=lambda n: n in byset, edge_ok=edge_ok)
        return [t for t in targets if t in r and t not in byset]

    def escaping_exits(self, start: Iterable[Node], through: Iterable[Node], classes=('normal', 'exc', 'cancel'), *,
                       edge_ok=None) -> list[Node]:
        """Exits (of the given classes) reachable from ``start`` without passing a node of ``through``."""
        tset = set(through)
        r = self.reach(start, stop=lambda n: n in tset, edge_ok=edge_ok)
        ex = set(self.exits(classes))
        return [n for n in r if n in ex and n not in tset]

    def suspensions_between(self, a: Iterable[Node], b: Iterable[Node], *, edge_ok=None) -> list[Node]:
        """Suspension points on some path from a node of ``a`` (exclusive) to a node of ``b`` (exclusive)."""
        bset = set(b)
        fwd = self.reach(a, stop=lambda n: n in bset, edge_ok=edge_ok)
        back = self.reach_back(bset)
        return sorted((n for n in fwd & back if n.suspends and n not in bset), key=lambda n: n.id)

    def path(self, start: Iterable[Node], goal: Callable[[Node], bool], stop: Callable[[Node], bool] = lambda n: False,
             *, edge_ok=None) -> list[Node]:
        """A shortest witness path (BFS) from ``start`` to a node satisfying ``goal`` avoiding ``stop`` nodes."""
        from collections import deque
        prev: dict[Node, Optional[Node]] = {}
        dq = deque()
        for s in start:
            prev[s] = None
            dq.append(s)
        while dq:
            n = dq.popleft()
            for m in n.succ:
                if m in prev:
                    continue
                if edge_ok is not None and not edge_ok(n, m):
                    continue
                prev[m] = n
                if goal(m):
                    out = [m]
                    while prev[out[-1]] is not None:
                        out.append(prev[out[-1]])
                    return list(reversed(out))
                if not stop(m):
                    dq.append(m)
        return []

    def describe_path(self, path: list[Node]) -> str:
        parts = []
        for n in path:
            if n.kind in ('join',):
                continue
            parts.append(f'L{n.lineno}:{n.kind}' + (f'[{n.label[:50]}]' if n.kind in ('branch', 'exit', 'finally', 'except', 'with-exit', 'dispatch') else ''))
        return ' -> '.join(parts)

    def branch_conditions_dominating(self, target: Node, *, edge_ok=None) -> list[tuple[ast.AST, bool]]:
        """Branch conditions that hold on *every* path from the entry to ``target`` (dominating branch nodes)."""
        out = []
        for b in self.nodes:
            if b.kind == 'branch' and b.cond is not None and b is not target:
                if not self.dominated([target], [b], edge_ok=edge_ok):
                    r = self.reach([self.entry], edge_ok=edge_ok)
                    if target in r:
                        out.append(b.cond)
        return out


# ---------------------------------------------------------------------- exception tiers
def default_may_raise(repo: Repo) -> Callable[[FuncInfo, ast.Call], bool]:
    summary: dict[str, bool] = {}

    def fn_may_raise(q: str, stack: tuple = ()) -> bool:
        if q in summary:
            return summary[q]
        fi = repo.funcs.get(q)
        if fi is None:
            return True
        if q in stack:
            return False
        res = False
        for n in walk_no_defs(fi.node):
            if isinstance(n, (ast.Raise, ast.Await, ast.Assert, ast.Yield, ast.YieldFrom)):
                res = True
                break
            if isinstance(n, ast.Call) and call_may_raise(fi, n, stack + (q,)):
                res = True
                break
        summary[q] = res
        return res

    def call_may_raise(f: FuncInfo, call: ast.Call, stack: tuple = ()) -> bool:
        d = dotted(call.func)
        r = repo.resolve(f.module, call.func) if d else None
        if d in TOTAL_CALL_NAMES or (r in TOTAL_CALL_NAMES):
            return False
        if isinstance(call.func, ast.Attribute) and call.func.attr in TOTAL_METHODS:
            names = repo.callees(f, call)
            exact = [c for c in names if not c.startswith('?')]
            if not exact:
                return False
            # typed receiver with a repo method of a "total" name: look at the method itself
            return any(fn_may_raise(c, stack) if c in repo.funcs else False for c in exact)
        names = repo.callees(f, call)
        if not names:
            return True
        res = False
        for c in names:
            c = c.lstrip('?')
            if c in repo.classes:
                init = repo.find_method(c, '__init__')
                post = repo.find_method(c, '__post_init__')
                for meth in (init, post):
                    if meth is not None and fn_may_raise(meth.qualname, stack):
                        res = True
            elif c in repo.funcs:
                if repo.funcs[c].is_async and not repo.funcs[c].is_generator() and not stack:
                    pass    # calling a coroutine function only creates the coroutine object; the await may raise
                elif fn_may_raise(c, stack):
                    res = True
            elif c in TOTAL_CALL_NAMES:
                pass
            else:
                res = True
        return res

    return call_may_raise


def default_swallows(repo: Repo) -> Callable[[FuncInfo, ast.AST, str], bool]:
    cache: dict[str, dict[str, bool]] = {}

    def manager_summary(q: str) -> dict[str, bool]:
        """May a @contextmanager generator swallow an exception thrown at its yield? (path from the yield's
        exception edge to the normal exit)"""
        if q in cache:
            return cache[q]
        cache[q] = {'cancel': False, 'exc': False}
        fi = repo.funcs.get(q)
        if fi is None or not fi.is_generator():
            return cache[q]
        g = CFG(repo, fi)
        ys = g.stmt_nodes(lambda x: isinstance(x, ast.Yield))
        for kind in ('cancel', 'exc'):
            starts = [y.exc_edges[kind] for y in ys if kind in y.exc_edges]
            r = g.reach(starts) | set(starts)
            cache[q][kind] = g.exit_normal in r
        return cache[q]

    def swallows(f: FuncInfo, e: ast.AST, kind: str) -> bool:
        if isinstance(e, ast.Call):
            r = repo.resolve(f.module, e.func)
            if r == 'contextlib.suppress':
                names = [repo.resolve(f.module, a) or '' for a in e.args]
                if kind == 'cancel':
                    return any(n in CANCEL_CLASSES for n in names)
                return any(n not in ('asyncio.CancelledError',) for n in names)
            for c in repo.callees(f, e):
                c = c.lstrip('?')
                if c in repo.funcs and any(d.endswith('contextmanager') for d in repo.funcs[c].decorators):
                    if manager_summary(c)[kind]:
                        return True
            return False
        if isinstance(e, ast.Name):
            # a local bound to a manager:  x = a() if c else b(...)
            for n in walk_no_defs(f.node):
                if isinstance(n, ast.Assign) and any(isinstance(t, ast.Name) and t.id == e.id for t in n.targets):
                    vals = [n.value.body, n.value.orelse] if isinstance(n.value, ast.IfExp) else [n.value]
                    if any(swallows(f, v, kind) for v in vals):
                        return True
        return False

    return swallows
