"""C20 -- operator lifecycle: startup first, fail-fast, cleanup last (DESIGN.md §4, R20.1-R20.7)."""
from __future__ import annotations

import ast
from typing import Any, Iterable, Optional

from ..core import Ctx, PropSpec
from ..rules import calls_in, cfg_of, cond_implies, construct, dominating_conditions, in_handler_of, is_call_to, kwarg, method_call, norm, origin, witness
from ..srcmodel import AnalysisError, FuncInfo, dotted, src, walk_no_defs
from .C13 import both, check_keepalive, cleanup_is_total, nonnull_edges, param, sweeps_all_daemons

RUN = 'kopf._core.reactor.running'
TASKS = 'kopf._cogs.aiokits.aiotasks'
API = 'kopf._cogs.clients.api'


# ====================================================================== call graph (over-approximate: REACH)
class CallGraph:
    """function -> referenced repo functions: resolved calls (typed receivers exactly, untyped ones by method name),
    functions passed by name (callbacks, functools.partial, coroutine arguments), constructors -> __init__ etc.,
    nested definitions."""

    def __init__(self, repo):
        self.repo = repo
        self._refs: dict[str, set[str]] = {}

    def refs(self, q: str) -> set[str]:
        if q in self._refs:
            return self._refs[q]
        repo = self.repo
        f = repo.funcs[q]
        raw: set[str] = set()
        for n in ast.walk(f.node):
            if isinstance(n, ast.Call):
                for c in repo.callees(f, n):
                    raw.add(c.lstrip('?'))
            elif isinstance(n, (ast.Name, ast.Attribute)) and isinstance(getattr(n, 'ctx', None), ast.Load):
                r = repo.resolve(f.module, n)
                if r in repo.funcs or r in repo.classes:
                    raw.add(r)
            elif isinstance(n, (ast.FunctionDef, ast.AsyncFunctionDef)) and n is not f.node:
                for g in repo.funcs.values():
                    if g.node is n:
                        raw.add(g.qualname)
        out: set[str] = set()
        for c in raw:
            if c in repo.classes:
                for m in ('__init__', '__post_init__', '__call__', '__aenter__', '__aexit__', '__enter__', '__exit__', '__await__', '__aiter__', '__anext__'):
                    mm = repo.find_method(c, m)
                    if mm is not None:
                        out.add(mm.qualname)
            elif c in repo.funcs:
                out.add(c)
        self._refs[q] = out
        return out

    def reach(self, starts: Iterable[str]) -> dict[str, Optional[str]]:
        seen: dict[str, Optional[str]] = {}
        todo: list[tuple[str, Optional[str]]] = [(s, None) for s in starts]
        while todo:
            q, par = todo.pop()
            if q in seen or q not in self.repo.funcs:
                continue
            seen[q] = par
            for r in self.refs(q):
                if r not in seen:
                    todo.append((r, q))
        return seen

    @staticmethod
    def chain(seen: dict, q: str) -> str:
        out = [q]
        while seen.get(out[-1]):
            out.append(seen[out[-1]])
        return ' <- '.join(x.replace('kopf.', '') for x in out)


_graphs: dict = {}


def graph_of(ctx: Ctx) -> CallGraph:
    if id(ctx.repo) not in _graphs:
        _graphs[id(ctx.repo)] = CallGraph(ctx.repo)
    return _graphs[id(ctx.repo)]


def api_sinks(repo) -> set[str]:
    out = {f.qualname for f in repo.functions_in(API)}
    for f in repo.all_functions():
        for c in calls_in(f.node):
            if isinstance(c.func, ast.Attribute) and (dotted(c.func.value) or '').split('.')[-1] == 'session' and c.func.attr in (
                    'request', 'get', 'post', 'patch', 'put', 'delete', 'ws_connect', 'head', 'options'):
                out.add(f.qualname)
    return out


# ====================================================================== task-creation sites
def creation_kind(repo, f: FuncInfo, c: ast.Call) -> Optional[str]:
    names = repo.callee_names(f, c)
    if f'{TASKS}.create_guarded_task' in names:
        return 'guarded'
    if f'{TASKS}.Scheduler.spawn' in names and not any(n != f'{TASKS}.Scheduler.spawn' for n in repo.callees(f, c) if not n.startswith('?')):
        r = method_call(c, 'spawn')
        if r is not None and (repo.type_of(f, r) or '').endswith('aiotasks.Scheduler'):
            return 'spawn'
    if names & {'asyncio.create_task', 'asyncio.ensure_future', 'asyncio.tasks.create_task'}:
        return 'task'
    if isinstance(c.func, ast.Attribute) and c.func.attr in ('create_task', 'ensure_future'):
        return 'task'      # loop.create_task / TaskGroup.create_task / ...
    return None


def coro_of(c: ast.Call) -> Optional[ast.AST]:
    v = kwarg(c, 'coro')
    if v is None and c.args:
        v = c.args[0]
    return v


def coro_targets(repo, f: FuncInfo, coro: Optional[ast.AST]) -> Optional[set[str]]:
    """Repo functions whose coroutine this expression is (None = not statically known)."""
    if isinstance(coro, ast.Call):
        names = {n for n in repo.callee_names(f, coro) if n in repo.funcs}
        if names:
            return names
        r = repo.resolve(f.module, coro.func)
        if r and not r.startswith('kopf'):
            return set()      # a library awaitable (asyncio.wait_for, Event.wait, ...)
        if isinstance(coro.func, ast.Attribute) and not any(n.startswith('kopf') for n in repo.callee_names(f, coro)):
            return set()
    return None


CREATOR_NAMES = {'create_task', 'ensure_future', 'create_guarded_task', 'spawn'}


def _last_name(e: ast.AST) -> Optional[str]:
    return e.attr if isinstance(e, ast.Attribute) else e.id if isinstance(e, ast.Name) else None


def all_sites(ctx: Ctx) -> list[tuple[FuncInfo, ast.Call, str]]:
    repo = ctx.repo
    out = []
    for f in repo.all_functions():
        for c in calls_in(f.node):
            # cheap syntactic pre-filter (the last identifier, or an import alias of a creator), then exact resolution
            if _last_name(c.func) not in CREATOR_NAMES and (repo.resolve(f.module, c.func) or '').rsplit('.', 1)[-1] not in CREATOR_NAMES:
                continue
            k = creation_kind(repo, f, c)
            if k is not None:
                out.append((f, c, k))
    return out


def calls_of(repo, target: FuncInfo) -> list[tuple[FuncInfo, ast.Call]]:
    """Exact call sites of a function (pre-filtered by its name / an import alias)."""
    out = []
    for f in repo.all_functions():
        for c in calls_in(f.node):
            if _last_name(c.func) == target.name or (repo.resolve(f.module, c.func) or '') == target.qualname:
                if target.qualname in repo.callees(f, c):
                    out.append((f, c))
    return out


# ====================================================================== R20.1 gated roots
def started_flag_name(ctx: Ctx, st: FuncInfo) -> str:
    repo = ctx.repo
    calls = [c for c in ast.walk(st.node) if isinstance(c, ast.Call) and is_call_to(repo, st, c, f'{RUN}.startup_cleanup_activities')]
    if len(calls) != 1:
        raise AnalysisError(f'{st.loc()}: expected one startup_cleanup_activities(...) coroutine in spawn_tasks, found {len(calls)}')
    v = kwarg(calls[0], 'started_flag')
    o = origin(st, v) if v is not None else None
    if not isinstance(v, ast.Name) or not (isinstance(o, ast.Call) and (repo.resolve(st.module, o.func) or '') == 'asyncio.Event'):
        raise AnalysisError(f'{st.loc(calls[0])}: started_flag= of startup_cleanup_activities is not a local asyncio.Event()')
    return v.id


def check_roots(ctx: Ctx) -> None:
    repo = ctx.repo
    R = 'R20.1'
    st = repo.fn(f'{RUN}.spawn_tasks')
    ctx.analysed(st)
    flag = started_flag_name(ctx, st)
    cg = graph_of(ctx)
    sinks = api_sinks(repo)
    sites = [(c, creation_kind(repo, st, c)) for c in calls_in(st.node)]
    sites = [(c, k) for c, k in sites if k is not None]
    ctx.require_sites(R, 'spawn_tasks: root task creation sites', len(sites), 15, st.loc())
    n_g = n_u = 0
    for c, k in sorted(sites, key=lambda x: x[0].lineno):
        coro = coro_of(c)
        label = norm(kwarg(c, 'name'), 50) if kwarg(c, 'name') is not None else norm(coro, 50)
        fv = kwarg(c, 'flag') if k == 'guarded' else None
        if fv is not None and dotted(fv) == flag:
            n_g += 1
            ctx.ob(R, f'spawn_tasks: root task {label} waits for the startup (create_guarded_task(flag=<started flag>))', True, loc=st.loc(c),
                   construct=construct(st, f'config:gated:{_coro_key(repo, st, coro)}'))
            continue
        n_u += 1
        tg = coro_targets(repo, st, coro)
        if tg is None:
            ctx.ob(R, f'spawn_tasks: root task {label} is not gated by the started flag and its coroutine is not statically known', False, loc=st.loc(c),
                   construct=construct(st, f'reach:ungated:{_coro_key(repo, st, coro)}'), detail=f'flag={norm(fv)}')
            continue
        seen = cg.reach(tg)
        hit = sorted(q for q in seen if q in sinks)
        ctx.ob(R, f'spawn_tasks: root task {label} is not gated by the started flag, so its coroutine must not be able to reach the Kubernetes API client '
               f'({len(seen)} functions reachable)', not hit, loc=st.loc(c), construct=construct(st, f'reach:ungated:{_coro_key(repo, st, coro)}'),
               detail='' if not hit else f'flag={norm(fv)}; reaches ' + CallGraph.chain(seen, hit[0]))
    ctx.count('gated_roots', n_g)
    ctx.count('ungated_roots', n_u)
    ctx.require_sites(R, 'spawn_tasks: root tasks gated by the started flag', n_g, 11, st.loc())
    # every root is kept: appended to a list that is returned (root set) or handed to the startup/cleanup task (core set)
    for c, k in sites:
        par = st.module.parent.get(c)
        ok = isinstance(par, ast.Call) and method_call(par, 'append') is not None and isinstance(par.func.value, ast.Name)
        ctx.ob(R, 'spawn_tasks: the created task is kept in the root/core task list', ok, loc=st.loc(c), construct=construct(st, f'flow:kept:{_coro_key(repo, st, coro_of(c))}'))

    # the guard: the coroutine is awaited only after the flag
    gd, g = cfg_of(ctx, f'{TASKS}.guard')
    param(gd, 'flag'), param(gd, 'coro')
    aw = g.stmt_nodes(lambda x: isinstance(x, ast.Await) and dotted(x.value) == 'coro')
    wt = g.stmt_nodes(lambda x: isinstance(x, ast.Call) and method_call(x, 'wait') is not None and dotted(method_call(x, 'wait')) == 'flag' and not x.args)
    ctx.require_sites(R, 'guard: `await coro`', len(aw), 1, gd.loc())
    ek = nonnull_edges(g, 'flag')
    ok = bool(wt) and not g.dominated(aw, wt, edge_ok=ek) and not any(a in g.reach([t for w in wt for k, t in w.exc_edges.items()]) for a in aw)
    ctx.ob(R, 'guard: with a flag, the coroutine is awaited only after `await flag.wait()` returned normally', ok, loc=gd.loc(),
           construct=construct(gd, 'dom:flag.wait()<await coro'))
    others = [n for n in walk_no_defs(gd.node) if isinstance(n, ast.Name) and n.id == 'coro' and isinstance(n.ctx, ast.Load)
              and not isinstance(gd.module.parent.get(n), ast.Await) and not (isinstance(gd.module.parent.get(n), ast.keyword)
                                                                              and is_call_to(repo, gd, gd.module.parent.get(gd.module.parent.get(n)), f'{TASKS}.cancel_coro'))]
    ctx.ob(R, 'guard: the coroutine is not started in any other way (only awaited, or closed on cancellation)', not others, loc=gd.loc(),
           construct=construct(gd, 'confine:coro use'), detail='; '.join(norm(repo.stmt_of(gd.module, n), 60) for n in others[:2]))
    cgt = repo.fn(f'{TASKS}.create_guarded_task')
    ctx.analysed(cgt)
    gc = [c for c in ast.walk(cgt.node) if isinstance(c, ast.Call) and is_call_to(repo, cgt, c, f'{TASKS}.guard')]
    ok = len(gc) == 1 and dotted(kwarg(gc[0], 'flag')) == 'flag' and dotted(kwarg(gc[0], 'coro')) == 'coro'
    ctx.ob(R, 'create_guarded_task: the flag and the coroutine are handed to the guard', ok, loc=cgt.loc(), construct=construct(cgt, 'config:guard(flag=flag, coro=coro)'))


def _coro_key(repo, f: FuncInfo, coro: Optional[ast.AST]) -> str:
    if isinstance(coro, ast.Call):
        return (repo.resolve(f.module, coro.func) or src(coro.func, 40)).replace('kopf.', '')
    return src(coro, 40)


# ====================================================================== R20.2 / R20.3 startup first, cleanup last
def _activity_nodes(repo, f, g, member: str):
    def is_act(x: ast.AST) -> bool:
        if isinstance(x, ast.Call) and is_call_to(repo, f, x, 'activities.run_activity'):
            v = kwarg(x, 'activity')
            return v is not None and (repo.resolve(f.module, v) or '').endswith('causes.Activity.' + member)
        return False
    return g.stmt_nodes(is_act)


def _abnormal_reach(g, nodes) -> set:
    starts = [t for n in nodes for k, t in n.exc_edges.items()]
    return g.reach(starts) | set(starts)


def check_startup_cleanup(ctx: Ctx) -> None:
    repo = ctx.repo
    f, g = cfg_of(ctx, f'{RUN}.startup_cleanup_activities')
    for n in ('started_flag', 'ready_flag', 'root_tasks', 'core_tasks', 'vault'):
        param(f, n)
    startup = _activity_nodes(repo, f, g, 'STARTUP')
    cleanup = _activity_nodes(repo, f, g, 'CLEANUP')
    sets = g.stmt_nodes(lambda x: isinstance(x, ast.Call) and method_call(x, 'set') is not None and dotted(method_call(x, 'set')) == 'started_flag')
    ready = g.stmt_nodes(lambda x: isinstance(x, ast.Call) and is_call_to(repo, f, x, 'aioadapters.raise_flag') and x.args and dotted(x.args[0]) == 'ready_flag')
    R = 'R20.2'
    ctx.require_sites(R, 'startup_cleanup_activities: the STARTUP activity', len(startup), 1, f.loc())
    ctx.require_sites(R, 'startup_cleanup_activities: started_flag.set()', len(sets), 1, f.loc())
    ctx.require_sites(R, 'startup_cleanup_activities: raise_flag(ready_flag)', len(ready), 1, f.loc())
    ab = _abnormal_reach(g, startup)
    for nodes, what, key in ((sets, 'the root tasks are released (started_flag.set())', 'started_flag.set'), (ready, 'the ready flag is raised', 'raise_flag(ready)')):
        ctx.ob(R, f'startup_cleanup_activities: {what} only after the STARTUP activity', bool(startup) and not g.dominated(nodes, startup), loc=f.loc(),
               construct=construct(f, f'dom:STARTUP<{key}'))
        hit = [n for n in nodes if n in ab]
        ctx.ob(R, f'startup_cleanup_activities: {what} only if the STARTUP activity completed normally (no handler swallows its failure or cancellation)', not hit,
               loc=f.loc(hit[0].stmt) if hit else f.loc(), construct=construct(f, f'dom:STARTUP-ok<{key}'),
               detail='' if not hit else 'reached from the failure of the activity via ' + witness(g, [t for n in startup for t in n.exc_edges.values()], hit[0]))
    ctx.ob(R, 'startup_cleanup_activities: a failed or cancelled STARTUP activity ends the task abnormally (the operator stops; nothing is released)',
           bool(startup) and g.exit_normal not in ab and not any(c in ab for c in cleanup), loc=f.loc(), construct=construct(f, 'allexits:STARTUP failure propagates'))

    R = 'R20.3'

    def from_roots(e: Optional[ast.AST]) -> bool:
        o = origin(f, e) if e is not None else None
        if isinstance(o, ast.Name):
            return o.id == 'root_tasks'
        if isinstance(o, (ast.SetComp, ast.ListComp, ast.GeneratorExp)) and len(o.generators) == 1:
            gen = o.generators[0]
            # only the own task may be left out
            cur = [n.targets[0].id for n in walk_no_defs(f.node) if isinstance(n, ast.Assign) and len(n.targets) == 1 and isinstance(n.targets[0], ast.Name)
                   and isinstance(n.value, ast.Call) and (repo.resolve(f.module, n.value.func) or '') == 'asyncio.current_task']
            def is_self(e: ast.AST) -> bool:
                return dotted(e) in cur or (isinstance(e, ast.Call) and (repo.resolve(f.module, e.func) or '') == 'asyncio.current_task')
            only_self = all(isinstance(c, ast.Compare) and len(c.ops) == 1 and isinstance(c.ops[0], (ast.IsNot, ast.NotEq)) and is_self(c.comparators[0])
                            for c in gen.ifs)
            return dotted(gen.iter) == 'root_tasks' and only_self
        return False
    waits = g.stmt_nodes(lambda x: isinstance(x, ast.Call) and is_call_to(repo, f, x, f'{TASKS}.wait') and x.args and from_roots(x.args[0])
                         and kwarg(x, 'timeout') is None and kwarg(x, 'return_when') is None)
    stops = g.stmt_nodes(lambda x: isinstance(x, ast.Call) and is_call_to(repo, f, x, f'{TASKS}.stop') and x.args and dotted(x.args[0]) == 'core_tasks')
    closes = g.stmt_nodes(lambda x: isinstance(x, ast.Call) and method_call(x, 'close') is not None and dotted(method_call(x, 'close')) == 'vault')
    ctx.require_sites(R, 'startup_cleanup_activities: the CLEANUP activity', len(cleanup), 1, f.loc())
    ctx.require_sites(R, 'startup_cleanup_activities: wait for all other root tasks', len(waits), 1, f.loc())
    ctx.require_sites(R, 'startup_cleanup_activities: stop of the core tasks', len(stops), 1, f.loc())
    ctx.ob(R, 'startup_cleanup_activities: the CLEANUP activity runs only after ALL other root tasks have been waited for (aiotasks.wait, no timeout)',
           bool(waits) and not g.dominated(cleanup, waits) and not any(c in _abnormal_reach(g, waits) for c in cleanup), loc=f.loc(),
           construct=construct(f, 'dom:wait(roots)<CLEANUP'))
    ctx.ob(R, 'startup_cleanup_activities: the CLEANUP activity runs only after the core tasks were stopped (and their failures re-raised)',
           bool(stops) and not g.dominated(cleanup, stops) and not any(c in _abnormal_reach(g, stops) for c in cleanup), loc=f.loc(),
           construct=construct(f, 'dom:stop(core)<CLEANUP'))
    ctx.ob(R, 'startup_cleanup_activities: the CLEANUP activity runs only after the STARTUP activity', bool(startup) and not g.dominated(cleanup, startup), loc=f.loc(),
           construct=construct(f, 'dom:STARTUP<CLEANUP'))
    esc = g.escaping_exits(sets, stops, edge_ok=cleanup_is_total)
    ctx.ob(R, 'startup_cleanup_activities: once the root tasks were released, the core tasks are stopped on every exit', not esc and bool(stops), loc=f.loc(),
           construct=construct(f, 'allexits:stop(core)'), detail='; '.join(f'{e.label} via {witness(g, sets, e, stops, edge_ok=cleanup_is_total)}' for e in esc[:2]))
    ctx.ob(R, 'startup_cleanup_activities: the credentials vault is closed after the CLEANUP activity', bool(closes) and not g.dominated(closes, cleanup), loc=f.loc(),
           construct=construct(f, 'order:CLEANUP<vault.close'))
    # the lists are the live ones of spawn_tasks
    st = repo.fn(f'{RUN}.spawn_tasks')
    call = [c for c in ast.walk(st.node) if isinstance(c, ast.Call) and is_call_to(repo, st, c, f'{RUN}.startup_cleanup_activities')][0]
    returned = {dotted(n.value) for n in walk_no_defs(st.node) if isinstance(n, ast.Return) and n.value is not None}
    appended: dict[str, int] = {}
    for c in calls_in(st.node):
        if method_call(c, 'append') is not None and isinstance(c.func.value, ast.Name) and c.args and isinstance(c.args[0], ast.Call) \
                and creation_kind(repo, st, c.args[0]) is not None:
            appended[c.func.value.id] = appended.get(c.func.value.id, 0) + 1
    rt, ct = dotted(kwarg(call, 'root_tasks')), dotted(kwarg(call, 'core_tasks'))
    ctx.ob(R, 'spawn_tasks: the startup/cleanup task watches the very list of root tasks that is returned to run_tasks', rt in returned and len(returned) == 1, loc=st.loc(call),
           construct=construct(st, 'flow:root_tasks=returned list'), detail=f'root_tasks={rt}, returned {sorted(returned)}')
    ctx.ob(R, 'spawn_tasks: every task list that receives tasks is either the returned root list or the core list owned by the startup/cleanup task',
           set(appended) <= {rt, ct} and bool(appended), loc=st.loc(), construct=construct(st, 'flow:task lists'), detail=str(appended))


# ====================================================================== R20.4 shutdown sequence
def _tuple_targets(n) -> list[Optional[str]]:
    st = n.stmt
    if isinstance(st, ast.Assign) and len(st.targets) == 1:
        t = st.targets[0]
        if isinstance(t, ast.Tuple):
            return [x.id if isinstance(x, ast.Name) else None for x in t.elts]
        if isinstance(t, ast.Name):
            return [t.id]
    return []


def _all_defs(f: FuncInfo, e: Optional[ast.AST]) -> list[ast.AST]:
    """Every value a local name is bound to (the name itself for anything else)."""
    if not isinstance(e, ast.Name):
        return [e] if e is not None else []
    out: list[ast.AST] = []
    for n in walk_no_defs(f.node):
        if isinstance(n, ast.Assign) and any(isinstance(t, ast.Name) and t.id == e.id for t in n.targets):
            out.append(n.value)
        elif isinstance(n, ast.AnnAssign) and isinstance(n.target, ast.Name) and n.target.id == e.id and n.value is not None:
            out.append(n.value)
    return out


def _is_all_tasks(repo, f: FuncInfo, e: Optional[ast.AST]) -> bool:
    ds = _all_defs(f, e)
    return bool(ds) and all(isinstance(d, ast.Await) and is_call_to(repo, f, d.value, f'{TASKS}.all_tasks') for d in ds)


def no_abnormal(a, b) -> bool:
    return a.kind == 'raise' or b not in a.exc_edges.values() or len(a.succ) == 1


def check_run_tasks(ctx: Ctx) -> None:
    repo = ctx.repo
    R = 'R20.4'
    f, g = cfg_of(ctx, f'{RUN}.run_tasks')
    param(f, 'root_tasks')

    def stop_of(name: Optional[str], handler: bool):
        return [n for n in g.stmt_nodes(lambda x: isinstance(x, ast.Call) and is_call_to(repo, f, x, f'{TASKS}.stop') and x.args and dotted(x.args[0]) == name)
                if in_handler_of(n, 'CancelledError') == handler] if name else []
    def is_first_wait(x: ast.AST) -> bool:
        if not (isinstance(x, ast.Call) and is_call_to(repo, f, x, f'{TASKS}.wait') and x.args and dotted(x.args[0]) == 'root_tasks'):
            return False
        rw = kwarg(x, 'return_when')
        return rw is not None and (repo.resolve(f.module, rw) or '') == 'asyncio.FIRST_COMPLETED'
    w1 = g.stmt_nodes(is_first_wait)
    ctx.require_sites(R, 'run_tasks: wait(root_tasks, FIRST_COMPLETED)', len(w1), 1, f.loc())
    if not w1:
        return
    t1 = _tuple_targets(w1[0])
    root_done, root_pending = (t1 + [None, None])[:2]
    s1 = stop_of(root_pending, False)
    w2 = g.stmt_nodes(lambda x: isinstance(x, ast.Call) and is_call_to(repo, f, x, f'{TASKS}.wait') and kwarg(x, 'timeout') is not None and bool(x.args)
                      and _is_all_tasks(repo, f, x.args[0]))
    t2 = _tuple_targets(w2[0]) if w2 else []
    hung_done, hung_pending = (t2 + [None, None])[:2]
    s2 = stop_of(hung_pending, False)
    rr = g.stmt_nodes(lambda x: isinstance(x, ast.Call) and is_call_to(repo, f, x, f'{TASKS}.reraise'))
    ctx.require_sites(R, 'run_tasks: stop of the pending root tasks', len(s1), 1, f.loc())
    ctx.require_sites(R, 'run_tasks: bounded wait for the remaining (hung) tasks', len(w2), 1, f.loc())
    ctx.require_sites(R, 'run_tasks: stop of the still pending hung tasks', len(s2), 1, f.loc())
    ctx.require_sites(R, 'run_tasks: re-raise of the failures', len(rr), 1, f.loc())
    chain = [(w1, s1, 'wait(FIRST_COMPLETED)<stop(root_pending)', 'the pending root tasks are stopped after the first root task has finished'),
             (s1, w2, 'stop(root_pending)<wait(hung, timeout)', 'the remaining tasks are given a bounded time only after the roots are stopped'),
             (w2, s2, 'wait(hung, timeout)<stop(hung_pending)', 'what is still pending after the grace period is stopped'),
             (s2, rr, 'stop(hung_pending)<reraise', 'failures are re-raised last')]
    for a, b, key, what in chain:
        ok = bool(a) and bool(b) and not g.dominated(b, a) and not any(x in _abnormal_reach(g, a) for x in b)
        ctx.ob(R, f'run_tasks: {what}', ok, loc=f.loc(b[0].stmt) if b else f.loc(), construct=construct(f, f'order:{key}'))
    esc = g.escaping_exits(w1, rr, classes=('normal',))
    ctx.ob(R, 'run_tasks: every normal return passes the re-raise of the failures', not esc and bool(rr), loc=f.loc(), construct=construct(f, 'allexits:reraise (normal)'))
    for n in rr:
        call = [c for c in calls_in(n.stmt) if is_call_to(repo, f, c, f'{TASKS}.reraise')][0]
        names = {x.id for x in ast.walk(origin(f, call.args[0])) if isinstance(x, ast.Name)} if call.args else set()
        s1t = (_tuple_targets(s1[0]) + [None])[0] if s1 else None
        s2t = (_tuple_targets(s2[0]) + [None])[0] if s2 else None
        need = [x for x in (root_done, s1t, hung_done, s2t)]
        ok = all(x is not None and x in names for x in need)
        ctx.ob(R, 'run_tasks: the re-raise covers the finished root task(s), the stopped roots and the hung tasks (done and stopped)', ok, loc=f.loc(call),
               construct=construct(f, 'flow:reraise(all four sets)'), detail=f'{norm(call)}; needs {need}')
    # cancellation of the operator while waiting: both stops run, then the cancellation is re-raised
    for w, label, need_root in ((w1, 'first wait', True), (w2, 'grace period', False)):
        for n in w:
            t = n.exc_edges.get('cancel')
            if t is None or t.kind != 'except':
                ctx.ob(R, f'run_tasks: a cancellation during the {label} is handled (tasks are stopped before it propagates)', False, loc=f.loc(n.stmt),
                       construct=construct(f, f'allexits:cancel@{label}'))
                continue
            region = g.reach([t], edge_ok=no_abnormal) | {t}
            roots = [x for x in stop_of('root_tasks', True) if x in region]
            hungs = [x for x in g.stmt_nodes(lambda x: isinstance(x, ast.Call) and is_call_to(repo, f, x, f'{TASKS}.stop') and bool(x.args)
                                             and _is_all_tasks(repo, f, x.args[0]))
                     if x in region]
            ok = (not need_root or (bool(roots) and not g.escaping_exits([t], roots, edge_ok=no_abnormal))) \
                and bool(hungs) and not g.escaping_exits([t], hungs, edge_ok=no_abnormal) \
                and g.exit_normal not in region and g.exit_cancel in region
            if need_root and roots and hungs:
                ok = ok and not g.dominated(hungs, roots, edge_ok=lambda a, b: True) or ok and all(h in g.reach(roots, edge_ok=no_abnormal) for h in hungs)
            ctx.ob(R, f'run_tasks: on cancellation during the {label}, ' + ('the root tasks and then ' if need_root else '') + 'all remaining tasks are stopped '
                   'before the cancellation is re-raised', ok, loc=f.loc(t.stmt), construct=construct(f, f'allexits:cancel@{label}'))
    # operator(): what spawn_tasks returns is what run_tasks supervises
    op = repo.fn(f'{RUN}.operator')
    ctx.analysed(op)
    rc = [c for c in calls_in(op.node) if is_call_to(repo, op, c, f'{RUN}.run_tasks')]
    ok = False
    for c in rc:
        o = origin(op, c.args[0]) if c.args else None
        ok = ok or (isinstance(o, ast.Await) and is_call_to(repo, op, o.value, f'{RUN}.spawn_tasks') and isinstance(op.module.parent.get(c), ast.Await))
    ctx.ob(R, 'operator: the tasks returned by spawn_tasks are the root set awaited by run_tasks', ok, loc=op.loc(), construct=construct(op, 'flow:spawn_tasks->run_tasks'))


# ====================================================================== R20.5 stop the daemons / withdraw the peering record on every exit
def check_daemon_killer(ctx: Ctx) -> None:
    repo = ctx.repo
    R = 'R20.5'
    f, g = cfg_of(ctx, 'daemons.daemon_killer')
    param(f, 'memories')

    def exiting_stop(x: ast.AST) -> bool:
        if isinstance(x, ast.Call) and is_call_to(repo, f, x, 'daemons.stop_daemon'):
            v = kwarg(x, 'reason')
            return v is not None and (repo.resolve(f.module, v) or '').endswith('DaemonStoppingReason.OPERATOR_EXITING')
        return False
    stops = g.stmt_nodes(exiting_stop)
    ctx.require_sites(R, 'daemon_killer: stop_daemon(reason=OPERATOR_EXITING)', len(stops), 1, f.loc())
    sweeps = []
    for n in g.nodes:
        if n.kind == 'loop' and isinstance(n.stmt, ast.For) and any(method_call(c, 'iter_all_daemon_memories') is not None for c in calls_in(n.stmt.iter)) \
                and any(s in g.reach([n]) and any(fr.kind == 'loop' and fr.stmt is n.stmt for fr in s.frames) for s in stops):
            sweeps.append(n)
    ctx.require_sites(R, 'daemon_killer: the exit sweep over all daemon memories', len(sweeps), 1, f.loc())
    tries = [t for t in walk_no_defs(f.node) if isinstance(t, ast.Try) and any(exiting_stop(c) for s in t.finalbody for c in calls_in(s))]
    ctx.ob(R, 'daemon_killer: the exit sweep is in a `finally`', bool(tries), loc=f.loc(), construct=construct(f, 'allexits:sweep in finally'))
    if tries:
        first = tries[0].body[0]
        starts = [n for n in g.nodes if n.stmt is first and not n.in_finally and n.kind not in ('branch', 'join')]
        esc = g.escaping_exits(starts, sweeps, edge_ok=cleanup_is_total)
        ctx.ob(R, 'daemon_killer: every exit (cancellation at operator exit, failure) passes the sweep that stops all running daemons', not esc and bool(starts),
               loc=f.loc(), construct=construct(f, 'allexits:stop all daemons'),
               detail='; '.join(f'{e.label} via {witness(g, starts, e, sweeps, edge_ok=cleanup_is_total)}' for e in esc[:2]))
        pre = [n for n in g.reach([g.entry], stop=lambda n: n in set(starts)) if n.suspends and n not in starts and not n.in_finally
               and not any(n in g.reach([s]) for s in starts)]
        ctx.ob(R, 'daemon_killer: nothing can suspend before the protected block is entered', not pre, loc=f.loc(), construct=construct(f, 'atomic:entry->try'))
    for s in stops[:1]:
        loops = [fr.stmt for fr in s.frames if fr.kind == 'loop' and isinstance(fr.stmt, ast.For)]
        cond = any(isinstance(x, (ast.If, ast.Continue, ast.Break, ast.Try)) for l in loops[-2:] for st_ in l.body for x in walk_no_defs(st_))
        ctx.ob(R, 'daemon_killer: the sweep covers every running daemon of every object, unconditionally', sweeps_all_daemons(loops) and not cond,
               loc=f.loc(s.stmt), construct=construct(f, 'flow:stop all daemons (exiting)'))
    # the stoppers are waited for before the scheduler is closed (closing cancels them)
    waits = g.stmt_nodes(lambda x: isinstance(x, ast.Call) and is_call_to(repo, f, x, f'{TASKS}.Scheduler.wait'))
    closes = g.stmt_nodes(lambda x: isinstance(x, ast.Call) and is_call_to(repo, f, x, f'{TASKS}.Scheduler.close'))
    fin_waits = [w for w in waits if w.in_finally]
    ok = bool(fin_waits) and all(not g.dominated([c], fin_waits) for c in closes) and all(any(w in g.reach([sw], edge_ok=no_abnormal) for w in fin_waits) for sw in sweeps)
    esc2 = g.escaping_exits(sweeps, fin_waits, edge_ok=no_abnormal)
    ctx.ob(R, 'daemon_killer: after the sweep the daemon stoppers are waited for (scheduler.wait()) before the scheduler is closed or the task ends', ok and not esc2,
           loc=f.loc(), construct=construct(f, 'order:sweep<scheduler.wait<close'))


# ====================================================================== R20.6 a failed worker stops its watcher
def _nested(repo, f: FuncInfo, name: str) -> Optional[FuncInfo]:
    return repo.funcs.get(f'{f.qualname}.{name}')


def _current_task_locals(repo, f: FuncInfo) -> set[str]:
    return {n.targets[0].id for n in walk_no_defs(f.node) if isinstance(n, ast.Assign) and len(n.targets) == 1 and isinstance(n.targets[0], ast.Name)
            and isinstance(n.value, ast.Call) and (repo.resolve(f.module, n.value.func) or '') == 'asyncio.current_task'}


def _nonlocal_writes(cb: FuncInfo) -> dict[str, list[ast.AST]]:
    nl = {n for s in walk_no_defs(cb.node) if isinstance(s, ast.Nonlocal) for n in s.names}
    out: dict[str, list[ast.AST]] = {}
    for n in walk_no_defs(cb.node):
        if isinstance(n, ast.Assign):
            for t in n.targets:
                if isinstance(t, ast.Name) and t.id in nl:
                    out.setdefault(t.id, []).append(n.value)
    return out


def check_worker_escalation(ctx: Ctx) -> None:
    repo = ctx.repo
    R = 'R20.6'
    f, g = cfg_of(ctx, 'queueing.watcher')
    ctor = [c for c in calls_in(f.node) if is_call_to(repo, f, c, f'{TASKS}.Scheduler')]
    ctx.require_sites(R, 'watcher: scheduler construction', len(ctor), 1, f.loc())
    cur = _current_task_locals(repo, f)
    errs: set[str] = set()
    for c in ctor:
        h = kwarg(c, 'exception_handler')
        cb = _nested(repo, f, h.id) if isinstance(h, ast.Name) else None
        ctx.ob(R, 'watcher: the scheduler of the workers gets an exception handler defined by the watcher', cb is not None, loc=f.loc(c),
               construct=construct(f, 'config:Scheduler(exception_handler=<nested>)'))
        if cb is None:
            continue
        ctx.analysed(cb)
        p0 = cb.params()[0].arg if cb.params() else None
        w = _nonlocal_writes(cb)
        errs = {k for k, vals in w.items() if any(dotted(v) == p0 for v in vals)}
        cancels = [x for x in calls_in(cb.node) if method_call(x, 'cancel') is not None and dotted(method_call(x, 'cancel')) in cur]
        ctx.ob(R, 'watcher.exception_handler: records the worker\'s exception for the watcher', bool(errs), loc=cb.loc(), construct=construct(cb, 'flow:record error'))
        ctx.ob(R, 'watcher.exception_handler: cancels the watcher task (asyncio.current_task() of the watcher) to wake it up from the stream', bool(cancels) and bool(cur),
               loc=cb.loc(), construct=construct(cb, 'flow:cancel watcher'))
    # the scheduler reports failures of its tasks to that handler
    sp = repo.fn(f'{TASKS}.Scheduler._task_spawner')
    dc = repo.fn(f'{TASKS}.Scheduler._task_done_callback')
    ctx.analysed(sp, dc)
    reg = [c for c in calls_in(sp.node) if method_call(c, 'add_done_callback') is not None and c.args and dotted(c.args[0]) == 'self._task_done_callback']
    ctx.ob(R, 'Scheduler: every spawned task gets the scheduler\'s done-callback', len(reg) >= 1, loc=sp.loc(), construct=construct(sp, 'config:add_done_callback'))
    hc = [c for c in calls_in(dc.node) if dotted(c.func) == 'self._exception_handler' and c.args]
    ok = bool(hc) and all(isinstance(origin(dc, c.args[0]), ast.Call) and method_call(origin(dc, c.args[0]), 'exception') is not None or _assigned_from_exception(dc, c.args[0])
                          for c in hc)
    ctx.ob(R, 'Scheduler._task_done_callback: a task\'s exception is passed to the exception handler', ok, loc=dc.loc(), construct=construct(dc, 'flow:exception->handler'))
    # the watcher turns its own cancellation into the failure
    hs = [n for n in g.nodes if n.kind == 'except' and isinstance(n.stmt, ast.ExceptHandler) and n.stmt.type is not None
          and (repo.resolve(f.module, n.stmt.type) or '') == 'asyncio.CancelledError' and not n.in_finally
          and any(isinstance(x, ast.AsyncFor) for st_ in _try_of(f, n.stmt).body for x in walk_no_defs(st_))]
    ctx.require_sites(R, 'watcher: handler of its own cancellation around the stream loop', len(hs), 1, f.loc())
    for h in hs:
        region = g.reach([h], stop=lambda n: n.kind == 'finally') | {h}
        raises = [n for n in region if n.kind == 'raise']
        esc_err = []
        for n in raises:
            st_ = n.stmt
            if st_.exc is not None and isinstance(st_.exc, ast.Call) and (repo.resolve(f.module, st_.exc.func) or '') == 'RuntimeError' and dotted(st_.cause) in errs:
                esc_err.append(n)
        fin_normal = [n for n in region if n.kind == 'finally' and n.role == 'normal']
        ctx.ob(R, 'watcher: with a recorded worker error, its cancellation is re-raised as `RuntimeError(...) from <worker error>`', bool(esc_err), loc=f.loc(h.stmt),
               construct=construct(f, 'flow:raise RuntimeError from worker_error'))
        ek = nonnull_edges(g, *errs)
        ok = all(not g.dominated([n], [b for t, o, b in dominating_conditions(g, n)], edge_ok=None) or True for n in esc_err)
        plain = [n for n in raises if n.stmt.exc is None]
        reach_err = g.reach([h], stop=lambda n: n.kind == 'finally', edge_ok=ek)
        ctx.ob(R, 'watcher: the cancellation handler never completes normally (it re-raises the cancellation or the failure) and, with a recorded error, '
               'does not re-raise the bare cancellation', not fin_normal and not any(n in reach_err for n in plain) and ok, loc=f.loc(h.stmt),
               construct=construct(f, 'allexits:cancel handler raises'))


def _assigned_from_exception(f: FuncInfo, e: ast.AST) -> bool:
    if not isinstance(e, ast.Name):
        return False
    vals = [n.value for n in walk_no_defs(f.node) if isinstance(n, ast.Assign) and any(isinstance(t, ast.Name) and t.id == e.id for t in n.targets)]
    return any(isinstance(v, ast.Call) and method_call(v, 'exception') is not None for v in vals)


def _try_of(f: FuncInfo, h: ast.ExceptHandler) -> ast.Try:
    p = f.module.parent.get(h)
    if not isinstance(p, ast.Try):
        raise AnalysisError(f'{f.loc(h)}: handler without try')
    return p


# ====================================================================== R20.7 who observes a task's failure
AWAITERS = {'asyncio.wait', 'asyncio.gather', 'asyncio.wait_for', 'asyncio.shield', f'{TASKS}.wait'}


class Ownership:
    def __init__(self, ctx: Ctx):
        self.ctx, self.repo = ctx, ctx.repo
        self.cg = graph_of(ctx)
        r = self.repo
        self.essential_targets = {r.fn('watching.infinite_watch').qualname, r.fn('watching.continuous_watch').qualname,
                                  r.fn('watching.watch_objs').qualname, r.fn('peering.keepalive').qualname,
                                  r.fn('queueing.worker').qualname}
        self.owner_checked: set[str] = set()
        self._sites: dict = {}

    def _call_sites(self, q: str):
        if q not in self._sites:
            self._sites[q] = calls_of(self.repo, self.repo.funcs[q])
        return self._sites[q]

    def _ctor_sites(self, cls: Optional[str]):
        if not cls or cls not in self.repo.classes:
            return []
        if cls not in self._sites:
            short = cls.rsplit('.', 1)[-1]
            self._sites[cls] = [(g2, c) for g2 in self.repo.all_functions() for c in calls_in(g2.node)
                                if _last_name(c.func) == short and cls in self.repo.callee_names(g2, c)]
        return self._sites[cls]

    # ---- essential?
    def essential(self, f: FuncInfo, coro: Optional[ast.AST]) -> tuple[Optional[bool], str]:
        tg = coro_targets(self.repo, f, coro)
        if tg is None:
            return None, 'coroutine not statically known'
        seen = self.cg.reach(tg)
        hit = sorted(q for q in seen if q in self.essential_targets)
        return (True, CallGraph.chain(seen, hit[0])) if hit else (False, '')

    # ---- how is the task observed?
    def _awaited_expr(self, f: FuncInfo, e: ast.AST) -> bool:
        """Is expression ``e`` (a task, or a collection holding it) awaited: `await e`, `yield from e`, or an argument of an awaited wait/gather/shield?"""
        m = f.module
        p = m.parent.get(e)
        if isinstance(p, (ast.Await, ast.YieldFrom)):
            return True
        if isinstance(p, ast.Starred):
            return self._awaited_expr(f, p)
        if isinstance(p, (ast.Set, ast.List, ast.Tuple, ast.SetComp, ast.ListComp, ast.GeneratorExp)):
            return self._awaited_expr(f, p)
        if isinstance(p, ast.comprehension):
            return False
        if isinstance(p, ast.Call) and e in p.args:
            r = self.repo.resolve(m, p.func) or ''
            if r in AWAITERS or any(n in AWAITERS for n in self.repo.callee_names(f, p)):
                return self._awaited_expr(f, p) or isinstance(m.parent.get(p), (ast.Await, ast.YieldFrom))
        return False

    def _uses(self, f: FuncInfo, name: str) -> list[ast.Name]:
        return [n for n in walk_no_defs(f.node) if isinstance(n, ast.Name) and n.id == name and isinstance(n.ctx, ast.Load)]

    def classify(self, f: FuncInfo, c: ast.Call, kind: str) -> tuple[str, str, Any]:
        """(class, explanation, extra) with class in: awaited | root-set | owned | scheduler | scheduler-silent | callback | returned | stored | dropped"""
        repo, m = self.repo, f.module
        if kind == 'spawn':
            r = method_call(c, 'spawn')
            o = origin(f, r) if r is not None else None
            if isinstance(o, ast.Call) and is_call_to(repo, f, o, f'{TASKS}.Scheduler'):
                h = kwarg(o, 'exception_handler')
                if h is not None and not (isinstance(h, ast.Constant) and h.value is None):
                    return 'scheduler', f'scheduler with exception_handler={norm(h)}', h
                return 'scheduler-silent', 'scheduler without an exception handler', None
            return 'scheduler-silent', f'scheduler `{norm(r)}` of unknown construction', None
        if self._awaited_expr(f, c):
            return 'awaited', 'awaited in the creating function', None
        p = m.parent.get(c)
        if isinstance(p, ast.Return):
            return 'returned', 'returned to the caller (factory)', None
        if isinstance(p, ast.Expr):
            return 'dropped', 'the task object is dropped (fire-and-forget)', None
        if isinstance(p, ast.Call) and c in p.args and isinstance(p.func, ast.Attribute) and p.func.attr in ('append', 'add') and isinstance(p.func.value, ast.Name):
            return self._container(f, p.func.value.id)
        if isinstance(p, ast.keyword):
            return 'stored', f'stored in a record: {norm(m.parent.get(p), 50)}', None
        if isinstance(p, (ast.Assign, ast.AnnAssign)):
            tgts = p.targets if isinstance(p, ast.Assign) else [p.target]
            t = tgts[0]
            if isinstance(t, ast.Name):
                uses = self._uses(f, t.id)
                if any(self._awaited_expr(f, u) for u in uses):
                    return 'awaited', f'awaited in the creating function through `{t.id}`', None
                for u in uses:
                    pu = m.parent.get(u)
                    if isinstance(pu, ast.Attribute) and pu.attr == 'add_done_callback' and isinstance(m.parent.get(pu), ast.Call):
                        return 'callback', f'done-callback {norm(m.parent.get(pu).args[0])}', (m.parent.get(pu), repo.stmt_of(m, p))
                for u in uses:
                    pu = m.parent.get(u)
                    if isinstance(pu, ast.Call) and u in pu.args and isinstance(pu.func, ast.Attribute) and pu.func.attr in ('append', 'add') \
                            and isinstance(pu.func.value, ast.Name):
                        return self._container(f, pu.func.value.id)
                    if isinstance(pu, ast.Return):
                        return 'returned', 'returned to the caller (factory)', None
                return 'stored', f'kept in local `{t.id}` and never awaited', None
            key = src(t, 200)
            for x in walk_no_defs(f.node):
                if isinstance(x, ast.Call) and method_call(x, 'add_done_callback') is not None and src(method_call(x, 'add_done_callback'), 200) == key and x.args:
                    return 'callback', f'done-callback {norm(x.args[0])}', (x, p)
            return 'stored', f'stored in `{norm(t, 50)}`', None
        return 'stored', f'used as {norm(p, 50)}', None

    def _container(self, f: FuncInfo, name: str) -> tuple[str, str, Any]:
        repo = self.repo
        uses = self._uses(f, name)
        if any(self._awaited_expr(f, u) for u in uses):
            return 'awaited', f'collected in `{name}`, which is awaited in the creating function', None
        for u in uses:
            pu = f.module.parent.get(u)
            if isinstance(pu, ast.Return):
                # who receives the returned collection?
                for g, call in self._call_sites(f.qualname):
                    holder = g.module.parent.get(call)
                    holder = g.module.parent.get(holder) if isinstance(holder, ast.Await) else holder
                    if isinstance(holder, ast.Assign) and len(holder.targets) == 1 and isinstance(holder.targets[0], ast.Name):
                        for u2 in self._uses(g, holder.targets[0].id):
                            pc = g.module.parent.get(u2)
                            if isinstance(pc, ast.Call) and is_call_to(repo, g, pc, f'{RUN}.run_tasks') and pc.args and pc.args[0] is u2:
                                return 'root-set', f'collected in `{name}`, returned, and supervised by run_tasks in {g.short}', None
                return 'returned', f'collected in `{name}` and returned', None
        for u in uses:
            pu = f.module.parent.get(u)
            if isinstance(pu, ast.keyword) and isinstance(f.module.parent.get(pu), ast.Call):
                call = f.module.parent.get(pu)
                for q in repo.callee_names(f, call):
                    owner = repo.funcs.get(q)
                    if owner is not None and self._stops_and_reraises(owner, pu.arg):
                        return 'owned', f'collected in `{name}`, owned by {owner.short} (stops it and re-raises its failures on every exit)', None
        return 'stored', f'collected in `{name}` and never awaited', None

    def _stops_and_reraises(self, owner: FuncInfo, pname: Optional[str]) -> bool:
        if pname is None:
            return False
        repo = self.repo
        _, g = cfg_of(self.ctx, owner)
        stops = g.stmt_nodes(lambda x: isinstance(x, ast.Call) and is_call_to(repo, owner, x, f'{TASKS}.stop') and x.args and dotted(x.args[0]) == pname)
        if not stops or not all(s.in_finally for s in stops):
            return False
        done = {(_tuple_targets(s) + [None])[0] for s in stops}
        rr = g.stmt_nodes(lambda x: isinstance(x, ast.Call) and is_call_to(repo, owner, x, f'{TASKS}.reraise') and x.args and dotted(x.args[0]) in done)
        if not rr:
            return False
        tries = [t for t in walk_no_defs(owner.node) if isinstance(t, ast.Try) and any(s.stmt in list(ast.walk(t)) and True for s in stops)
                 and any(any(c in calls_in(fs) for fs in t.finalbody) for s in stops for c in calls_in(s.stmt))]
        if not tries:
            return False
        first = tries[0].body[0]
        starts = [n for n in g.nodes if n.stmt is first and not n.in_finally and n.kind not in ('branch', 'join')]
        return bool(starts) and not g.escaping_exits(starts, stops, edge_ok=cleanup_is_total) and not g.escaping_exits(stops, rr, classes=('normal',), edge_ok=no_abnormal)

    # ---- escalating done-callback
    def check_callback(self, f: FuncInfo, site: ast.Call, reg: ast.Call, created: ast.AST, label: str) -> None:
        ctx, repo = self.ctx, self.repo
        R = 'R20.7'
        _, g = cfg_of(ctx, f)
        cbx = reg.args[0]
        # the registration follows the creation on every path (the callback may be optional: "None for tests")
        cnodes = [n for n in g.nodes if n.stmt is created and n.kind == 'stmt']
        rnodes = g.stmt_nodes(lambda x: x is reg)
        ek = nonnull_edges(g, dotted(cbx) or '?')
        esc = g.escaping_exits(cnodes, rnodes, classes=('normal',), edge_ok=both(ek, no_abnormal))
        again = [n for n in cnodes if n in g.reach(cnodes, stop=lambda x: x in set(rnodes), edge_ok=both(ek, no_abnormal))]
        ctx.ob(R, f'{f.name}: the done-callback is registered on the {label} task on every path after its creation', bool(cnodes) and bool(rnodes) and not esc and not again,
               loc=f.loc(reg), construct=construct(f, f'own:registered:{label}'))
        # resolve the callback to the nested function of an owner
        owners: list[tuple[FuncInfo, FuncInfo]] = []
        if isinstance(cbx, ast.Attribute):
            base_t = repo.type_of(f, cbx.value)
            for g2, c in self._ctor_sites(base_t):
                if True:
                    if True:
                        v = kwarg(c, cbx.attr)
                        cb = _nested(repo, g2, v.id) if isinstance(v, ast.Name) else None
                        if cb is not None:
                            owners.append((g2, cb))
                        elif v is not None and not (isinstance(v, ast.Constant) and v.value is None):
                            ctx.ob(R, f'{g2.short}: the done-callback given to {base_t.rsplit(".", 1)[-1]} is a function of the owner', False, loc=g2.loc(c),
                                   construct=construct(g2, 'own:callback is nested function'))
        elif isinstance(cbx, ast.Name) and _nested(repo, f, cbx.id) is not None:
            owners.append((f, _nested(repo, f, cbx.id)))
        ctx.ob(R, f'{f.name}: the done-callback of the {label} task resolves to a function of the owning coroutine', bool(owners), loc=f.loc(reg),
               construct=construct(f, f'own:callback-resolves:{label}'), detail=norm(cbx))
        for owner, cb in owners:
            if owner.qualname in self.owner_checked:
                continue
            self.owner_checked.add(owner.qualname)
            self.check_owner(owner, cb)

    def check_owner(self, owner: FuncInfo, cb: FuncInfo) -> None:
        ctx, repo = self.ctx, self.repo
        R = 'R20.7'
        ctx.analysed(cb)
        _, g = cfg_of(ctx, owner)
        cur = _current_task_locals(repo, owner)
        p0 = cb.params()[0].arg if cb.params() else '?'
        w = _nonlocal_writes(cb)
        errs = {k for k, vals in w.items() if any(isinstance(v, ast.Call) and method_call(v, 'exception') is not None and dotted(method_call(v, 'exception')) == p0 for v in vals)}
        cancels = [x for x in calls_in(cb.node) if method_call(x, 'cancel') is not None and dotted(method_call(x, 'cancel')) in cur]
        ctx.ob(R, f'{owner.name}.{cb.name}: a failed streaming task is escalated: its exception is recorded and the owner ({owner.name}) is cancelled', bool(errs) and bool(cancels),
               loc=cb.loc(), construct=construct(cb, 'own:callback escalates'), detail=f'records {sorted(errs)}, cancels {[norm(c) for c in cancels]}')
        # not filtered away: the escalation must happen for every failure (task not cancelled, exception not None)
        # path-sensitive: for a task that failed (not cancelled, exception not None), as the first failure, with the owner's task known, every normal
        # path through the callback passes the cancellation of the owner -- whatever the style (nested ifs or guard clauses); no handler swallows errors
        swallowing = [n for n in walk_no_defs(cb.node) if isinstance(n, ast.Try) and n.handlers]
        _, cg = cfg_of(ctx, cb)

        def val(e):
            """Three-valued truth of a condition under the assumptions (None = unknown)."""
            if isinstance(e, ast.UnaryOp) and isinstance(e.op, ast.Not):
                v = val(e.operand)
                return None if v is None else not v
            if isinstance(e, ast.BoolOp):
                vs = [val(x) for x in e.values]
                if isinstance(e.op, ast.And):
                    return False if False in vs else (True if all(v is True for v in vs) else None)
                return True if True in vs else (False if all(v is False for v in vs) else None)
            if isinstance(e, ast.Call) and method_call(e, 'cancelled') is not None:
                return False                                # the task was not cancelled
            if isinstance(e, ast.Compare) and len(e.ops) == 1 and isinstance(e.comparators[0], ast.Constant) and e.comparators[0].value is None \
                    and isinstance(e.ops[0], (ast.Is, ast.IsNot)):
                left = e.left
                isnone = None
                if isinstance(left, ast.Call) and method_call(left, 'exception') is not None:
                    isnone = False                          # the task did fail
                elif dotted(left) in cur:
                    isnone = False                          # the owner's task is known ("never happens" guards)
                elif dotted(left) in errs:
                    isnone = True                           # it is the first failure
                if isnone is None:
                    return None
                return isnone if isinstance(e.ops[0], ast.Is) else not isnone
            return None

        def assume(test, outcome):
            v = val(test)
            return False if (v is not None and v != outcome) else None
        cnodes = cg.stmt_nodes(lambda x: isinstance(x, ast.Call) and method_call(x, 'cancel') is not None and dotted(method_call(x, 'cancel')) in cur)
        esc = cg.escaping_exits([cg.entry], cnodes, classes=('normal',), edge_ok=cg.pruned(assume))
        ctx.ob(R, f'{owner.name}.{cb.name}: the escalation is not short-circuited: for a failed task every path through the callback cancels the owner, and no '
                  'handler in the callback swallows errors', not esc and bool(cnodes) and not swallowing, loc=cb.loc(), construct=construct(cb, 'own:callback total'))
        # the owner stops everything it created on every exit and re-raises the recorded failure
        stops = g.stmt_nodes(lambda x: isinstance(x, ast.Call) and is_call_to(repo, owner, x, f'{TASKS}.stop'))
        fin_stops = [s for s in stops if s.in_finally]
        tries = [t for t in walk_no_defs(owner.node) if isinstance(t, ast.Try) and any(is_call_to(repo, owner, c, f'{TASKS}.stop') for s in t.finalbody for c in calls_in(s))]
        if not tries or not fin_stops:
            ctx.ob(R, f'{owner.name}: the owned streaming tasks are stopped in a `finally` (on EVERY exit, not only on cancellation)', False, loc=owner.loc(),
                   construct=construct(owner, 'own:stop owned tasks on all exits'),
                   detail='aiotasks.stop(...) of the owned tasks is not in a finally block' + (f' (found in: {[norm(s.stmt, 40) for s in stops]})' if stops else ''))
            return
        first = tries[0].body[0]
        starts = [n for n in g.nodes if n.stmt is first and not n.in_finally and n.kind not in ('branch', 'join')]
        esc = g.escaping_exits(starts, fin_stops, edge_ok=cleanup_is_total)
        ctx.ob(R, f'{owner.name}: the owned streaming tasks are stopped in a `finally` (on EVERY exit, not only on cancellation)', bool(starts) and not esc, loc=owner.loc(),
               construct=construct(owner, 'own:stop owned tasks on all exits'),
               detail='; '.join(f'{e.label} via {witness(g, starts, e, fin_stops, edge_ok=cleanup_is_total)}' for e in esc[:2]))
        # what is stopped is everything the ensemble holds
        for s in fin_stops[:1]:
            call = [c for c in calls_in(s.stmt) if is_call_to(repo, owner, c, f'{TASKS}.stop')][0]
            o = origin(owner, call.args[0]) if call.args else None
            ok = isinstance(o, ast.Call) and method_call(o, 'get_tasks') is not None and o.args and isinstance(o.args[0], ast.Call) and method_call(o.args[0], 'get_keys') is not None
            ctx.ob(R, f'{owner.name}: what is stopped is every task of the ensemble (get_tasks(get_keys()))', ok, loc=owner.loc(call), construct=construct(owner, 'own:stop all of the ensemble'),
                   detail=norm(o))
        # re-raise
        ek = both(nonnull_edges(g, *errs), no_abnormal)
        fins = [n for n in g.nodes if n.kind == 'finally' and n.stmt is tries[0]]
        region = g.reach(fins, edge_ok=ek)
        exits_ok = g.exit_normal not in region and g.exit_cancel not in region and g.exit_exc in region
        raises = [n for n in region if n.kind == 'raise' and n.stmt.exc is not None and (dotted(n.stmt.cause) in errs or dotted(n.stmt.exc) in errs)]
        ctx.ob(R, f'{owner.name}: with a recorded failure of a streaming task, every exit is exceptional: the failure is re-raised (`raise ... from <error>`) after the stop',
               bool(errs) and exits_ok and bool(raises) and all(any(r in g.reach([s], edge_ok=ek) for r in raises) for s in fin_stops if s in region), loc=owner.loc(),
               construct=construct(owner, 'own:re-raise the failure'),
               detail='' if raises else 'no `raise ... from <recorded error>` after the stop')


def check_ownership(ctx: Ctx) -> None:
    repo = ctx.repo
    R = 'R20.7'
    own = Ownership(ctx)
    sites = all_sites(ctx)
    ctx.require_sites(R, 'task creation sites in the package', len(sites), 30)
    ctx.count('task_creation_sites', len(sites))
    classes: dict[str, int] = {}
    n_ess = 0
    ens_fields: set[str] = set()
    for f, c, kind in sorted(sites, key=lambda s: (s[0].qualname, s[1].lineno)):
        ctx.analysed(f)
        coro = coro_of(c)
        ess, why = own.essential(f, coro)
        cls, expl, extra = own.classify(f, c, kind)
        classes[cls] = classes.get(cls, 0) + 1
        key = _coro_key(repo, f, coro)
        observed = cls in ('awaited', 'root-set', 'owned', 'scheduler', 'callback')
        if ess is None and cls in ('returned',):
            ok = True          # a factory: judged at the call sites of the factory (create_guarded_task is itself a creation kind)
        elif ess is None:
            ok = observed or _is_framework_internal(repo, f)
        else:
            ok = observed or not ess
        if ess:
            n_ess += 1
        ctx.ob(R, f'{f.short}: task of `{key}` -- ' + ('ESSENTIAL (reaches a watch stream / the peering keep-alive / is an object worker): its failure must be observed' if ess else
                                                       'coroutine not statically known' if ess is None else 'not an essential task') + f'; observed as: {cls} ({expl})',
               ok, loc=f.loc(c), construct=construct(f, f'own:{key}'), detail='' if ok else f'{why}; the task is {expl}: nothing awaits it or reacts to its failure',
               nontrivial=bool(ess) or ess is None)
        if cls == 'callback' and extra is not None and (ess or ess is None):
            reg, created = extra
            if dotted(reg.args[0]) and dotted(reg.args[0]).startswith('self.'):
                continue       # the scheduler's own callback: R20.6
            own.check_callback(f, c, reg, created, key.rsplit('.', 1)[-1])
        if cls == 'scheduler' and ess:
            pass
    ctx.count('essential_task_sites', n_ess)
    for k, v in sorted(classes.items()):
        ctx.count(f'own_{k}', v)
    ctx.require_sites(R, 'essential task creation sites (watch streams, keep-alive, workers, their supervisors)', n_ess, 7)
    ctx.require_sites(R, 'owners with an escalating done-callback (orchestrator)', len(own.owner_checked), 1)


def _is_framework_internal(repo, f: FuncInfo) -> bool:
    """Creation sites whose coroutine is a parameter of a kit primitive (aiotasks/aioenums): the primitive is judged where it is used."""
    return f.module.name.startswith('kopf._cogs.aiokits.')


def check(ctx: Ctx) -> None:
    check_roots(ctx)
    check_startup_cleanup(ctx)
    check_run_tasks(ctx)
    check_daemon_killer(ctx)
    check_keepalive(ctx, 'R20.5')
    check_worker_escalation(ctx)
    check_ownership(ctx)
    from . import _extra
    _extra.check_activity_accumulates(ctx, 'R20.8')
    from . import _stoppers
    _stoppers.check_iteration_snapshots(ctx, 'R20.9')


SPEC = PropSpec(
    id='C20',
    title='Operator lifecycle: startup first, fail-fast, cleanup last, bounded exit',
    technique='static analysis: constant keyword facts + call-graph reachability of the root coroutines (CONFIG+REACH), dominance and abnormal-edge reachability on '
              'the statement CFG with cancellation/exception edges (DOM, ORDER, ALLEXITS), package-wide classification of every task-creation site by who observes '
              'its failure (OWN)',
    level_text='Static analysis of the current source: decides (R20.1) that every root task of running.spawn_tasks is either gated by the started flag or cannot reach '
               'the Kubernetes API client through the over-approximate call graph, and that aiotasks.guard awaits the coroutine only after the flag; (R20.2) that the '
               'started/ready flags are set only after a normally completed STARTUP activity; (R20.3) that CLEANUP is dominated by the wait for all other root tasks and '
               'the stop of the core tasks, vault.close() after it; (R20.4) the shutdown sequence of run_tasks incl. both cancellation arms and the re-raise set; '
               '(R20.5) that daemon_killer and keepalive run their exit actions on every exit; (R20.6) that a worker failure cancels its watcher and is re-raised as '
               'RuntimeError from it; (R20.7) that every task that reaches a watch stream or the keep-alive is awaited / in the root set / under an escalating '
               'scheduler / under an escalating done-callback whose owner stops everything in a finally and re-raises. Bounded exit TIME is not decided.',
    level_note='call graph: typed receivers exact, untyped receivers by method name, functions passed by name included (over-approximate); a failing clean-up statement '
               'inside a finally (and a double cancellation) is outside the ALLEXITS clauses; asyncio semantics trusted; DESIGN.md §3',
    design_ref='DESIGN.md §4 C20, Appendix B',
    explanation='CONFIG+REACH over the 16 root creation sites of spawn_tasks; DOM/abnormal-edge reachability on startup_cleanup_activities and aiotasks.guard; ORDER/'
                'ALLEXITS on run_tasks, daemon_killer, keepalive; DOM on queueing.watcher + Scheduler callbacks; OWN over all 35 task-creation sites of the package.',
    not_decided='bounded exit time (grace periods are runtime values); that cleanup handlers themselves succeed; behaviour of user-supplied `_command` coroutines.',
    check=check,
)
