"""Extension rule set "tasks": helper functions of the daemon engine, the asyncio kits and the operator's run loop that the properties
C09, C10, C20 and C01 depend on but that no rule instance of the property modules examines (DESIGN.md §8, first seeded round: "the change sat
in a helper the design had not given a rule of its own").

C09  R9.20 match_daemons            selection "handler id not among the matching handlers", reason FILTERS_MISMATCH, nothing else touched
     R9.21 _wait_for_instant_exit   every wait is bounded (timeout / counted zero-time cycles); never cancels, sets, raises
     R9.22 spawn_daemons            per-handler fresh stopper; record/runner get the loop's handler, the object's memory, the cause built here;
                                    every selected handler is visited
     R9.23 delays flow              the delays of stop_daemons reach the caller through match_daemons / pause_daemons / process_spawning_cause
     R9.24 daemon_killer (loop)     the pausing loop suspends on wait_for(False) in every cycle, the bounded wait's TimeoutError is swallowed,
                                    the pausing stop gets the sweep's daemon through the awaited scheduler.spawn
     R9.25 FlagSetter.is_set        formula `event set and (reason is None or (self.reason is not None and reason in self.reason))`; initial state
     R9.26 DaemonStoppingReason     an enum.Flag of distinct single-bit members (no aliases), all stages/reasons present
     R9.27 aiotime.sleep            (= R10.20) the stopper's event interrupts the sleep
     R9.28 Scheduler.close/wait/empty (= R20.25) the killer's `wait()` really waits for every stopper
C10  R10.20 aiotime.sleep           sleeps min(non-None delays); nothing/non-positive => no sleep; None when slept in full, remaining time when woken
     (R9.28/R20.25/R1.20 also: spawn() queues nothing once closed; the spawner cancels what it starts after the close)
C20  R20.20 aiotasks.stop           cancels all, loops until none is pending, accumulates the done set, re-raises its own cancellation, flags log-only
     R20.21 aiotasks.wait           empty => two empty sets without asyncio.wait; else timeout/return_when forwarded, (done, pending) in order
     R20.22 aiotasks.all_tasks      all tasks of the loop except the current one and the ignored ones
     R20.23 aiotasks.guard          every handler re-raises; finishable/cancellable/logger only steer the log; create_guarded_task returns the task
     R20.24 aiotasks.reraise        result() of every task, only cancellations swallowed
     R20.25 Scheduler.close/wait/empty  closed flag first, every running task cancelled, wait for emptiness before stopping the meta-tasks
     R20.26 Scheduler._task_cleaner/_task_done_callback  slot freed + queued for cleaning first; failure -> handler, cancellation -> nothing;
                                    the cleaner survives any outcome of the awaited task and notifies in every cycle
     R20.27 running.run/operator    every argument forwarded, only the cancellation swallowed, tasks snapshot before spawning
     R20.28 ultimate_termination/stop_flag_checker  SIGKILL timer iff cancelled, not stopped by flag, timeout is not None; first of the flags
     R20.29 startup_cleanup_activities/authenticator/authenticate  the cancelled idle wait leads to the cleanup; vault populated on every outcome
     R20.30 run_activity            handlers of the activity, loop until done on the re-bound state, failure raised iff any outcome has an exception
C01  R1.20 (= R20.25)  R1.21 (= R20.26)  the scheduler frees the slot of a finished worker and wakes the spawner/closer
"""
from __future__ import annotations

import ast
import re
from typing import Iterable, Optional

from .. import absint
from ..core import Ctx
from ..rules import (calls_in, cfg_of, cond_implies, construct, dominating_conditions, is_call_to, kwarg, loop_nodes, method_call, norm,
                     origin, suspensions_from, table_check, witness)
from ..srcmodel import AnalysisError, FuncInfo, dotted, src, walk_no_defs

D = 'kopf._core.engines.daemons'
P = 'kopf._core.reactor.processing'
TASKS = 'kopf._cogs.aiokits.aiotasks'
RUN = 'kopf._core.reactor.running'
ACT = 'kopf._core.engines.activities'
DAEMON_CLS = f'{D}.Daemon'
MEMORY_CLS = f'{D}.DaemonsMemory'
REASON = 'DaemonStoppingReason'


# ====================================================================================================== small helpers
def _unwrap(e: Optional[ast.AST]) -> Optional[ast.AST]:
    """The iterable behind a snapshot/copy: `list(x)`, `tuple(x)`, `set(x)`, `sorted(x)` iterate the elements of `x`."""
    while isinstance(e, ast.Call) and dotted(e.func) in ('list', 'tuple', 'set', 'frozenset', 'sorted') and len(e.args) == 1 and not e.keywords:
        e = e.args[0]
    return e


def _derives_from(f: FuncInfo, e: Optional[ast.AST], names: set, depth: int = 3) -> bool:
    """Does the expression mention one of the names, directly or through single-assignment locals?"""
    if e is None:
        return False
    for x in ast.walk(e):
        if isinstance(x, ast.Name) and isinstance(x.ctx, ast.Load):
            if x.id in names:
                return True
            if depth > 0:
                o = origin(f, x, 1)
                if o is not x and _derives_from(f, o, names, depth - 1):
                    return True
    return False


def _contains(tree: ast.AST, node: ast.AST) -> bool:
    return any(n is node for n in ast.walk(tree))


def _is_registry(repo, f: FuncInfo, e: ast.AST) -> bool:
    if not isinstance(e, (ast.Name, ast.Attribute)):
        return False
    try:
        return repo._value_type_of_container(f, e, repo.local_types(f)) == DAEMON_CLS
    except Exception:   # an untypable expression is simply not a registry
        return False


def _registry_param(repo, f: FuncInfo) -> str:
    hits = [a.arg for a in f.params() if _is_registry(repo, f, ast.Name(id=a.arg, ctx=ast.Load()))]
    if len(hits) != 1:
        raise AnalysisError(f'{f.loc()}: {f.short}: expected exactly one daemon-registry parameter (dict[HandlerId, Daemon]), found {hits}')
    return hits[0]


def _param_typed(repo, f: FuncInfo, cls: str) -> Optional[str]:
    hits = [a.arg for a in f.params() if repo.ann_class(f.module, a.annotation) == cls]
    return hits[0] if len(hits) == 1 else None


def _handlers_param(repo, f: FuncInfo) -> str:
    """The parameter holding the selected spawning handlers (a collection whose declared element type is a handler class)."""
    hits = []
    for a in f.params():
        try:
            t = repo._value_type_of_container(f, ast.Name(id=a.arg, ctx=ast.Load()), repo.local_types(f))
        except Exception:
            t = None
        if t and t.startswith('kopf._core.intents.handlers.'):
            hits.append(a.arg)
    if len(hits) != 1:
        raise AnalysisError(f'{f.loc()}: {f.short}: expected exactly one parameter holding handlers, found {hits}')
    return hits[0]


def _has_param(f: FuncInfo, name: str) -> str:
    if not any(a.arg == name for a in f.params()):
        raise AnalysisError(f'{f.loc()}: {f.short} has no parameter `{name}`')
    return name


def _atoms_of(test: ast.AST, outcome: bool) -> Optional[list[tuple[ast.AST, bool]]]:
    """The atomic facts that (test == outcome) is the *conjunction* of; None if it is not a conjunction (a disjunction weakens it).
    `not` is pushed inwards, `x is not y`/`!=`/`not in` are given as the positive comparison with the outcome flipped."""
    if isinstance(test, ast.UnaryOp) and isinstance(test.op, ast.Not):
        return _atoms_of(test.operand, not outcome)
    if isinstance(test, ast.Call) and dotted(test.func) == 'bool' and len(test.args) == 1 and not test.keywords:
        return _atoms_of(test.args[0], outcome)
    if isinstance(test, ast.BoolOp):
        if (isinstance(test.op, ast.And) and outcome) or (isinstance(test.op, ast.Or) and not outcome):
            out: list[tuple[ast.AST, bool]] = []
            for v in test.values:
                sub = _atoms_of(v, outcome)
                if sub is None:
                    return None
                out.extend(sub)
            return out
        return None
    if isinstance(test, ast.Compare) and len(test.ops) == 1 and isinstance(test.ops[0], (ast.IsNot, ast.NotEq, ast.NotIn)):
        flipped = {ast.IsNot: ast.Is, ast.NotEq: ast.Eq, ast.NotIn: ast.In}[type(test.ops[0])]()
        return [(ast.Compare(test.left, [flipped], test.comparators), not outcome)]
    return [(test, outcome)]


def _named(f: FuncInfo, e: ast.AST) -> ast.AST:
    """A condition named into a single-assignment local is looked through."""
    if isinstance(e, ast.Name):
        o = origin(f, e, 1)
        if o is not e and isinstance(o, (ast.BoolOp, ast.UnaryOp, ast.Compare, ast.Call)):
            return o
    return e


def _cond_atoms(f: FuncInfo, test: ast.AST, outcome: bool) -> Optional[list[tuple[ast.AST, bool]]]:
    at = _atoms_of(_named(f, test), outcome)
    if at is None:
        return None
    out: list[tuple[ast.AST, bool]] = []
    for e, o in at:
        e2 = _named(f, e)
        if e2 is not e:
            sub = _cond_atoms(f, e2, o)
            if sub is None:
                return None
            out.extend(sub)
        else:
            out.append((e, o))
    return out


def _is_none_test(e: ast.AST, o: bool) -> Optional[tuple[str, bool]]:
    """(source of x, x-is-None) for the atomic fact `x is None` == o."""
    if isinstance(e, ast.Compare) and len(e.ops) == 1 and isinstance(e.ops[0], ast.Is) and isinstance(e.comparators[0], ast.Constant) \
            and e.comparators[0].value is None:
        return src(e.left, 200), o
    return None


def _conds_inside(g, node, inside: set, f: Optional[FuncInfo] = None) -> list[tuple[ast.AST, bool]]:
    """Conditions (as atomic facts when ``f`` is given) under which a node of a loop body runs, counted from the loop head."""
    out: list[tuple[ast.AST, bool]] = []
    for t, o, b in dominating_conditions(g, node):
        if b not in inside or t is None or isinstance(b.stmt, (ast.For, ast.AsyncFor)):
            continue
        if f is None:
            out.append((t, o))
        else:
            out.extend(_cond_atoms(f, t, o) or [(t, o)])
    return out


def _reraises(h: ast.ExceptHandler) -> bool:
    """The handler ends with a bare `raise` and has no other way out."""
    last = h.body[-1] if h.body else None
    esc = [n for s in h.body for n in walk_no_defs(s) if isinstance(n, (ast.Return, ast.Break, ast.Continue))]
    return isinstance(last, ast.Raise) and last.exc is None and not esc


def _handler_classes(repo, f: FuncInfo, h: ast.ExceptHandler) -> list[str]:
    if h.type is None:
        return ['BaseException']
    elts = h.type.elts if isinstance(h.type, ast.Tuple) else [h.type]
    return [repo.resolve(f.module, e) or src(e) for e in elts]


def _is_cancel_class(c: str) -> bool:
    return c in ('asyncio.CancelledError', 'asyncio.exceptions.CancelledError', 'concurrent.futures.CancelledError')


def _log_only(f: FuncInfo, names: Iterable[str]) -> list[str]:
    """Uses of the named parameters that can influence anything but the log: they may only occur in `if` tests whose arms consist of
    logger calls and assignments of message fragments, or in conditional expressions choosing between string constants."""
    names = set(names)
    bad: list[str] = []
    parent = f.module.parent

    def log_stmt(s: ast.AST) -> bool:
        if isinstance(s, ast.Pass):
            return True
        if isinstance(s, ast.Expr) and isinstance(s.value, ast.Call) and isinstance(s.value.func, ast.Attribute) \
                and (dotted(s.value.func.value) or '').split('.')[-1] in ('logger', 'logging', 'warnings'):
            return True
        if isinstance(s, ast.Assign) and all(isinstance(t, ast.Name) for t in s.targets):
            return text_expr(s.value)
        if isinstance(s, ast.If):
            return all(log_stmt(x) for x in s.body + s.orelse)
        return False

    def text_expr(e: ast.AST) -> bool:
        if isinstance(e, ast.Constant) and isinstance(e.value, str):
            return True
        if isinstance(e, ast.JoinedStr):
            return True
        if isinstance(e, ast.IfExp):
            return text_expr(e.body) and text_expr(e.orelse)
        return False
    for n in walk_no_defs(f.node):
        if not (isinstance(n, ast.Name) and n.id in names and isinstance(n.ctx, ast.Load)):
            continue
        cur: ast.AST = n
        ok = False
        stmt = n
        while stmt is not None and not isinstance(stmt, ast.stmt):
            stmt = parent.get(stmt)
        if stmt is not None and not isinstance(stmt, ast.If) and log_stmt(stmt):
            continue
        while cur is not None and cur is not f.node:
            par = parent.get(cur)
            if isinstance(par, ast.IfExp) and cur is par.test:
                ok = text_expr(par)
                break
            if isinstance(par, ast.If) and cur is par.test:
                ok = all(log_stmt(x) for x in par.body + par.orelse)
                break
            if isinstance(par, ast.stmt):
                break
            cur = par
        if not ok:
            bad.append(f'L{n.lineno}: `{norm(f.module.parent.get(n) if not isinstance(f.module.parent.get(n), ast.stmt) else n, 60)}`')
    return bad


def _ret_truth(p: absint.Path) -> Optional[bool]:
    """Truth value of what a path returns (a boolean, or a value whose truthiness the path has decided)."""
    v = p.retval
    if v is None:
        return None
    if v.kind in ('bool', 'const'):
        return bool(v.data)
    return p.atoms.get(f'truthy({v.key})')


def _leaves(v: absint.V) -> set:
    """Keys of the values a concatenation / copy of collections is built from."""
    if v.kind == 'coll' and isinstance(v.data, tuple) and len(v.data) == 2 and v.data[0] in ('concat', 'alias', 'display'):
        out: set = set()
        for x in v.data[1]:
            out |= _leaves(x)
        return out
    return {v.key.lstrip('*')}


def no_abnormal(a, b) -> bool:
    """Edge filter: follow normal control flow only (an explicit raise follows its own edge)."""
    return a.kind == 'raise' or b not in a.exc_edges.values() or len(a.succ) == 1


# ====================================================================================================== C09
def check_match_daemons(ctx: Ctx, rule: str) -> None:
    repo = ctx.repo
    f, g = cfg_of(ctx, f'{D}.match_daemons')
    reg = _registry_param(repo, f)
    hnd = _handlers_param(repo, f)
    stops = [c for c in calls_in(f.node) if is_call_to(repo, f, c, f'{D}.stop_daemons')]
    ctx.require_sites(rule, 'match_daemons: stop_daemons call', len(stops), 1, f.loc())
    if len(stops) != 1:
        return
    call = stops[0]
    r = kwarg(call, 'reason')
    ctx.ob(rule, 'match_daemons: the daemons that stopped matching are asked to stop with the reason FILTERS_MISMATCH (a resumable stop: the runner does '
           'not record them as "exited on their own")', r is not None and (repo.resolve(f.module, r) or '').endswith(f'{REASON}.FILTERS_MISMATCH'),
           loc=f.loc(call), construct=construct(f, 'config:stop_daemons(reason=FILTERS_MISMATCH)'), detail=f'reason={norm(r)}')
    sel = kwarg(call, 'daemons')
    shape = _selection(ctx, f, g, sel)
    what = ('match_daemons: exactly the daemons of the registry whose handler id is not among the ids of the currently matching handlers are stopped '
            '(the others are left untouched)')
    if shape is None:
        ctx.ob(rule, what, False, loc=f.loc(call), construct=construct(f, 'formula:mismatching selection'),
               detail=f'daemons={norm(origin(f, sel) if sel is not None else None, 100)} is not a filtered view of the registry (comprehension or fill loop)')
    else:
        source, dvar, value, conds = shape
        problems = []
        it = _unwrap(source)
        if not (isinstance(it, ast.Call) and method_call(it, 'values') is not None and dotted(method_call(it, 'values')) == reg and not it.args):
            problems.append(f'iterates `{norm(it, 60)}`, not `{reg}.values()`')
        if not (isinstance(value, ast.Name) and value.id == dvar):
            problems.append(f'selects `{norm(value, 40)}`, not the daemon `{dvar}` itself')
        if conds is None:
            problems.append('the filter is not a conjunction of tests')
        else:
            member = [(e, o) for e, o in conds if isinstance(e, ast.Compare) and isinstance(e.ops[0], ast.In)]
            others = [(e, o) for e, o in conds if (e, o) not in member]
            if others:
                problems.append('extra condition(s) narrow or widen the selection: ' + '; '.join(norm(e, 50) for e, _ in others))
            if len(member) != 1:
                problems.append(f'{len(member)} membership tests (expected exactly one: `<daemon>.handler.id not in <matching ids>`)')
            for e, o in member[:1]:
                left_ok = src(e.left) == f'{dvar}.handler.id'
                ids = origin(f, e.comparators[0])
                if isinstance(ids, ast.Call) and dotted(ids.func) in ('set', 'frozenset', 'list', 'tuple') and len(ids.args) == 1:
                    ids = ids.args[0]
                ids_ok = isinstance(ids, (ast.SetComp, ast.ListComp, ast.GeneratorExp)) and len(ids.generators) == 1 and not ids.generators[0].ifs \
                    and dotted(_unwrap(ids.generators[0].iter)) == hnd and isinstance(ids.generators[0].target, ast.Name) \
                    and src(ids.elt) == f'{ids.generators[0].target.id}.id'
                if o is not False:
                    problems.append('the daemons whose handler IS among the matching ones are selected')
                if not left_ok:
                    problems.append(f'the tested key is `{norm(e.left, 40)}`, not `{dvar}.handler.id`')
                if not ids_ok:
                    problems.append(f'the matching ids are `{norm(ids, 70)}`, not the unfiltered ids of `{hnd}`')
        ctx.ob(rule, what, not problems, loc=f.loc(call), construct=construct(f, 'formula:mismatching selection'), detail=' | '.join(problems))
    # nothing else is touched here: no cancellation, no flag, no registry mutation (the runner frees its own slot)
    touch = [c for c in calls_in(f.node) if isinstance(c.func, ast.Attribute) and c.func.attr in ('cancel', 'set', 'pop', 'clear', 'popitem')
             and c is not call] + [n for n in walk_no_defs(f.node) if isinstance(n, ast.Delete)]
    ctx.ob(rule, 'match_daemons: does nothing to the daemons but delegate to stop_daemons (no cancellation, flag or registry write of its own)', not touch,
           loc=f.loc(touch[0]) if touch else f.loc(), construct=construct(f, 'confine:only stop_daemons'), detail='; '.join(norm(t, 50) for t in touch[:3]))
    fwd = kwarg(call, 'settings')
    ctx.ob(rule, 'match_daemons: the operator settings (instant-exit and polling periods) are forwarded', isinstance(fwd, ast.Name) and fwd.id == 'settings'
           and any(a.arg == 'settings' for a in f.params()), loc=f.loc(call), construct=construct(f, 'config:stop_daemons(settings=)'))


def _selection(ctx: Ctx, f: FuncInfo, g, e: Optional[ast.AST]):
    """(iterated source, daemon variable, selected value, [(atom, outcome)] | None) of a filtered view: a comprehension, or a container filled in one loop."""
    if e is None:
        return None
    o = origin(f, e)
    if isinstance(o, ast.Call) and dotted(o.func) in ('dict', 'list', 'set', 'tuple') and len(o.args) == 1 and not o.keywords:
        o = o.args[0]
    if isinstance(o, (ast.DictComp, ast.ListComp, ast.SetComp, ast.GeneratorExp)) and len(o.generators) == 1 and not o.generators[0].is_async:
        gen = o.generators[0]
        if not isinstance(gen.target, ast.Name):
            return None
        conds: Optional[list] = []
        for c in gen.ifs:
            sub = _cond_atoms(f, c, True)
            if sub is None:
                conds = None
                break
            conds.extend(sub)
        value = o.value if isinstance(o, ast.DictComp) else o.elt
        if not isinstance(o, ast.DictComp) and isinstance(value, ast.Tuple) and len(value.elts) == 2:
            value = value.elts[1]           # dict((key, value) for ...)
        return gen.iter, gen.target.id, value, conds
    if isinstance(e, ast.Name):
        # filled in a loop: `<name>[k] = v` / `<name>.append(v)` / `<name>.add(v)`
        fills = g.stmt_nodes(lambda x: (isinstance(x, ast.Assign) and any(isinstance(t, ast.Subscript) and dotted(t.value) == e.id for t in x.targets))
                             or (isinstance(x, ast.Call) and isinstance(x.func, ast.Attribute) and x.func.attr in ('append', 'add') and dotted(x.func.value) == e.id))
        if len(fills) != 1:
            return None
        n = fills[0]
        loops = [fr.stmt for fr in n.frames if fr.kind == 'loop' and isinstance(fr.stmt, ast.For)]
        if len(loops) != 1 or not isinstance(loops[0].target, ast.Name):
            return None
        lp = loops[0]
        inside = loop_nodes(g, lp)
        conds = []
        for t, oc in _conds_inside(g, n, inside):
            if isinstance(t, ast.For) or t is None:
                continue
            sub = _cond_atoms(f, t, oc)
            if sub is None:
                conds = None
                break
            conds.extend(sub)
        st = n.stmt
        value = st.value if isinstance(st, ast.Assign) else [c for c in calls_in(st) if isinstance(c.func, ast.Attribute) and c.func.attr in ('append', 'add')][0].args[0]
        return lp.iter, lp.target.id, value, conds
    return None


def check_instant_exit(ctx: Ctx, rule: str) -> None:
    repo = ctx.repo
    f, g = cfg_of(ctx, f'{D}._wait_for_instant_exit')
    dmn = _param_typed(repo, f, DAEMON_CLS)
    if dmn is None:
        raise AnalysisError(f'{f.loc()}: _wait_for_instant_exit has no Daemon parameter')
    susp = [n for n in g.nodes if n.suspends and n.kind not in ('exit',)]
    ctx.require_sites(rule, '_wait_for_instant_exit: waiting sites', len(susp), 2, f.loc())
    for n in susp:
        aw = [x for e in g.own_exprs(n) for x in walk_no_defs(e) if isinstance(x, ast.Await)]
        ok, why = bool(aw), ''
        for a in aw:
            c = a.value
            if isinstance(c, ast.Call) and is_call_to(repo, f, c, f'{TASKS}.wait'):
                t = kwarg(c, 'timeout')
                arg = c.args[0] if c.args else None
                on_task = isinstance(arg, (ast.List, ast.Set, ast.Tuple)) and len(arg.elts) == 1 and src(arg.elts[0]) == f'{dmn}.task'
                none_tested = t is not None and any(
                    cond_implies(tt, oo, lambda e, o, _t=t: _is_none_test(e, o) == (src(_t, 200), False)) for tt, oo, _ in dominating_conditions(g, n))
                bounded = t is not None and (none_tested or (isinstance(t, ast.Constant) and isinstance(t.value, (int, float)) and not isinstance(t.value, bool)))
                if not (on_task and bounded):
                    ok, why = False, f'`{norm(c, 70)}`: ' + ('not a wait on the daemon\'s task' if not on_task else 'no timeout that is known to be set (is not None)')
            elif isinstance(c, ast.Call) and (repo.resolve(f.module, c.func) or '') == 'asyncio.sleep':
                zero = len(c.args) == 1 and isinstance(c.args[0], ast.Constant) and c.args[0].value == 0
                counted = any(fr.kind == 'loop' and isinstance(fr.stmt, ast.For) and isinstance(fr.stmt.iter, ast.Call) and dotted(fr.stmt.iter.func) == 'range'
                              for fr in n.frames)
                unbounded = any(fr.kind == 'loop' and isinstance(fr.stmt, ast.While) for fr in n.frames)
                if not (zero and counted and not unbounded):
                    ok, why = False, f'`{norm(c, 50)}` is not a zero-time cycle of a counted loop'
            else:
                ok, why = False, f'`{norm(a, 60)}` waits without a bound'
        ctx.ob(rule, '_wait_for_instant_exit: the wait for a daemon\'s "instant" exit is bounded -- a timed wait on the daemon\'s task or a counted number of '
               'zero-time cycles -- so that stopping never stalls the processing of the object', ok, loc=f.loc(n.stmt),
               construct=construct(f, f'bounded:{n.kind}:{norm(aw[0].value.func if aw and isinstance(aw[0].value, ast.Call) else None, 40)}'), detail=why)
    whiles = [n for n in walk_no_defs(f.node) if isinstance(n, ast.While)]
    side = [c for c in calls_in(f.node) if isinstance(c.func, ast.Attribute) and c.func.attr in ('cancel', 'set')] + \
           [n for n in walk_no_defs(f.node) if isinstance(n, ast.Raise)]
    ctx.ob(rule, '_wait_for_instant_exit: only waits -- no open-ended loop, no cancellation, no flag, no exception of its own (the staged termination '
           'around it decides all of that)', not whiles and not side, loc=f.loc((whiles + side)[0]) if whiles or side else f.loc(),
           construct=construct(f, 'confine:waits only'), detail='; '.join(norm(x, 50) for x in (whiles + side)[:3]))


def check_spawn_extras(ctx: Ctx, rule: str) -> None:
    repo = ctx.repo
    f, g = cfg_of(ctx, f'{D}.spawn_daemons')
    hnd = _handlers_param(repo, f)
    mem = _param_typed(repo, f, MEMORY_CLS)
    if mem is None:
        raise AnalysisError(f'{f.loc()}: spawn_daemons has no DaemonsMemory parameter')
    runners = [c for c in ast.walk(f.node) if isinstance(c, ast.Call) and is_call_to(repo, f, c, f'{D}._runner')]
    records = [c for c in ast.walk(f.node) if isinstance(c, ast.Call) and DAEMON_CLS in repo.callee_names(f, c)]
    ctx.require_sites(rule, 'spawn_daemons: runner coroutine', len(runners), 1, f.loc())
    ctx.require_sites(rule, 'spawn_daemons: Daemon record', len(records), 1, f.loc())
    loops = [n for n in walk_no_defs(f.node) if isinstance(n, ast.For) and any(_contains(n, c) for c in runners)]
    ctx.require_sites(rule, 'spawn_daemons: loop over the selected handlers', len(loops), 1, f.loc())
    if not (runners and records and loops):
        return
    lp = loops[-1]
    hv = lp.target.id if isinstance(lp.target, ast.Name) else None
    ctx.ob(rule, 'spawn_daemons: every selected handler is visited -- the loop runs over the handlers it was given and is never left early '
           '(each matching daemon/timer gets its instance)', dotted(_unwrap(lp.iter)) == hnd and hv is not None
           and not [n for s in lp.body for n in walk_no_defs(s) if isinstance(n, (ast.Break, ast.Return))],
           loc=f.loc(lp), construct=construct(f, 'flow:all handlers visited'),
           detail='; '.join(f'L{n.lineno} {type(n).__name__.lower()}' for s in lp.body for n in walk_no_defs(s) if isinstance(n, (ast.Break, ast.Return)))
           or f'iterates `{norm(lp.iter, 40)}`')
    for rec in records:
        st = kwarg(rec, 'stopper')
        o = origin(f, st) if st is not None else None
        fresh = isinstance(o, ast.Call) and not o.args and not o.keywords and \
            (repo.resolve(f.module, o.func) or src(o.func)).rsplit('.', 1)[-1] in ('DaemonStopper', 'FlagSetter')
        per_handler = fresh and _contains(lp, o)
        ctx.ob(rule, 'spawn_daemons: each instance gets a stop flag of its own, created for this handler inside the loop (stopping one daemon of an '
               'object -- filters mismatch -- must not stop its siblings; a respawned instance must not inherit a raised flag)', per_handler,
               loc=f.loc(rec), construct=construct(f, 'config:fresh stopper per handler'), detail=f'stopper={norm(o, 60)}' + ('' if not fresh or per_handler else ' is created outside the loop'))
        h = kwarg(rec, 'handler')
        ctx.ob(rule, 'spawn_daemons: the Daemon record carries the handler it was spawned for (match_daemons and the staged termination read `daemon.handler`)',
               isinstance(h, ast.Name) and h.id == hv, loc=f.loc(rec), construct=construct(f, 'config:Daemon(handler=<loop handler>)'), detail=f'handler={norm(h)}')
    for c in runners:
        h, m, cs, ss = kwarg(c, 'handler'), kwarg(c, 'memory'), kwarg(c, 'cause'), kwarg(c, 'settings')
        ctx.ob(rule, 'spawn_daemons: the runner guards the handler of this iteration', isinstance(h, ast.Name) and h.id == hv, loc=f.loc(c),
               construct=construct(f, 'config:_runner(handler=<loop handler>)'), detail=f'handler={norm(h)}')
        ctx.ob(rule, 'spawn_daemons: the runner receives the object\'s own daemons memory (it records "exited on its own" in its forever_stopped set, which '
               'the next handler selection excludes; the timer reads its idle_reset_time)', isinstance(m, ast.Name) and m.id == mem, loc=f.loc(c),
               construct=construct(f, 'config:_runner(memory=<the memory>)'), detail=f'memory={norm(m)}')
        co = origin(f, cs) if cs is not None else None
        built_here = isinstance(co, ast.Call) and any(n.endswith('causes.DaemonCause') for n in repo.callee_names(f, co)) and _contains(lp, co)
        ctx.ob(rule, 'spawn_daemons: the runner works on the DaemonCause built for this handler in this iteration (whose stopper is the record\'s)', built_here,
               loc=f.loc(c), construct=construct(f, 'config:_runner(cause=<cause built here>)'), detail=f'cause={norm(co, 60)}')
        ctx.ob(rule, 'spawn_daemons: the operator settings are forwarded to the runner', isinstance(ss, ast.Name) and ss.id == 'settings', loc=f.loc(c),
               construct=construct(f, 'config:_runner(settings=)'))


def check_delays_flow(ctx: Ctx, rule: str) -> None:
    """The delays computed by stop_daemons schedule the next stage of the termination: they must reach process_resource_event."""
    repo = ctx.repo

    def eff(it, p, call, names):
        for n in names:
            if n.startswith(D + '.') and n.rsplit('.', 1)[-1] in ('stop_daemons', 'spawn_daemons', 'match_daemons', 'pause_daemons'):
                return 'd:' + n.rsplit('.', 1)[-1]
        return None
    for ref in (f'{D}.match_daemons', f'{D}.pause_daemons'):
        f = repo.fn(ref)
        ctx.analysed(f)
        paths = absint.analyse(repo, f, absint.Config(effect=eff, record_writes=False))
        bad = []
        n_stop = 0
        for p in paths:
            st = p.effects('d:stop_daemons')
            if p.status != 'return' or p.retval is None:
                bad.append(f'a path ends with {p.status}')
            elif st:
                n_stop += 1
                if len(st) != 1 or p.retval.key != st[0].key:
                    bad.append(f'returns `{p.retval.key[:50]}` although stop_daemons was called')
        ctx.count('paths', len(paths))
        ctx.ob(rule, f'{f.name}: whenever daemons were asked to stop, the delays computed by stop_daemons are returned unchanged (they schedule the next '
               'stage: cancellation after the backoff, abandonment after the timeout)', not bad and n_stop >= 1, loc=f.loc(),
               construct=construct(f, 'flow:return stop_daemons delays'), detail='; '.join(dict.fromkeys(bad)))
    f = repo.fn(f'{P}.process_spawning_cause')
    ctx.analysed(f)
    paths = absint.analyse(repo, f, absint.Config(effect=eff, record_writes=False))
    bad = []
    rows = set()
    for p in paths:
        effs = p.effects('d:')
        if p.status != 'return' or p.retval is None:
            bad.append(f'a path ends with {p.status}')
            continue
        rows.add(tuple(e.label for e in effs))
        got = _leaves(p.retval)
        miss = [e.label[2:] for e in effs if e.key not in got and e.key not in p.retval.key]
        if miss:
            bad.append(f'the delays of {", ".join(miss)} are dropped from the returned `{p.retval.key[:60]}`')
    ctx.count('paths', len(paths))
    ctx.ob(rule, 'process_spawning_cause: the delays of every daemon routine it awaited (stop / spawn / match / pause) are part of what it returns '
           '(else a termination that needs another stage is never looked at again)', not bad and len(rows) >= 2, loc=f.loc(),
           construct=construct(f, 'flow:all daemon delays returned'), detail='; '.join(dict.fromkeys(bad)))


def check_killer_pausing(ctx: Ctx, rule: str) -> None:
    repo = ctx.repo
    f, g = cfg_of(ctx, f'{D}.daemon_killer')
    tog = _param_typed(repo, f, 'kopf._cogs.aiokits.aiotoggles.ToggleSet')
    if tog is None:
        raise AnalysisError(f'{f.loc()}: daemon_killer has no ToggleSet parameter')

    def is_on(e: ast.AST) -> bool:
        return any(method_call(c, 'is_on') is not None and dotted(method_call(c, 'is_on')) == tog for c in calls_in(e))
    loops = [n for n in walk_no_defs(f.node) if isinstance(n, ast.While) and is_on(n.test)]
    ctx.require_sites(rule, 'daemon_killer: the loop that runs while the operator is paused', len(loops), 1, f.loc())

    def wait_for(x: ast.AST, val: bool) -> bool:
        return isinstance(x, ast.Call) and method_call(x, 'wait_for') is not None and dotted(method_call(x, 'wait_for')) == tog and len(x.args) == 1 \
            and isinstance(x.args[0], ast.Constant) and x.args[0].value is val and isinstance(f.module.parent.get(x), ast.Await)
    for lp in loops:
        inside = loop_nodes(g, lp)
        heads = [n for n in g.nodes if n.kind == 'loop' and n.stmt is lp]
        w = [n for n in g.stmt_nodes(lambda x: wait_for(x, False)) if n in inside]

        def within(a, b) -> bool:       # entering a context manager is not where a wait can be skipped
            return b in inside and not (a.kind == 'with-enter' and b in a.exc_edges.values())
        spin = [h for h in heads if h in g.reach([h], stop=lambda n: n in set(w), edge_ok=within)]
        ctx.ob(rule, 'daemon_killer: every cycle of the while-paused loop awaits `operator_paused.wait_for(False)` -- the only wait there that really '
               'suspends while the operator stays paused (a cycle without it spins and blocks the event loop: stopping stalls the operator)',
               bool(w) and not spin, loc=f.loc(lp), construct=construct(f, 'loopstop:while-paused waits for un-pausing'),
               detail='' if w and not spin else ('no awaited wait_for(False) in the loop' if not w else
                                                 'a cycle avoids it: ' + g.describe_path(g.path([x for h in heads for x in h.succ if within(h, x)], lambda n: n in heads,
                                                                                              stop=lambda n: n in set(w), edge_ok=within))[:300]))
    # the bounded variant of that wait must not crash the killer
    timeouts = [n for n in g.nodes if n.kind == 'with-enter' and any(
        isinstance(i.context_expr, ast.Call) and (repo.resolve(f.module, i.context_expr.func) or '').rsplit('.', 1)[-1] in ('timeout', 'timeout_at')
        for i in n.stmt.items)]
    for n in timeouts:
        ok = False
        for fr in n.frames:
            if fr.kind == 'try-body':
                for h, hn, classes in fr.handler_nodes:
                    if any(c in ('TimeoutError', 'asyncio.TimeoutError', 'asyncio.exceptions.TimeoutError') or repo.is_subclass('TimeoutError', c) for c in classes) \
                            and not any(isinstance(x, ast.Raise) for s in h.body for x in walk_no_defs(s)):
                        ok = True
        ctx.ob(rule, 'daemon_killer: the expiry of a bounded wait (asyncio.timeout) is caught and ignored -- a long pause must not make the killer fail '
               '(stopping never crashes the operator)', ok, loc=f.loc(n.stmt), construct=construct(f, 'dispatch:timeout swallowed'))
    # the pausing stop: the sweep's own daemon, through the awaited scheduler
    stops = [c for c in calls_in(f.node) if is_call_to(repo, f, c, f'{D}.stop_daemon') and kwarg(c, 'reason') is not None
             and (repo.resolve(f.module, kwarg(c, 'reason')) or '').endswith(f'{REASON}.OPERATOR_PAUSING')]
    ctx.require_sites(rule, 'daemon_killer: stop_daemon(reason=OPERATOR_PAUSING)', len(stops), 1, f.loc())
    for c in stops:
        fors = []
        cur = f.module.parent.get(c)
        while cur is not None and cur is not f.node:
            if isinstance(cur, ast.For):
                fors.append(cur)
            cur = f.module.parent.get(cur)
        dv = kwarg(c, 'daemon')
        own = bool(fors) and isinstance(dv, ast.Name) and isinstance(fors[0].target, ast.Name) and dv.id == fors[0].target.id
        par = f.module.parent.get(c)
        par = f.module.parent.get(par) if isinstance(par, ast.keyword) else par
        spawned = isinstance(par, ast.Call) and is_call_to(repo, f, par, f'{TASKS}.Scheduler.spawn') and isinstance(f.module.parent.get(par), ast.Await)
        in_loop = any(_contains(lp, c) for lp in loops)
        ctx.ob(rule, 'daemon_killer: while paused, the stopper of each daemon of the sweep (the inner loop\'s own variable) is handed to the awaited '
               'scheduler.spawn inside the while-paused loop', own and spawned and in_loop, loc=f.loc(c), construct=construct(f, 'flow:pausing stop of the swept daemon'),
               detail=f'daemon={norm(dv)}; spawned through the scheduler: {spawned}; inside the while-paused loop: {in_loop}')


def check_is_set(ctx: Ctx, rule: str) -> None:
    repo = ctx.repo
    f = repo.fn('aioenums.FlagSetter.is_set')
    ctx.analysed(f)
    ps = [a.arg for a in f.params()]
    if len(ps) != 2:
        raise AnalysisError(f'{f.loc()}: FlagSetter.is_set: expected (self, reason)')
    me, rs = ps
    paths = absint.analyse(repo, f, absint.Config())
    atoms = {'RN': rf'^isnone\({rs}\)$', 'SN': (rf'^isnone\({me}\.reason\)$', f'isnone({me}.reason)'), 'IN': rf'^in\({rs}, {me}\.reason\)$'}

    def spec(v):
        return 'event' if (v['RN'] or (not v['SN'] and v['IN'])) else 'no'

    def observe(p):
        if p.status != 'return' or p.retval is None:
            return ('status', p.status)
        if p.retval.kind in ('bool', 'const'):
            return 'no' if not p.retval.data else 'always'
        if re.fullmatch(rf'{me}\.(sync|async)_event\.is_set\(\)', p.retval.key):
            return 'event'
        return ('value', p.retval.key[:60])
    table_check(ctx, rule, f, paths, atoms, spec, observe,
                what='FlagSetter.is_set(reason): the flag counts as set for a reason iff the event is set and (no reason is asked for, or a reason was '
                     'recorded and the asked one is among the recorded ones) -- the stages of a termination are told apart by it')
    df = absint._defaults(f)
    ctx.ob(rule, 'FlagSetter.is_set: without an argument the question is "set at all" (reason defaults to None)', rs in df and isinstance(df[rs], ast.Constant)
           and df[rs].value is None, loc=f.loc(), construct=construct(f, 'config:reason=None'))
    # the initial state: not set, no reason, no timestamp
    init = repo.fn('aioenums.FlagSetter.__init__')
    ctx.analysed(init)
    writes = {t.attr: n.value for n in walk_no_defs(init.node) if isinstance(n, (ast.Assign, ast.AnnAssign)) and n.value is not None
              for t in (n.targets if isinstance(n, ast.Assign) else [n.target]) if isinstance(t, ast.Attribute) and dotted(t.value) == init.params()[0].arg}
    for attr in ('when', 'reason'):
        v = writes.get(attr)
        ctx.ob(rule, f'FlagSetter starts with `{attr}` = None (the runner\'s "exited on its own" test is `reason is None`; the age of a flag that was '
               'never raised is zero)', isinstance(v, ast.Constant) and v.value is None, loc=init.loc(), construct=construct(init, f'config:{attr}=None'),
               detail=f'{attr}={norm(v)}')
    for attr, cls in (('sync_event', 'threading.Event'), ('async_event', 'asyncio.Event')):
        v = writes.get(attr)
        ctx.ob(rule, f'FlagSetter starts with an un-set {cls} of its own', isinstance(v, ast.Call) and not v.args and not v.keywords
               and (repo.resolve(init.module, v.func) or '') == cls, loc=init.loc(), construct=construct(init, f'config:{attr}=fresh event'), detail=norm(v))
    # what the daemon itself sees is the same flag
    for ref in ('aioenums.FlagWaiter.is_set', 'aioenums.FlagWaiter.__bool__'):
        w = repo.fn(ref)
        ctx.analysed(w)
        rets = [n for n in walk_no_defs(w.node) if isinstance(n, ast.Return)]
        ok = len(rets) == 1 and isinstance(rets[0].value, ast.Call) and method_call(rets[0].value, 'is_set') is not None \
            and src(method_call(rets[0].value, 'is_set')).endswith('._setter') and not rets[0].value.args and not rets[0].value.keywords
        ctx.ob(rule, f'{w.short}: the `stopped` object given to the daemon reports exactly "the setter is set at all"', ok, loc=w.loc(),
               construct=construct(w, 'flow:delegates to setter.is_set()'))


def check_reason_flags(ctx: Ctx, rule: str) -> None:
    repo = ctx.repo
    ci = repo.cls(f'kopf._core.intents.stoppers.{REASON}')
    m = ci.module
    bases = [repo.resolve(m, b) or src(b) for b in ci.node.bases]
    ctx.ob(rule, f'{REASON} is an enum.Flag: reasons combine with `|` and are tested with `in` (FlagSetter.set / is_set rely on it)',
           any(b in ('enum.Flag', 'enum.IntFlag') for b in bases), loc=f'{m.relpath()}:{ci.node.lineno}', construct=f'{ci.qualname}:config:base enum.Flag',
           detail=str(bases))
    members: dict[str, ast.AST] = {}
    for s in ci.node.body:
        if isinstance(s, ast.Assign) and len(s.targets) == 1 and isinstance(s.targets[0], ast.Name):
            members[s.targets[0].id] = s.value
    need = {'DONE', 'FILTERS_MISMATCH', 'RESOURCE_DELETED', 'OPERATOR_PAUSING', 'OPERATOR_EXITING', 'DAEMON_SIGNALLED', 'DAEMON_CANCELLED', 'DAEMON_ABANDONED'}
    ctx.ob(rule, f'{REASON} has a member for the runner\'s DONE, for every stop trigger and for every stage of the termination', need <= set(members),
           loc=f'{m.relpath()}:{ci.node.lineno}', construct=f'{ci.qualname}:config:members', detail=f'missing {sorted(need - set(members))}')
    bad = []
    literal: dict[int, str] = {}
    for k, v in members.items():
        if isinstance(v, ast.Call) and (repo.resolve(m, v.func) or '') == 'enum.auto' and not v.args:
            continue
        if isinstance(v, ast.Constant) and isinstance(v.value, int) and not isinstance(v.value, bool) and v.value > 0 and v.value & (v.value - 1) == 0 \
                and v.value not in literal:
            literal[v.value] = k
            continue
        bad.append(f'{k} = {norm(v, 40)}')
    if literal and len(literal) != len(members):
        bad.append('explicit bit values mixed with enum.auto()')
    ctx.ob(rule, f'{REASON}: every member is a distinct single bit (enum.auto() or a distinct power of two) -- no member is an alias or a combination of '
           'others, so "already signalled" / "already cancelled" / "resource deleted" never answer for each other', not bad,
           loc=f'{m.relpath()}:{ci.node.lineno}', construct=f'{ci.qualname}:config:distinct bits', detail='; '.join(bad))
    alias = repo.const('kopf._core.intents.stoppers.DaemonStopper')
    ok = isinstance(alias, ast.Subscript) and (repo.resolve(m, alias.value) or '').endswith('aioenums.FlagSetter') \
        and (repo.resolve(m, alias.slice) or '').endswith(REASON)
    ctx.ob(rule, 'DaemonStopper is the FlagSetter over DaemonStoppingReason', ok, loc=m.relpath(), construct='kopf._core.intents.stoppers:config:DaemonStopper alias',
           detail=norm(alias))


# ====================================================================================================== C10 (and C09): aiotime.sleep
def check_sleep(ctx: Ctx, rule: str) -> None:
    repo = ctx.repo
    f = repo.fn('kopf._cogs.aiokits.aiotime.sleep')
    ctx.analysed(f)
    ps = [a.arg for a in f.params()]
    if len(ps) != 2:
        raise AnalysisError(f'{f.loc()}: aiotime.sleep: expected (delays, wakeup)')
    dl, wk = ps

    def eff(it, p, call, names):
        if 'asyncio.wait_for' in names or 'asyncio.tasks.wait_for' in names:
            return 'wait_for'
        if any(n in ('asyncio.sleep', 'asyncio.wait') for n in names) or isinstance(it.m.parent.get(call), ast.Await):
            return 'other-wait'
        return None
    paths = absint.analyse(repo, f, absint.Config(effect=eff, raising={'asyncio.wait_for': ['asyncio.TimeoutError']}, record_writes=False))
    ctx.count('paths', len(paths))
    bad: list[str] = []
    rows = set()
    for p in paths:
        waits = p.effects('wait_for')
        if p.effects('other-wait'):
            bad.append('waits on something else than the interruptible wait_for')
        ek = [k for k in p.atoms if k.startswith('truthy(')]      # the only truthiness consulted: "is any delay given"
        some = p.atoms.get(ek[0]) if len(ek) == 1 else None
        lst = ek[0][len('truthy('):-1] if len(ek) == 1 else None
        zk = [k for k in p.atoms if lst is not None and k == f'cmp(0, min({lst}))']
        pos = (p.atoms[zk[0]] == '<') if zk else None
        if p.status != 'return' or p.retval is None:
            bad.append(f'a path ends with {p.status} {p.exc or ""}')
            continue
        if some is None:
            bad.append('whether any delay is given is not consulted')
            continue
        if some and pos is None:
            bad.append('a minimal delay is not compared with zero before sleeping')
            continue
        should = bool(some and pos)
        if not should:
            rows.add('nothing' if not some else 'non-positive')
            if waits or not (p.retval.kind == 'const' and p.retval.data is None):
                bad.append(f'with {"no delay" if not some else "a non-positive minimal delay"}: waits={len(waits)}, returns {p.retval.key[:30]} (must not sleep and return None)')
            continue
        if len(waits) != 1:
            bad.append(f'with a positive minimal delay the sleep happens {len(waits)} times')
            continue
        w = waits[0]
        t = w.kw.get('timeout') or w.kw.get('#1')
        if t is None or t.key != f'min({lst})':
            bad.append(f'sleeps for `{t.key[:50] if t else None}`, not for the minimum of the given delays')
        ev = w.kw.get('#0') or w.kw.get('fut')
        wn = p.atoms.get(f'isnone({wk})')
        if wn is None:
            bad.append(f'sleeps without consulting whether `{wk}` is given')
        elif wn is False and (ev is None or ev.key != f'{wk}.wait()'):
            bad.append(f'with a wake-up event given, waits on `{ev.key[:40] if ev else None}` (the stop flag could not interrupt the sleep)')
        elif wn is True and (ev is None or not re.fullmatch(r'asyncio\.Event\(\)\.wait\(\)', ev.key)):
            bad.append(f'without a wake-up event, waits on `{ev.key[:40] if ev else None}`')
        timed_out = any(e.label.startswith('raised:') for e in p.trace)
        rows.add(('full' if timed_out else 'woken', wn))
        if timed_out and not (p.retval.kind == 'const' and p.retval.data is None):
            bad.append(f'slept in full but returns {p.retval.key[:30]} (must be None)')
        if not timed_out and (p.retval.kind == 'const' or absint.entails(repo, f, p, f'isnone({p.retval.key})') is not False):
            bad.append(f'woken up but returns `{p.retval.key[:30]}` (must be the remaining time, never None)')
    need = {'nothing', 'non-positive', ('full', True), ('full', False), ('woken', True), ('woken', False)}
    ctx.ob(rule, f'aiotime.sleep ({len(paths)} paths): no delay / a non-positive minimal delay => returns None at once without waiting; otherwise exactly one wait '
           'of min(delays) seconds on the given wake-up event (a private never-set event if none is given); None when slept in full, the remaining time '
           '(not None) when woken -- timers and daemons sleep the interval/backoff/error delay with it and are woken by their stop flag',
           not bad and need <= rows, loc=f.loc(), construct=construct(f, 'table:sleep'), detail=' | '.join(dict.fromkeys(bad)) or f'rows missing: {need - rows}')
    # the structure the abstraction keeps opaque: which delays enter the minimum
    mins = [c for c in calls_in(f.node) if dotted(c.func) == 'min' and len(c.args) == 1]
    ctx.require_sites(rule, 'aiotime.sleep: minimum over the given delays', len(mins), 1, f.loc())
    for c in mins:
        comp = origin(f, c.args[0])
        problems = []
        if not (isinstance(comp, (ast.ListComp, ast.GeneratorExp, ast.SetComp)) and len(comp.generators) == 1 and isinstance(comp.generators[0].target, ast.Name)):
            problems.append(f'`{norm(comp, 60)}` is not a filtered copy of the given delays')
        else:
            gen = comp.generators[0]
            tv = gen.target.id
            if not (isinstance(comp.elt, ast.Name) and comp.elt.id == tv):
                problems.append(f'the delays are transformed: `{norm(comp.elt, 40)}`')
            conds: list = []
            for i in gen.ifs:
                conds.extend(_atoms_of(i, True) or [(i, True)])
            if not (len(conds) == 1 and _is_none_test(*conds[0]) == (tv, False)):
                problems.append(f'dropped entries are decided by `{" and ".join(norm(i, 40) for i in gen.ifs) or "nothing"}`, not by `{tv} is not None` only '
                                '(a zero delay is a delay: it must win the minimum and cancel the sleep)')
            passed = origin(f, gen.iter)
            okp = isinstance(passed, ast.IfExp) and isinstance(passed.test, ast.Call) and dotted(passed.test.func) == 'isinstance' and len(passed.test.args) == 2 \
                and dotted(passed.test.args[0]) == dl and (repo.resolve(f.module, passed.test.args[1]) or '').endswith('Collection') \
                and dotted(passed.body) == dl and isinstance(passed.orelse, (ast.List, ast.Tuple)) and len(passed.orelse.elts) == 1 and dotted(passed.orelse.elts[0]) == dl
            if not okp and dotted(gen.iter) != dl:
                problems.append(f'iterates `{norm(passed, 70)}`, not "the collection given, or the single delay given"')
        ctx.ob(rule, 'aiotime.sleep: the minimum is taken over all given delays, unchanged, leaving out exactly the None entries (a single number counts as '
               'a collection of one)', not problems, loc=f.loc(c), construct=construct(f, 'formula:min over non-None delays'), detail=' | '.join(problems))


# ====================================================================================================== C20 / C01: aiotasks
def check_stop(ctx: Ctx, rule: str) -> None:
    repo = ctx.repo
    f, g = cfg_of(ctx, f'{TASKS}.stop')
    tasks = f.params()[0].arg
    for n in ('quiet', 'cancelled', 'interval', 'logger'):
        _has_param(f, n)
    waits = g.call_nodes(f'{TASKS}.wait')
    ctx.require_sites(rule, 'aiotasks.stop: wait for the tasks', len(waits), 1, f.loc())
    # (a) everything is cancelled first
    cl = [n for n in walk_no_defs(f.node) if isinstance(n, ast.For) and dotted(_unwrap(n.iter)) == tasks and isinstance(n.target, ast.Name)
          and any(method_call(c, 'cancel') is not None and dotted(method_call(c, 'cancel')) == n.target.id for c in calls_in(n))]
    ctx.require_sites(rule, 'aiotasks.stop: cancellation loop over the given tasks', len(cl), 1, f.loc())
    for lp in cl:
        inside = loop_nodes(g, lp)
        cn = [n for n in g.stmt_nodes(lambda x: method_call(x, 'cancel') is not None and dotted(method_call(x, 'cancel')) == lp.target.id) if n in inside]
        guards = [(t, o) for n in cn for t, o in _conds_inside(g, n, inside, f)
                  if not (method_call(t, 'done') is not None and dotted(method_call(t, 'done')) == lp.target.id and o is False)]
        early = [n for s in lp.body for n in walk_no_defs(s) if isinstance(n, (ast.Break, ast.Return, ast.Continue))]
        heads = [n for n in g.nodes if n.kind == 'loop' and n.stmt is lp]
        ctx.ob(rule, 'aiotasks.stop: every given task is cancelled (at most skipping finished ones) before anything is waited for -- the operator\'s shutdown '
               'relies on it to end the root tasks, the hung tasks, the core tasks and the scheduler\'s meta-tasks', bool(cn) and not guards and not early
               and not g.dominated(waits, heads), loc=f.loc(lp), construct=construct(f, 'order:cancel all<wait'),
               detail='; '.join([f'under `{norm(t, 40)}`' for t, _ in guards] + [f'L{n.lineno} {type(n).__name__.lower()}' for n in early])
               or ('the wait is reachable without passing the cancellation loop' if g.dominated(waits, heads) else ''))
    # (b) the loop ends only when nothing is pending
    wl = [n for n in walk_no_defs(f.node) if isinstance(n, ast.While) and any(is_call_to(repo, f, c, f'{TASKS}.wait') for c in calls_in(n))]
    ctx.require_sites(rule, 'aiotasks.stop: waiting loop', len(wl), 1, f.loc())
    for lp in wl:
        pend = lp.test.id if isinstance(lp.test, ast.Name) else None
        wcalls = [c for c in calls_in(lp) if is_call_to(repo, f, c, f'{TASKS}.wait')]
        rebound = [n for s in lp.body for n in walk_no_defs(s) if isinstance(n, ast.Assign) and isinstance(n.targets[0], ast.Tuple) and len(n.targets[0].elts) == 2
                   and isinstance(n.value, ast.Await) and n.value.value in wcalls]
        ok_wait = bool(rebound) and all(dotted(n.targets[0].elts[1]) == pend and n.value.value.args and dotted(n.value.value.args[0]) == pend
                                        and dotted(kwarg(n.value.value, 'timeout')) == 'interval' for n in rebound)
        brk = [n for s in lp.body for n in walk_no_defs(s) if isinstance(n, (ast.Break, ast.Return))]
        ctx.ob(rule, 'aiotasks.stop: waits (in slices of `interval`) on what is still pending, again and again while anything is pending -- it returns '
               'normally only when every task has ended (a stop that gives up leaves tasks running behind the operator\'s back)',
               pend is not None and ok_wait and not brk, loc=f.loc(lp), construct=construct(f, 'loop:until nothing pending'),
               detail=f'loop condition `{norm(lp.test, 40)}`; ' + '; '.join(f'L{n.lineno} {type(n).__name__.lower()} inside the loop' for n in brk))
        # (c) its own cancellation propagates
        hs = [h for n in walk_no_defs(lp) if isinstance(n, ast.Try) for h in n.handlers if any(_is_cancel_class(c) or c == 'BaseException' for c in _handler_classes(repo, f, h))]
        ctx.ob(rule, 'aiotasks.stop: a cancellation of the stopping routine itself is re-raised (the operator\'s cancellation is not swallowed by a cleanup)',
               bool(hs) and all(_reraises(h) for h in hs), loc=f.loc(hs[0]) if hs else f.loc(lp), construct=construct(f, 'allexits:cancel re-raised'))
        # (d) the done set accumulates over the iterations
        rets = [n for n in walk_no_defs(f.node) if isinstance(n, ast.Return) and not _contains(lp, n) and isinstance(n.value, ast.Tuple) and len(n.value.elts) == 2
                and isinstance(n.value.elts[0], ast.Name)]
        acc = {n.value.elts[0].id for n in rets}
        done_now = {dotted(n.targets[0].elts[0]) for n in rebound}
        plain = [n for s in lp.body for n in walk_no_defs(s) if isinstance(n, (ast.Assign, ast.AnnAssign))
                 for t in (n.targets if isinstance(n, ast.Assign) else [n.target]) for tt in (t.elts if isinstance(t, ast.Tuple) else [t])
                 if isinstance(tt, ast.Name) and tt.id in acc]
        grows = [n for s in lp.body for n in walk_no_defs(s)
                 if (isinstance(n, ast.AugAssign) and isinstance(n.op, ast.BitOr) and dotted(n.target) in acc and dotted(n.value) in done_now)
                 or (isinstance(n, ast.Call) and method_call(n, 'update') is not None and dotted(method_call(n, 'update')) in acc and n.args and dotted(n.args[0]) in done_now)]
        ctx.ob(rule, 'aiotasks.stop: the returned set of finished tasks accumulates over all iterations (run_tasks re-raises the failures of exactly these tasks: '
               'one that ended in an earlier slice must not be lost)', len(acc) == 1 and bool(grows) and not plain, loc=f.loc(plain[0]) if plain else f.loc(lp),
               construct=construct(f, 'flow:done set accumulates'), detail='; '.join(norm(n, 60) for n in plain) or f'returned: {sorted(acc)}')
    # (e) quiet / cancelled steer the log only
    bad = _log_only(f, ('quiet', 'cancelled'))
    ctx.ob(rule, 'aiotasks.stop: `quiet` and `cancelled` influence nothing but the log lines', not bad, loc=f.loc(), construct=construct(f, 'confine:log-only flags'),
           detail='; '.join(bad[:3]))


def check_wait(ctx: Ctx, rule: str) -> None:
    repo = ctx.repo
    f = repo.fn(f'{TASKS}.wait')
    ctx.analysed(f)
    tasks = f.params()[0].arg
    for n in ('timeout', 'return_when'):
        _has_param(f, n)

    def eff(it, p, call, names):
        return 'wait' if 'asyncio.wait' in names or 'asyncio.tasks.wait' in names else None
    paths = absint.analyse(repo, f, absint.Config(effect=eff, record_writes=False))
    ctx.count('paths', len(paths))
    bad = []
    rows = set()
    for p in paths:
        some = p.atoms.get(f'truthy({tasks})')
        w = p.effects('wait')
        rv = p.retval
        if p.status != 'return' or rv is None:
            bad.append(f'a path ends with {p.status}')
        elif some is None:
            bad.append('does not consult whether any task is given')
        elif some is False:
            rows.add('empty')
            empty = rv.kind == 'tuple' and len(rv.data) == 2 and all(x.kind == 'coll' and x.data == ('display', ()) for x in rv.data)
            if w or not empty:
                bad.append(f'with no tasks: asyncio.wait called {len(w)} times, returns `{rv.key[:40]}` (asyncio.wait fails on an empty set; must return two empty sets)')
        else:
            rows.add('some')
            if len(w) != 1:
                bad.append(f'with tasks: asyncio.wait called {len(w)} times')
                continue
            kw = w[0].kw
            if (kw.get('#0') or kw.get('fs')) is None or (kw.get('#0') or kw.get('fs')).key != tasks:
                bad.append('waits on something else than the given tasks')
            for name in ('timeout', 'return_when'):
                if kw.get(name) is None or kw[name].key != name:
                    bad.append(f'`{name}` is not forwarded to asyncio.wait' + (' (the first finished root task would not end the operator)' if name == 'return_when'
                                                                              else ' (the grace period for hung tasks would be unbounded)'))
            k = w[0].key
            in_order = (rv.kind == 'tuple' and [x.key for x in rv.data] == [f'{k}[0]', f'{k}[1]']) or rv.key == k
            if not in_order:
                bad.append(f'returns `{rv.key[:60]}`, not (done, pending) of asyncio.wait in that order')
    ctx.ob(rule, 'aiotasks.wait: an empty collection gives two empty sets without calling asyncio.wait; otherwise the given tasks are awaited with the given '
           'timeout and return_when, and (done, pending) come back in that order', not bad and rows == {'empty', 'some'}, loc=f.loc(), construct=construct(f, 'table:wait'),
           detail=' | '.join(dict.fromkeys(bad)))
    df = absint._defaults(f)
    ctx.ob(rule, 'aiotasks.wait: by default it waits without a time limit for ALL tasks (the cleanup waits like this for every other root task)',
           isinstance(df.get('timeout'), ast.Constant) and df['timeout'].value is None and (repo.resolve(f.module, df.get('return_when')) or '') == 'asyncio.ALL_COMPLETED'
           if df.get('return_when') is not None else False, loc=f.loc(), construct=construct(f, 'config:defaults'), detail=f'timeout={norm(df.get("timeout"))}, return_when={norm(df.get("return_when"))}')


def check_all_tasks(ctx: Ctx, rule: str) -> None:
    repo = ctx.repo
    f = repo.fn(f'{TASKS}.all_tasks')
    ctx.analysed(f)
    ign = _has_param(f, 'ignored')
    rets = [n for n in walk_no_defs(f.node) if isinstance(n, ast.Return)]
    ctx.require_sites(rule, 'aiotasks.all_tasks: returned selection', len(rets), 1, f.loc())
    for r in rets:
        comp = origin(f, r.value) if r.value is not None else None
        problems = []
        if not (isinstance(comp, (ast.SetComp, ast.ListComp, ast.GeneratorExp)) and len(comp.generators) == 1 and isinstance(comp.generators[0].target, ast.Name)):
            problems.append(f'`{norm(comp, 60)}` is not a filtered copy of asyncio.all_tasks()')
        else:
            gen = comp.generators[0]
            tv = gen.target.id
            it = _unwrap(origin(f, _unwrap(gen.iter)))
            if not (isinstance(it, ast.Call) and (repo.resolve(f.module, it.func) or '') == 'asyncio.all_tasks' and not it.args):
                problems.append(f'iterates `{norm(it, 40)}`, not asyncio.all_tasks() of the running loop')
            if not (isinstance(comp.elt, ast.Name) and comp.elt.id == tv):
                problems.append('the tasks are transformed')
            conds: Optional[list] = []
            for i in gen.ifs:
                sub = _cond_atoms(f, i, True)
                if sub is None:
                    conds = None
                    break
                conds.extend(sub)
            if conds is None:
                problems.append('the filter is not a conjunction')
            else:
                not_self = [1 for e, o in conds if isinstance(e, ast.Compare) and isinstance(e.ops[0], (ast.Is, ast.Eq)) and o is False and dotted(e.left) == tv
                            and _is_current_task(repo, f, e.comparators[0])]
                not_ign = [1 for e, o in conds if isinstance(e, ast.Compare) and isinstance(e.ops[0], ast.In) and o is False and dotted(e.left) == tv
                           and dotted(e.comparators[0]) == ign]
                if len(not_self) != 1:
                    problems.append('the current task is not excluded (run_tasks would wait for, and then cancel, itself)')
                if len(not_ign) != 1:
                    problems.append(f'the `{ign}` tasks are not excluded (tasks that existed before the operator would be cancelled with it)')
                if len(conds) != len(not_self) + len(not_ign):
                    problems.append('further conditions hide tasks from the final sweep')
        ctx.ob(rule, 'aiotasks.all_tasks: all tasks of the running loop except the current one and the ignored ones -- the "hung" tasks that run_tasks gives a '
               'bounded time and then stops', not problems, loc=f.loc(r), construct=construct(f, 'formula:all but current and ignored'), detail=' | '.join(problems))


def _is_current_task(repo, f: FuncInfo, e: ast.AST) -> bool:
    o = origin(f, e)
    return isinstance(o, ast.Call) and (repo.resolve(f.module, o.func) or '') == 'asyncio.current_task' and not o.args


def check_guard(ctx: Ctx, rule: str) -> None:
    repo = ctx.repo
    f, g = cfg_of(ctx, f'{TASKS}.guard')
    coro = _has_param(f, 'coro')
    tries = [n for n in walk_no_defs(f.node) if isinstance(n, ast.Try)]
    hs = [(t, h) for t in tries for h in t.handlers]
    ctx.require_sites(rule, 'aiotasks.guard: exception handlers', len(hs), 3, f.loc())
    for t, h in hs:
        cls = ', '.join(c.rsplit('.', 1)[-1] for c in _handler_classes(repo, f, h))
        ctx.ob(rule, f'aiotasks.guard: the handler for {cls} re-raises -- a guarded root task ends with the failure/cancellation of its coroutine, which is '
               'what run_tasks observes and re-raises (a swallowed failure would end the operator "successfully", a swallowed cancellation would keep it alive)',
               _reraises(h), loc=f.loc(h), construct=construct(f, f'allexits:{cls} re-raised:{"flag" if not any(isinstance(x, ast.Await) and dotted(x.value) == coro for s in t.body for x in walk_no_defs(s)) else "coro"}'))
    guarded = [t for t in tries if any(isinstance(x, ast.Await) and dotted(x.value) == coro for s in t.body for x in walk_no_defs(s))]
    caught = {c for t in guarded for h in t.handlers for c in _handler_classes(repo, f, h)}
    ctx.ob(rule, 'aiotasks.guard: the coroutine is awaited inside the handlers that log and re-raise both its failure and its cancellation', len(guarded) == 1
           and any(_is_cancel_class(c) or c == 'BaseException' for c in caught) and any(c in ('Exception', 'BaseException') for c in caught),
           loc=f.loc(guarded[0]) if guarded else f.loc(), construct=construct(f, 'dispatch:failure and cancellation handled'), detail=str(sorted(caught)))
    bad = _log_only(f, ('finishable', 'cancellable', 'logger'))
    ctx.ob(rule, 'aiotasks.guard: `finishable`, `cancellable` and `logger` influence nothing but the log lines', not bad, loc=f.loc(),
           construct=construct(f, 'confine:log-only flags'), detail='; '.join(bad[:3]))
    cg = repo.fn(f'{TASKS}.create_guarded_task')
    ctx.analysed(cg)
    rets = [n for n in walk_no_defs(cg.node) if isinstance(n, ast.Return)]
    ok = len(rets) == 1 and isinstance(origin(cg, rets[0].value), ast.Call) and (repo.resolve(cg.module, origin(cg, rets[0].value).func) or '').endswith('create_task') \
        and any(is_call_to(repo, cg, c, f'{TASKS}.guard') for c in calls_in(origin(cg, rets[0].value)))
    ctx.ob(rule, 'create_guarded_task: the guard coroutine is started as a task and that task is what the caller gets (and keeps in the root/core set)', ok,
           loc=cg.loc(), construct=construct(cg, 'flow:returns the guard task'))


def check_reraise(ctx: Ctx, rule: str) -> None:
    repo = ctx.repo
    f, g = cfg_of(ctx, f'{TASKS}.reraise')
    tasks = f.params()[0].arg
    loops = [n for n in walk_no_defs(f.node) if isinstance(n, ast.For) and dotted(_unwrap(n.iter)) == tasks and isinstance(n.target, ast.Name)]
    ctx.require_sites(rule, 'aiotasks.reraise: loop over the given tasks', len(loops), 1, f.loc())
    for lp in loops:
        tv = lp.target.id
        inside = loop_nodes(g, lp)
        res = [n for n in g.stmt_nodes(lambda x: method_call(x, 'result') is not None and dotted(method_call(x, 'result')) == tv) if n in inside]
        ctx.require_sites(rule, 'aiotasks.reraise: result() of the task', len(res), 1, f.loc(lp))
        guards = [(t, o) for n in res for t, o in _conds_inside(g, n, inside, f)
                  if not (isinstance(t, ast.Call) and isinstance(t.func, ast.Attribute) and dotted(t.func.value) == tv
                          and ((t.func.attr == 'cancelled' and o is False) or (t.func.attr == 'done' and o is True)))]
        early = [n for s in lp.body for n in walk_no_defs(s) if isinstance(n, (ast.Break, ast.Return))]
        ctx.ob(rule, 'aiotasks.reraise: the result of every given task is consulted (no task is skipped for any reason but being cancelled/unfinished, the loop is '
               'never left early) -- this is how run_tasks and the startup/cleanup task re-raise the failure of an essential task', bool(res) and not guards and not early,
               loc=f.loc(lp), construct=construct(f, 'flow:result() of every task'),
               detail='; '.join([f'only under `{norm(t, 40)}`' for t, _ in guards] + [f'L{n.lineno} {type(n).__name__.lower()}' for n in early]))
        swallowed = []
        for n in res:
            for fr in n.frames:
                if fr.kind == 'try-body' and _contains(lp, fr.stmt):
                    for h, hn, classes in fr.handler_nodes:
                        if not _reraises(h):
                            swallowed.extend(c for c in classes if not _is_cancel_class(c))
        ctx.ob(rule, 'aiotasks.reraise: nothing but the cancellation of a task is swallowed -- every other exception of a task propagates to the caller', not swallowed,
               loc=f.loc(lp), construct=construct(f, 'dispatch:only CancelledError swallowed'), detail=f'also swallowed: {sorted(set(swallowed))}')


# ====================================================================================================== C20 / C01 / C09: Scheduler
def _sched(repo, name: str) -> FuncInfo:
    return repo.fn(f'{TASKS}.Scheduler.{name}')


def check_scheduler_close(ctx: Ctx, rule: str) -> None:
    repo = ctx.repo
    f, g = cfg_of(ctx, _sched(repo, 'close'))
    me = f.params()[0].arg
    closed = g.stmt_nodes(lambda x: isinstance(x, ast.Assign) and any(dotted(t) == f'{me}._closed' for t in x.targets)
                          and isinstance(x.value, ast.Constant) and x.value.value is True)
    waits = g.call_nodes(f'{TASKS}.Scheduler.wait')
    stops = g.call_nodes(f'{TASKS}.stop')
    ctx.require_sites(rule, 'Scheduler.close: `_closed = True`', len(closed), 1, f.loc())
    ctx.require_sites(rule, 'Scheduler.close: wait until idle', len(waits), 1, f.loc())
    ctx.require_sites(rule, 'Scheduler.close: stop of the meta-tasks', len(stops), 1, f.loc())
    cl = [n for n in walk_no_defs(f.node) if isinstance(n, ast.For) and dotted(_unwrap(n.iter)) == f'{me}._running_tasks' and isinstance(n.target, ast.Name)]
    heads = [n for n in g.nodes if n.kind == 'loop' and n.stmt in cl]
    uncond = all(len(lp.body) == 1 and isinstance(lp.body[0], ast.Expr) and method_call(lp.body[0].value, 'cancel') is not None
                 and dotted(method_call(lp.body[0].value, 'cancel')) == lp.target.id for lp in cl)
    pre = suspensions_from(g, [g.entry], closed) if closed else []
    ctx.ob(rule, 'Scheduler.close: the scheduler is marked closed first, before any suspension point (from then on spawn() refuses and the spawner cancels '
           'what it still starts), then every running task is cancelled unconditionally, then it waits until it is idle',
           bool(closed) and not pre and bool(cl) and uncond and not g.dominated(heads, closed) and not g.dominated(waits, heads),
           loc=f.loc(), construct=construct(f, 'order:closed<cancel all<wait'),
           detail='; '.join(f'suspends at L{n.lineno} before the flag' for n in pre) or ('' if cl and uncond else 'no unconditional cancellation of all running tasks'))
    early = [s for s in stops if g.dominated([s], waits)] + [w for w in waits if w in g.reach(stops)]
    ctx.ob(rule, 'Scheduler.close: its own spawner/cleaner are stopped only after the scheduler became idle (the cleaner is what wakes that wait: stopped '
           'earlier, close() -- and with it the watcher or the daemon killer -- would wait forever)', bool(stops) and bool(waits) and not early,
           loc=f.loc(stops[0].stmt) if stops else f.loc(), construct=construct(f, 'order:wait<stop(meta-tasks)'))
    init = _sched(repo, '__init__')
    ctx.analysed(init)
    meta = {t.attr for n in walk_no_defs(init.node) if isinstance(n, ast.Assign) and isinstance(n.value, ast.Call)
            and (repo.resolve(init.module, n.value.func) or '').endswith('create_task') for t in n.targets if isinstance(t, ast.Attribute)}
    for s in stops:
        c = [c for c in calls_in(s.stmt) if is_call_to(repo, f, c, f'{TASKS}.stop')][0]
        a = origin(f, c.args[0]) if c.args else None
        got = {x.attr for x in (a.elts if isinstance(a, (ast.Set, ast.List, ast.Tuple)) else []) if isinstance(x, ast.Attribute) and dotted(x.value) == me}
        ctx.ob(rule, 'Scheduler.close: both meta-tasks created by the constructor are stopped (none is left behind as a hung task)', bool(meta) and got == meta,
               loc=f.loc(c), construct=construct(f, 'flow:stop(all meta-tasks)'), detail=f'stopped {sorted(got)}, created {sorted(meta)}')
    # "closed" is honoured where coroutines enter: spawn() refuses, the spawner cancels what it still has to start (so that it is awaited, not run)
    sp, sg = cfg_of(ctx, _sched(repo, 'spawn'))
    sme = sp.params()[0].arg
    puts = sg.stmt_nodes(lambda x: isinstance(x, ast.Call) and (method_call(x, 'put') or method_call(x, 'put_nowait')) is not None
                         and dotted(method_call(x, 'put') or method_call(x, 'put_nowait')) == f'{sme}._pending_coros')
    ctx.require_sites(rule, 'Scheduler.spawn: queueing of the coroutine', len(puts), 1, sp.loc())
    for n in puts:
        conds = [a for t, o, _ in dominating_conditions(sg, n) for a in (_cond_atoms(sp, t, o) or [(t, o)])]
        ctx.ob(rule, 'Scheduler.spawn: nothing is queued once the scheduler is closed (a worker or stopper accepted after close() would never be cancelled or awaited)',
               any(dotted(e) == f'{sme}._closed' and o is False for e, o in conds), loc=sp.loc(n.stmt), construct=construct(sp, 'guard:queue only if not closed'))
    ts, tg = cfg_of(ctx, _sched(repo, '_task_spawner'))
    tme = ts.params()[0].arg
    creates = tg.stmt_nodes(lambda x: isinstance(x, ast.Call) and (repo.resolve(ts.module, x.func) or '').endswith('create_task'))
    tv = {t.id for n in creates if isinstance(n.stmt, ast.Assign) for t in n.stmt.targets if isinstance(t, ast.Name)}
    cancels = [n for n in tg.stmt_nodes(lambda x: isinstance(x, ast.Call) and method_call(x, 'cancel') is not None and dotted(method_call(x, 'cancel')) in tv)]
    ok = bool(creates) and bool(cancels)
    for n in cancels:
        conds = [a for t, o, _ in dominating_conditions(tg, n) for a in (_cond_atoms(ts, t, o) or [(t, o)])]
        ok = ok and any(dotted(e) == f'{tme}._closed' and o is True for e, o in conds)
    closed_tests = {m for m in tg.nodes if m.kind == 'if' and any(dotted(x) == f'{tme}._closed' for x in ast.walk(m.stmt.test))}
    skipped = [n for n in creates if any(h in tg.reach([n], stop=lambda m: m in closed_tests, edge_ok=no_abnormal)
                                         for h in tg.nodes if h.kind == 'loop' and any(fr.kind == 'loop' and fr.stmt is h.stmt for fr in n.frames))]
    ctx.ob(rule, 'Scheduler._task_spawner: a coroutine started after the scheduler was closed is cancelled at once -- on every path from the task\'s creation to the '
           'next one the closed flag is consulted (close() cancels only what is already running)', ok and not skipped, loc=ts.loc(), construct=construct(ts, 'guard:cancel if closed'))
    # wait(): on the scheduler's condition, for empty()
    w, wg = cfg_of(ctx, _sched(repo, 'wait'))
    wme = w.params()[0].arg
    wf = [c for c in calls_in(w.node) if method_call(c, 'wait_for') is not None and isinstance(w.module.parent.get(c), ast.Await)]
    ok = len(wf) == 1 and len(wf[0].args) == 1 and dotted(wf[0].args[0]) == f'{wme}.empty'
    held = False
    for c in wf:
        cur = w.module.parent.get(c)
        while cur is not None and cur is not w.node:
            if isinstance(cur, ast.AsyncWith) and any(src(i.context_expr) == src(method_call(c, 'wait_for')) for i in cur.items):
                held = True
            cur = w.module.parent.get(cur)
    ctx.ob(rule, 'Scheduler.wait: waits on the scheduler\'s own condition (held) for the predicate `empty` -- nothing weaker', ok and held
           and src(method_call(wf[0], 'wait_for')) == f'{wme}._condition', loc=w.loc(), construct=construct(w, 'config:condition.wait_for(self.empty)'),
           detail=norm(wf[0]) if wf else 'no wait_for')
    # empty(): nothing pending AND nothing running
    e = _sched(repo, 'empty')
    ctx.analysed(e)
    eme = e.params()[0].arg
    paths = absint.analyse(repo, e, absint.Config())
    atoms = {'P': rf'^truthy\({eme}\._pending_coros\.empty\(\)\)$', 'R': rf'^truthy\({eme}\._running_tasks\)$'}
    table_check(ctx, rule, e, paths, atoms, lambda v: bool(v['P'] and not v['R']),
                lambda p: _ret_truth(p) if p.status == 'return' else ('status', p.status),
                what='Scheduler.empty: idle means no pending coroutine AND no running task (the daemon killer waits for exactly this before it closes the '
                     'scheduler of its stoppers; close() waits for it before it ends)')


def check_scheduler_callbacks(ctx: Ctx, rule: str) -> None:
    repo = ctx.repo
    f = _sched(repo, '_task_done_callback')
    ctx.analysed(f)
    ps = [a.arg for a in f.params()]
    if len(ps) != 2:
        raise AnalysisError(f'{f.loc()}: Scheduler._task_done_callback: expected (self, task)')
    me, tk = ps

    def eff(it, p, call, names):
        fn = call.func
        if isinstance(fn, ast.Attribute):
            d = dotted(fn.value)
            a0 = dotted(call.args[0]) if call.args else None
            if fn.attr == 'discard' and d == f'{me}._running_tasks':
                return 'free' if a0 == tk else 'free:?'
            if fn.attr in ('put_nowait',) and d == f'{me}._cleaning_queue':
                return 'clean' if a0 == tk else 'clean:?'
            if fn.attr == 'exception' and d == tk:
                return 'exception'
            if fn.attr == 'result' and d == tk:
                return 'result'
            if d == me and fn.attr == '_exception_handler':
                return 'escalate'
        return None
    paths = absint.analyse(repo, f, absint.Config(effect=eff, raising={'exception': ['asyncio.CancelledError'], 'result': ['asyncio.CancelledError']}, record_writes=False))
    ctx.count('paths', len(paths))
    bad = []
    rows = set()
    for p in paths:
        labs = [e.label for e in p.trace if e.label in ('free', 'free:?', 'clean', 'clean:?', 'exception', 'result', 'escalate') or e.label.startswith('raised:')]
        if p.status not in ('run', 'return'):
            bad.append(f'the callback itself fails ({p.exc}) for some task')
            continue
        first_risky = min([i for i, x in enumerate(labs) if x in ('exception', 'result', 'escalate')] or [len(labs)])
        if sorted(labs[:first_risky]) != ['clean', 'free']:
            bad.append(f'before anything that can fail, the slot must be freed and the task queued for cleaning: {labs}')
        cancelled = any(x.startswith('raised:') for x in labs)
        xn = p.atoms.get(f'isnone({tk}.exception())')
        hn = p.atoms.get(f'isnone({me}._exception_handler)')
        esc = [e for e in p.trace if e.label == 'escalate']
        if cancelled:
            rows.add('cancelled')
            if esc:
                bad.append('a cancelled task is escalated to the exception handler')
        elif esc:
            rows.add('failed')
            if xn is not False or hn is not False:
                bad.append('the escalation is not decided by `exception is not None and handler is not None`')
            if len(esc) != 1 or esc[0].kw.get('#0') is None or esc[0].kw['#0'].key != f'{tk}.exception()':
                bad.append('the handler does not receive the exception of the task')
        else:
            rows.add('quiet')
            if not (xn is True or hn is True):
                bad.append(f'a path without escalation that is not explained by "no exception" or "no handler": {p.describe()[:120]}')
    ctx.ob(rule, f'Scheduler._task_done_callback ({len(paths)} paths): a finished task always frees its slot in the running set and is queued for the cleaner, '
           'before anything that can fail; a failed task (exception is not None) is reported to the owner\'s exception handler with that exception; a cancelled '
           'task is not reported and does not make the callback fail', not bad and rows == {'cancelled', 'failed', 'quiet'}, loc=f.loc(),
           construct=construct(f, 'table:done callback'), detail=' | '.join(dict.fromkeys(bad)) or f'rows {sorted(rows)}')
    # the cleaner: survives whatever the task ended with, and wakes the waiters in every cycle
    c, g = cfg_of(ctx, _sched(repo, '_task_cleaner'))
    cme = c.params()[0].arg
    gets = g.stmt_nodes(lambda x: isinstance(x, ast.Call) and method_call(x, 'get') is not None and dotted(method_call(x, 'get')) == f'{cme}._cleaning_queue')
    ctx.require_sites(rule, 'Scheduler._task_cleaner: dequeue of a finished task', len(gets), 1, c.loc())
    tvars = {t.id for n in gets if isinstance(n.stmt, ast.Assign) for t in n.stmt.targets if isinstance(t, ast.Name)}
    aw = [n for n in g.nodes if n.kind == 'stmt' and any(isinstance(x, ast.Await) and dotted(x.value) in tvars for x in walk_no_defs(n.stmt))]
    ctx.require_sites(rule, 'Scheduler._task_cleaner: await of the finished task', len(aw), 1, c.loc())
    for n in aw:
        ok = False
        for fr in n.frames:
            if fr.kind == 'try-body':
                for h, hn, classes in fr.handler_nodes:
                    total = 'BaseException' in classes or (any(_is_cancel_class(x) for x in classes) and 'Exception' in classes)
                    if total and not any(isinstance(x, ast.Raise) for s in h.body for x in walk_no_defs(s)):
                        ok = True
        ctx.ob(rule, 'Scheduler._task_cleaner: awaiting the finished task swallows EVERY outcome, cancellation included (a cancelled worker/stopper must not '
               'kill the cleaner: nobody would wake wait()/close() or the spawner again)', ok, loc=c.loc(n.stmt), construct=construct(c, 'dispatch:BaseException swallowed'))
    notifies = g.stmt_nodes(lambda x: isinstance(x, ast.Call) and method_call(x, 'notify_all') is not None and dotted(method_call(x, 'notify_all')) == f'{cme}._condition')
    locked = [n for n in notifies if any(fr.kind == 'with' and isinstance(fr.stmt, ast.AsyncWith) and any(src(i.context_expr) == f'{cme}._condition' for i in fr.stmt.items)
                                         for fr in n.frames)]
    loops = [n for n in g.nodes if n.kind == 'loop' and isinstance(n.stmt, ast.While)]
    silent = [h for h in loops if gets and h in g.reach(gets, stop=lambda n: n in set(locked))]
    ctx.ob(rule, 'Scheduler._task_cleaner: in every cycle, after a finished task was taken, the waiters of the condition are notified under its lock '
           '(the spawner refills the pool up to the limit; wait()/close() see the scheduler idle)', bool(locked) and bool(loops) and not silent,
           loc=c.loc(), construct=construct(c, 'allexits:notify_all per cycle'),
           detail='' if not silent else 'a cycle avoids the notification: ' + witness(g, gets, silent[0], locked)[:200])
    unbounded = all(isinstance(h.stmt.test, ast.Constant) and h.stmt.test.value is True for h in loops) and not \
        [n for n in walk_no_defs(c.node) if isinstance(n, (ast.Break, ast.Return))]
    ctx.ob(rule, 'Scheduler._task_cleaner: never ends on its own (it is stopped by close() only)', bool(loops) and unbounded, loc=c.loc(), construct=construct(c, 'loop:forever'))


# ====================================================================================================== C20: running / activities
def _forwarded(f: FuncInfo, call: ast.Call, skip: Iterable[str] = ()) -> list[str]:
    """Parameters of ``f`` that are not handed on as `<name>=<name>` in ``call``."""
    miss = []
    for a in f.params():
        if a.arg in skip:
            continue
        v = kwarg(call, a.arg)
        if not (isinstance(v, ast.Name) and v.id == a.arg):
            miss.append(a.arg)
    return miss


def check_run_operator(ctx: Ctx, rule: str) -> None:
    repo = ctx.repo
    r = repo.fn(f'{RUN}.run')
    op, og = cfg_of(ctx, f'{RUN}.operator')
    ctx.analysed(r)
    ocalls = [c for c in calls_in(r.node) if is_call_to(repo, r, c, f'{RUN}.operator')]
    ctx.require_sites(rule, 'run: the operator coroutine', len(ocalls), 1, r.loc())
    for c in ocalls:
        miss = _forwarded(r, c, skip=('loop',))
        ctx.ob(rule, 'run: every argument (stop_flag, ready_flag, the command, registry, settings, ...) reaches operator() under its own name -- a stop flag that '
               'is not handed on can never stop the operator', not miss, loc=r.loc(c), construct=construct(r, 'config:operator(**same names)'), detail=f'not forwarded: {miss}')
        tgt = [n.targets[0].id for n in walk_no_defs(r.node) if isinstance(n, ast.Assign) and n.value is c and isinstance(n.targets[0], ast.Name)]
        runs = [x for x in calls_in(r.node) if x.args and (x.args[0] is c or dotted(x.args[0]) in tgt)]
        all_runs = [x for x in calls_in(r.node) if method_call(x, 'run_until_complete') is not None or (repo.resolve(r.module, x.func) or '') == 'asyncio.run']
        ctx.ob(rule, 'run: that coroutine is what the event loop runs to completion (the given loop, or a fresh asyncio.run)', len(runs) >= 1 and all(x in runs for x in all_runs),
               loc=r.loc(), construct=construct(r, 'flow:coroutine is run'), detail=f'{len(runs)} of {len(all_runs)} run sites get the operator coroutine')
    hs = [(t, h) for t in walk_no_defs(r.node) if isinstance(t, ast.Try) for h in t.handlers]
    wide = [c for t, h in hs if not _reraises(h) for c in _handler_classes(repo, r, h) if not _is_cancel_class(c)]
    ctx.ob(rule, 'run: only the cancellation of the operator is swallowed -- the failure re-raised by run_tasks leaves the run call as an exception', not wide,
           loc=r.loc(hs[0][1]) if hs else r.loc(), construct=construct(r, 'dispatch:only CancelledError swallowed'), detail=f'also swallowed: {sorted(set(wide))}')
    scalls = [c for c in calls_in(op.node) if is_call_to(repo, op, c, f'{RUN}.spawn_tasks')]
    ctx.require_sites(rule, 'operator: spawn_tasks call', len(scalls), 1, op.loc())
    for c in scalls:
        miss = _forwarded(op, c)
        ctx.ob(rule, 'operator: every argument reaches spawn_tasks() under its own name', not miss, loc=op.loc(c), construct=construct(op, 'config:spawn_tasks(**same names)'),
               detail=f'not forwarded: {miss}')
    snaps = og.call_nodes(f'{TASKS}.all_tasks')
    spawns = og.call_nodes(f'{RUN}.spawn_tasks')
    runs = [c for c in calls_in(op.node) if is_call_to(repo, op, c, f'{RUN}.run_tasks')]
    ign = [kwarg(c, 'ignored') for c in runs]
    ok = bool(snaps) and bool(spawns) and not og.dominated(spawns, snaps) and not any(s in og.reach(spawns) for s in snaps) and bool(ign) and all(
        v is not None and isinstance(origin(op, v), ast.Await) and is_call_to(repo, op, origin(op, v).value, f'{TASKS}.all_tasks') for v in ign)
    ctx.ob(rule, 'operator: the tasks that existed before the operator are recorded BEFORE its own tasks are spawned and are what run_tasks ignores (so that the '
           'final sweep stops everything the operator created and nothing else)', ok, loc=op.loc(), construct=construct(op, 'order:snapshot<spawn_tasks; ignored=snapshot'))


def check_terminators(ctx: Ctx, rule: str) -> None:
    repo = ctx.repo
    f, g = cfg_of(ctx, f'{RUN}.ultimate_termination')
    flag = _has_param(f, 'stop_flag')
    kills = [c for c in calls_in(f.node) if method_call(c, 'call_later') is not None or method_call(c, 'call_at') is not None]
    ctx.require_sites(rule, 'ultimate_termination: the delayed kill', len(kills), 1, f.loc())
    hs = [h for t in walk_no_defs(f.node) if isinstance(t, ast.Try) for h in t.handlers
          if any(_is_cancel_class(c) for c in _handler_classes(repo, f, h)) and any(_contains(h, k) for k in kills)]
    ctx.ob(rule, 'ultimate_termination: the forced kill is armed only in reaction to the task\'s cancellation, i.e. when the operator begins to shut down', len(hs) == 1
           and all(any(_contains(h, k) for h in hs) for k in kills), loc=f.loc(), construct=construct(f, 'dom:kill in cancellation handler'))
    if len(hs) == 1:
        def eff(it, p, call, names):
            if method_call(call, 'call_later') is not None:
                return 'kill'
            return None
        paths = absint.analyse(repo, f, absint.Config(effect=eff, record_writes=False), stmts=hs[0].body)
        atoms = {'F': rf'^truthy\(.*check_flag\({flag}\)\)$', 'T': (r'^isnone\(settings\.process\.ultimate_exiting_timeout\)$', 'isnone(settings.process.ultimate_exiting_timeout)')}

        def observe(p):
            k = p.effects('kill')
            if not k:
                return ()
            kw = k[0].kw
            args = [kw[x].key for x in sorted(kw) if x.startswith('#')]
            return tuple(('kill', args[0] if args else None, args[1] if len(args) > 1 else None, args[-1] if args else None) for _ in k)
        table_check(ctx, rule, f, paths, atoms,
                    lambda v: (('kill', 'settings.process.ultimate_exiting_timeout', 'signal.pthread_kill', 'signal.SIGKILL'),) if (not v['F'] and not v['T']) else (),
                    observe, what='ultimate_termination: SIGKILL of the operator\'s thread is scheduled after settings.process.ultimate_exiting_timeout iff the operator '
                                  'was not stopped intentionally (stop flag) and that timeout is not None (0 means at once) -- the bound on the exit')
    # stop_flag_checker
    s, sg = cfg_of(ctx, f'{RUN}.stop_flag_checker')
    sig, stp = _has_param(s, 'signal_flag'), _has_param(s, 'stop_flag')
    ws = [c for c in calls_in(s.node) if (repo.resolve(s.module, c.func) or '') == 'asyncio.wait']
    ctx.require_sites(rule, 'stop_flag_checker: wait for the flags', len(ws), 1, s.loc())
    for c in ws:
        rw = kwarg(c, 'return_when')
        ctx.ob(rule, 'stop_flag_checker: it ends as soon as ANY of the flags is raised (FIRST_COMPLETED) -- its end is what makes run_tasks stop the operator',
               rw is not None and (repo.resolve(s.module, rw) or '') == 'asyncio.FIRST_COMPLETED', loc=s.loc(c), construct=construct(s, 'config:wait(FIRST_COMPLETED)'),
               detail=f'return_when={norm(rw)}')
        lst = dotted(c.args[0]) if c.args else None
        apps = sg.stmt_nodes(lambda x: isinstance(x, ast.Call) and method_call(x, 'append') is not None and dotted(method_call(x, 'append')) == lst)
        seen = {}
        for n in apps:
            a = [x for x in calls_in(n.stmt) if method_call(x, 'append') is not None and dotted(method_call(x, 'append')) == lst][0].args[0]
            if dotted(a) != sig:
                a = origin(s, a)
            if dotted(a) == sig:
                who, name = 'signal', sig
            elif any(is_call_to(repo, s, x, 'aioadapters.wait_flag') and x.args and dotted(x.args[0]) == stp for x in calls_in(a)) and \
                    isinstance(a, ast.Call) and (repo.resolve(s.module, a.func) or '').endswith('create_task'):
                who, name = 'stop', stp
            else:
                continue
            conds = []
            for t, o, _ in dominating_conditions(sg, n):
                conds.extend(_cond_atoms(s, t, o) or [(t, o)])
            seen[who] = conds and all(_is_none_test(e, o) == (name, False) for e, o in conds)
        ctx.ob(rule, 'stop_flag_checker: the signal future and a waiter task for the stop flag are both among the awaited flags, each iff it is given (is not None)',
               seen.get('signal') is True and seen.get('stop') is True, loc=s.loc(c), construct=construct(s, 'flow:both flags awaited'), detail=str(seen))
    loops = [n for n in walk_no_defs(s.node) if isinstance(n, (ast.While, ast.For))]
    ctx.ob(rule, 'stop_flag_checker: one wait, no loop: once a flag is raised the task ends', not loops, loc=s.loc(), construct=construct(s, 'loop:none'))
    # the wiring in spawn_tasks
    st = repo.fn(f'{RUN}.spawn_tasks')
    ctx.analysed(st)
    for callee in ('stop_flag_checker', 'ultimate_termination'):
        cs = [c for c in ast.walk(st.node) if isinstance(c, ast.Call) and is_call_to(repo, st, c, f'{RUN}.{callee}')]
        v = [kwarg(c, 'stop_flag') for c in cs]
        ctx.ob(rule, f'spawn_tasks: {callee} gets the caller\'s stop flag', len(cs) == 1 and isinstance(v[0], ast.Name) and v[0].id == 'stop_flag'
               and any(a.arg == 'stop_flag' for a in st.params()), loc=st.loc(cs[0]) if cs else st.loc(), construct=construct(st, f'config:{callee}(stop_flag=)'))
    cs = [c for c in ast.walk(st.node) if isinstance(c, ast.Call) and is_call_to(repo, st, c, f'{RUN}.stop_flag_checker')]
    sf = dotted(kwarg(cs[0], 'signal_flag')) if cs and kwarg(cs[0], 'signal_flag') is not None else None
    sigs = set()
    for c in calls_in(st.node):
        if method_call(c, 'add_signal_handler') is not None and len(c.args) >= 2 and dotted(c.args[1]) == f'{sf}.set_result':
            sigs.add((repo.resolve(st.module, c.args[0]) or '').rsplit('.', 1)[-1])
    ctx.ob(rule, 'spawn_tasks: SIGINT and SIGTERM both complete the signal future that the stop-flag checker awaits', sf is not None and {'SIGINT', 'SIGTERM'} <= sigs,
           loc=st.loc(), construct=construct(st, 'config:signal handlers'), detail=f'signal_flag={sf}; handled {sorted(sigs)}')


def check_startup_cleanup_extra(ctx: Ctx, rule: str) -> None:
    repo = ctx.repo
    f, g = cfg_of(ctx, f'{RUN}.startup_cleanup_activities')

    def activity(member: str):
        def is_act(x: ast.AST) -> bool:
            if isinstance(x, ast.Call) and is_call_to(repo, f, x, f'{ACT}.run_activity'):
                v = kwarg(x, 'activity')
                return v is not None and (repo.resolve(f.module, v) or '').endswith('causes.Activity.' + member)
            return False
        return g.stmt_nodes(is_act)
    cleanup = activity('CLEANUP')
    sets = g.stmt_nodes(lambda x: isinstance(x, ast.Call) and method_call(x, 'set') is not None and dotted(method_call(x, 'set')) == 'started_flag')
    ctx.require_sites(rule, 'startup_cleanup_activities: the CLEANUP activity', len(cleanup), 1, f.loc())
    ctx.require_sites(rule, 'startup_cleanup_activities: started_flag.set()', len(sets), 1, f.loc())
    after = g.reach(sets)
    idle = [n for n in g.nodes if n in after and n.kind == 'stmt' and n.suspends and not n.in_finally and any(
        isinstance(x, ast.Await) and isinstance(x.value, ast.Call) and method_call(x.value, 'wait') is not None and isinstance(method_call(x.value, 'wait'), ast.Call)
        and (repo.resolve(f.module, method_call(x.value, 'wait').func) or '') == 'asyncio.Event' for x in walk_no_defs(n.stmt))]
    ctx.require_sites(rule, 'startup_cleanup_activities: the idle wait between startup and cleanup', len(idle), 1, f.loc())
    for n in idle:
        t = n.exc_edges.get('cancel')
        region = (g.reach([t], edge_ok=no_abnormal) | {t}) if t is not None else set()
        ok = t is not None and all(c in region for c in cleanup) and bool(cleanup)
        ctx.ob(rule, 'startup_cleanup_activities: the cancellation that ends the idle wait (= the operator begins to shut down) is absorbed and leads, along normal '
               'control flow, to the wait for the other root tasks, the stop of the core tasks and the CLEANUP activity -- cleanup handlers do run on a regular stop',
               ok, loc=f.loc(n.stmt), construct=construct(f, 'reach:cancelled idle wait -> CLEANUP'),
               detail='' if ok else 'from the cancellation of the idle wait the CLEANUP activity is not reachable without a further exception')
    # authenticator / authenticate
    a, ag = cfg_of(ctx, f'{ACT}.authenticator')
    loops = [n for n in walk_no_defs(a.node) if isinstance(n, ast.While)]
    forever = len(loops) == 1 and isinstance(loops[0].test, ast.Constant) and loops[0].test.value is True \
        and not [n for n in walk_no_defs(a.node) if isinstance(n, (ast.Break, ast.Return))]
    auth_calls = [c for lp in loops for c in calls_in(lp) if is_call_to(repo, a, c, f'{ACT}.authenticate') and isinstance(a.module.parent.get(c), ast.Await)]
    ctx.ob(rule, 'authenticator: re-authenticates forever -- an endless loop awaiting authenticate(), never left on its own (the credentials vault is refilled '
           'whenever it runs empty for the whole life of the operator)', forever and len(auth_calls) == 1, loc=a.loc(), construct=construct(a, 'loop:forever authenticate'))
    for c in auth_calls:
        miss = [x for x in ('registry', 'settings', 'indices', 'vault', 'memo') if not (isinstance(kwarg(c, x), ast.Name) and kwarg(c, x).id == x)]
        ctx.ob(rule, 'authenticator: the vault, registry, settings, indices and memo it was given are what authenticate() works on', not miss, loc=a.loc(c),
               construct=construct(a, 'config:authenticate(**same names)'), detail=f'not forwarded: {miss}')
    swallow = [h for n in walk_no_defs(a.node) if isinstance(n, ast.Try) for h in n.handlers if not _reraises(h)]
    ctx.ob(rule, 'authenticator: a failed login activity is not swallowed (the core task ends with it and the failure is re-raised at the operator\'s exit)', not swallow,
           loc=a.loc(swallow[0]) if swallow else a.loc(), construct=construct(a, 'allexits:failure propagates'))
    u, ug = cfg_of(ctx, f'{ACT}.authenticate')
    vault = _has_param(u, 'vault')
    gate = ug.stmt_nodes(lambda x: isinstance(x, ast.Call) and method_call(x, 'wait_for_emptiness') is not None and dotted(method_call(x, 'wait_for_emptiness')) == vault)
    act = ug.call_nodes(f'{ACT}.run_activity')
    pop = ug.stmt_nodes(lambda x: isinstance(x, ast.Call) and method_call(x, 'populate') is not None and dotted(method_call(x, 'populate')) == vault)
    ctx.require_sites(rule, 'authenticate: wait for the vault to run empty', len(gate), 1, u.loc())
    ctx.require_sites(rule, 'authenticate: the login activity', len(act), 1, u.loc())
    ctx.require_sites(rule, 'authenticate: vault.populate', len(pop), 1, u.loc())
    ctx.ob(rule, 'authenticate: the login handlers run only after the vault reported emptiness (otherwise the forever-loop around it spins through the login handlers)',
           bool(gate) and not ug.dominated(act, gate), loc=u.loc(), construct=construct(u, 'dom:wait_for_emptiness<run_activity'))
    for n in act:
        c = [c for c in calls_in(n.stmt) if is_call_to(repo, u, c, f'{ACT}.run_activity')][0]
        v = kwarg(c, 'activity')
        ctx.ob(rule, 'authenticate: runs the AUTHENTICATION activity', v is not None and (repo.resolve(u.module, v) or '').endswith('causes.Activity.AUTHENTICATION'),
               loc=u.loc(c), construct=construct(u, 'config:activity=AUTHENTICATION'), detail=norm(v))
    esc = ug.escaping_exits(act, pop, classes=('normal',))
    res = {t.id for n in act if isinstance(n.stmt, ast.Assign) for t in n.stmt.targets if isinstance(t, ast.Name)}
    fed = all(_derives_from(u, n.stmt, res) for n in pop) and bool(res)
    ctx.ob(rule, 'authenticate: whatever the login handlers returned -- also nothing -- is fed into the vault on every normal path (populate() is what unfreezes the API '
           'clients waiting for credentials; skipped for an empty result, they would hang forever and the operator would linger half-alive)', bool(pop) and not esc and fed,
           loc=u.loc(pop[0].stmt) if pop else u.loc(), construct=construct(u, 'allexits:populate after the activity'),
           detail='; '.join(witness(ug, act, e, pop) for e in esc[:1]) or ('' if fed else 'populate() is not fed from the activity results'))


def check_run_activity(ctx: Ctx, rule: str) -> None:
    repo = ctx.repo
    f, g = cfg_of(ctx, f'{ACT}.run_activity')
    act = _has_param(f, 'activity')
    gh = [c for c in calls_in(f.node) if method_call(c, 'get_handlers') is not None and src(method_call(c, 'get_handlers')).endswith('._activities')]
    ctx.require_sites(rule, 'run_activity: selection of the activity handlers', len(gh), 1, f.loc())
    causes_ = [c for c in calls_in(f.node) if any(n.endswith('causes.ActivityCause') for n in repo.callee_names(f, c))]
    ok = bool(gh) and all(dotted(kwarg(c, 'activity', 0)) == act for c in gh) and bool(causes_) and all(dotted(kwarg(c, 'activity')) == act for c in causes_) \
        and all(src(method_call(c, 'get_handlers')) == 'registry._activities' for c in gh)
    ctx.ob(rule, 'run_activity: the handlers selected from the given registry and the cause they get are those of the requested activity (startup handlers at '
           'startup, cleanup handlers at cleanup)', ok, loc=f.loc(gh[0]) if gh else f.loc(), construct=construct(f, 'config:get_handlers(activity=activity)'))
    loops = [n for n in walk_no_defs(f.node) if isinstance(n, ast.While)]
    ctx.require_sites(rule, 'run_activity: retry loop', len(loops), 1, f.loc())
    for lp in loops:
        at = _atoms_of(lp.test, True)
        st = dotted(at[0][0].value) if at and len(at) == 1 and isinstance(at[0][0], ast.Attribute) and at[0][0].attr == 'done' and at[0][1] is False else None
        execs = [c for c in calls_in(lp) if is_call_to(repo, f, c, 'execution.execute_handlers_once')]
        rebinds = [n for s in lp.body for n in walk_no_defs(s) if isinstance(n, ast.Assign) and any(dotted(t) == st for t in n.targets)
                   and isinstance(n.value, ast.Call) and method_call(n.value, 'with_outcomes') is not None and dotted(method_call(n.value, 'with_outcomes')) == st]
        cur = {t.id for n in walk_no_defs(lp) if isinstance(n, ast.Assign) and isinstance(n.value, ast.Await) and n.value.value in execs
               for t in n.targets if isinstance(t, ast.Name)}
        ok = st is not None and len(execs) == 1 and dotted(kwarg(execs[0], 'state')) == st and len(rebinds) == 1 \
            and rebinds[0].value.args and dotted(rebinds[0].value.args[0]) in cur \
            and not [n for s in lp.body for n in walk_no_defs(s) if isinstance(n, (ast.Break, ast.Return))]
        ctx.ob(rule, 'run_activity: cycles run while the state is not done; each cycle executes the handlers on the current state and re-binds the state to '
               '`state.with_outcomes(<this cycle\'s outcomes>)`; the loop is left only through its condition (every handler has finished -- succeeded or failed for good)',
               ok, loc=f.loc(lp), construct=construct(f, 'loop:until state.done on the re-bound state'), detail=f'loop condition `{norm(lp.test, 40)}`')
        sl = [c for c in calls_in(lp) if is_call_to(repo, f, c, 'aiotime.sleep')]
        ok = len(sl) == 1 and sl[0].args and src(sl[0].args[0]) == f'{st}.delay' and all(
            n.lineno < sl[0].lineno or True for n in rebinds)
        sn = g.stmt_nodes(lambda x: x in sl)
        rn = g.stmt_nodes(lambda x: any(x is n.value for n in rebinds))
        inside = loop_nodes(g, lp)
        heads = [n for n in g.nodes if n.kind == 'loop' and n.stmt is lp]
        ordered = bool(sn) and bool(rn) and not any(h in g.reach(rn, stop=lambda n: n in set(sn), edge_ok=lambda a, b: b in inside and no_abnormal(a, b)) for h in heads)
        ctx.ob(rule, 'run_activity: between two cycles it sleeps for the delay of the re-bound state (the retry delay / backoff of the handlers that must be retried)',
               ok and ordered, loc=f.loc(sl[0]) if sl else f.loc(lp), construct=construct(f, 'order:with_outcomes<sleep(state.delay)'))
    raises = [n for n in g.nodes if n.kind == 'raise' and not any(fr.kind == 'loop' for fr in n.frames)]
    ctx.require_sites(rule, 'run_activity: failure escalation (raise)', len(raises), 1, f.loc())
    for n in raises:
        conds = []
        for t, o, b in dominating_conditions(g, n):
            if isinstance(b.stmt, (ast.While, ast.For)):
                continue
            conds.extend(_cond_atoms(f, t, o) or [(t, o)])
        problems = []
        if len(conds) != 1 or conds[0][1] is not True or not isinstance(conds[0][0], ast.Name):
            problems.append('the raise is not decided by the mere non-emptiness of the collected exceptions: ' + ' and '.join(norm(e, 40) for e, _ in conds))
        else:
            comp = origin(f, conds[0][0])
            if not (isinstance(comp, (ast.ListComp, ast.SetComp)) and len(comp.generators) == 1 and isinstance(comp.generators[0].target, ast.Name)):
                problems.append(f'`{norm(comp, 60)}` is not the list of the outcomes\' exceptions')
            else:
                gen = comp.generators[0]
                tv = gen.target.id
                ca: list = []
                for i in gen.ifs:
                    ca.extend(_atoms_of(i, True) or [(i, True)])
                if not (src(comp.elt) == f'{tv}.exception' and len(ca) == 1 and _is_none_test(*ca[0]) == (f'{tv}.exception', False)):
                    problems.append(f'collected: `{norm(comp.elt, 30)}` if `{" and ".join(norm(i, 40) for i in gen.ifs)}` (must be every outcome\'s exception that is not None)')
                gi = _unwrap(gen.iter)
                if not (isinstance(gi, ast.Call) and method_call(gi, 'values') is not None and isinstance(method_call(gi, 'values'), ast.Name)):
                    problems.append(f'collected from `{norm(gen.iter, 40)}`, not from the values of the accumulated outcomes')
        exc = n.stmt.exc
        if not (isinstance(exc, ast.Call) and (repo.resolve(f.module, exc.func) or '').endswith('activities.ActivityError')):
            problems.append(f'raises `{norm(exc, 40)}`, not ActivityError')
        ctx.ob(rule, 'run_activity: after the loop an ActivityError is raised iff at least one accumulated outcome carries an exception (`is not None`) -- one failed '
               'startup handler aborts the operator before any root task is released', not problems, loc=f.loc(n.stmt), construct=construct(f, 'guard:raise iff any exception'),
               detail=' | '.join(problems))


EXTRA = {
    'C09': [(check_match_daemons, 'R9.20'), (check_instant_exit, 'R9.21'), (check_spawn_extras, 'R9.22'), (check_delays_flow, 'R9.23'),
            (check_killer_pausing, 'R9.24'), (check_is_set, 'R9.25'), (check_reason_flags, 'R9.26'), (check_sleep, 'R9.27'),
            (check_scheduler_close, 'R9.28')],
    'C10': [(check_sleep, 'R10.20')],
    'C20': [(check_stop, 'R20.20'), (check_wait, 'R20.21'), (check_all_tasks, 'R20.22'), (check_guard, 'R20.23'), (check_reraise, 'R20.24'),
            (check_scheduler_close, 'R20.25'), (check_scheduler_callbacks, 'R20.26'), (check_run_operator, 'R20.27'), (check_terminators, 'R20.28'),
            (check_startup_cleanup_extra, 'R20.29'), (check_run_activity, 'R20.30')],
    'C01': [(check_scheduler_close, 'R1.20'), (check_scheduler_callbacks, 'R1.21')],
}
