"""C04 -- change detection is exact, the framework's own writes are invisible to it (DESIGN.md §4 C04, R4.1-R4.6).

The location / erase-footprint model and the abstract string domain are shared with C16 (same author) and live there.
"""
from __future__ import annotations

import ast
from typing import Any, Optional

from .. import absint
from ..core import Ctx, PropSpec
from ..rules import calls_in, cfg_of, dominating_conditions, is_call_to, kwarg, norm, origin
from ..srcmodel import AnalysisError, FuncInfo, Repo, dotted, src, walk_no_defs
from .C16 import (BODY_CLS, CONV, DIFB, FORMING, MARKING, PATCH_CLS, PROG, Access, Erase, _forward_check, accesses, analyse_names,
                  arg_desc, chain_path, fmt_loc, footprint, key_desc, local_defs, param_names, prefix_is_enforced, root_kind, single_def,
                  storage_classes)

PROCESSING = 'kopf._core.reactor.processing'
DIFFS = 'kopf._cogs.structs.diffs'
BASE_BUILD = f'{DIFB}.DiffBaseStorage'
IMPLEMENTATION_MODULES = ('kopf._cogs.structs.patches', 'kopf._cogs.structs.dicts')   # the data structures themselves


# ====================================================================================== R4.1 write footprint vs erase footprint
def literal_set(repo: Repo, cls_qual: str, attr: str) -> Optional[set]:
    """Value of a class-level ``frozenset([...])`` / set / tuple of string constants."""
    ci = repo.classes.get(cls_qual)
    v = ci.field_defaults.get(attr) if ci else None
    if isinstance(v, ast.Call) and dotted(v.func) in ('frozenset', 'set', 'tuple', 'list') and len(v.args) == 1:
        v = v.args[0]
    if isinstance(v, (ast.List, ast.Tuple, ast.Set)) and all(isinstance(x, ast.Constant) and isinstance(x.value, str) for x in v.elts):
        return {x.value for x in v.elts}  # type: ignore[attr-defined]
    return None


def private_attr(repo: Repo, cls_qual: str, suffix: str) -> Optional[str]:
    ci = repo.classes.get(cls_qual)
    if ci is None:
        return None
    names = [n for n in ci.field_defaults if n.strip('_').upper().endswith(suffix)]
    return names[0] if len(names) == 1 else None


def path_tuple(loc: tuple) -> Optional[tuple]:
    """('path', segs) -> tuple of literal segments with '*' for symbolic ones."""
    if loc[0] == 'path':
        return tuple(s[1] if s[0] == 'lit' else '*' for s in loc[1])
    if loc[0] == 'ann':
        return ('metadata', 'annotations', '*')
    return None


def _seg_may_equal(a: str, b: str) -> bool:
    return a == b or a == '*' or b == '*' or '{' in a or '{' in b


def erased_by(rules: list[Erase], path: tuple) -> tuple[bool, str]:
    """Is every location under ``path`` removed from the essence by the literal path rules, and not restored?"""
    if not path:
        return False, 'empty path'
    hit = None
    for e in rules:
        if e.kind == 'path' and len(e.desc) <= len(path) and all(a == b for a, b in zip(e.desc, path)):
            hit = e
    if hit is None:
        return False, f'no rule deletes `{".".join(path)}` or a parent of it'
    for e in rules:
        if e.kind == 'restore':
            n = min(len(e.desc), len(path))
            if all(_seg_may_equal(a, b) for a, b in zip(e.desc[:n], path[:n])):
                return False, f'`{".".join(e.desc)}` is restored into the essence afterwards'
    return True, f'del essence[{".".join(hit.desc)!r}]'


def default_field_path(repo: Repo, cls_qual: str, attr: str) -> Optional[tuple]:
    """Declared default of a configurable field (trusted base 6): the property ``attr`` returns ``self._attr``, which the
    constructor sets from the parameter ``attr`` (a template formatted with the other parameters, then parsed)."""
    getter = None
    for c in repo.mro(cls_qual):       # the getter among getter/setter pairs of the same name
        ci = repo.classes.get(c)
        cands_g = [n for n in ci.node.body if isinstance(n, ast.FunctionDef) and n.name == attr
                   and any(dotted(d) == 'property' for d in n.decorator_list)] if ci else []
        if cands_g:
            getter = cands_g[0]
            break
    init = repo.find_method(cls_qual, '__init__')
    if init is None:
        return None
    stored = attr
    if getter is not None:
        rets = [n for n in walk_no_defs(getter) if isinstance(n, ast.Return) and n.value is not None]
        if len(rets) != 1 or not (isinstance(rets[0].value, ast.Attribute) and dotted(rets[0].value.value) == 'self'):
            return None
        stored = rets[0].value.attr
    assigns = [n for n in walk_no_defs(init.node) if isinstance(n, ast.Assign) and len(n.targets) == 1 and dotted(n.targets[0]) == f'self.{stored}']
    if len(assigns) != 1:
        return None
    a = init.node.args  # type: ignore[attr-defined]
    defaults = {p.arg: d for p, d in zip(a.kwonlyargs, a.kw_defaults) if d is not None}
    defaults.update(dict(zip([p.arg for p in a.args][::-1], list(a.defaults)[::-1])))
    # which parameter feeds the assignment?  follow locals backwards (the last binding before the assignment)
    seen: set[str] = set()
    feeding: list[str] = []
    order: dict[int, int] = {}          # program order of the constructor's statements (pre-order of the body)

    def number(stmts: list) -> None:
        for st in stmts:
            order[id(st)] = len(order)
            for fld in ('body', 'orelse', 'finalbody'):
                number(getattr(st, fld, []) or [])
    number(init.node.body)  # type: ignore[attr-defined]

    def feed(e: ast.AST, before: int, depth: int = 0) -> None:
        for n in ast.walk(e):
            if isinstance(n, ast.Name) and isinstance(n.ctx, ast.Load) and n.id not in seen:
                seen.add(n.id)
                binds = [s for s in walk_no_defs(init.node) if isinstance(s, ast.Assign) and order.get(id(s), -1) < before
                         and any(isinstance(t, ast.Name) and t.id == n.id for t in s.targets)]
                if binds and depth < 4:
                    last = max(binds, key=lambda s: order.get(id(s), -1))
                    seen.discard(n.id)
                    feed(last.value, order.get(id(last), -1), depth + 1)
                    seen.add(n.id)
                elif n.id in defaults:
                    feeding.append(n.id)
    feed(assigns[0].value, order.get(id(assigns[0]), len(order)))
    cands = [p for p in dict.fromkeys(feeding) if isinstance(defaults[p], ast.Constant) and isinstance(defaults[p].value, str) and '.' in defaults[p].value]
    if len(cands) != 1:
        return None
    return tuple(defaults[cands[0]].value.split('.'))


def patch_target(repo: Repo, f: FuncInfo, root: Optional[ast.AST]) -> str:
    """'object' (the patch of the object being processed) or 'foreign:<name expr>' (a locally built patch that is only ever
    sent to an object whose name does not come from the processed body: the peering object, the webhook configuration)."""
    if root is None:
        return 'object'
    holder: Optional[str] = None
    if isinstance(root, ast.Name):
        ds = [d for d in local_defs(f, root.id) if not (d[0] == 'other' and isinstance(d[1], ast.AugAssign))]
        if len(ds) == 1 and ds[0][0] == 'assign' and isinstance(ds[0][1], ast.Call) and PATCH_CLS in repo.callee_names(f, ds[0][1]) \
                and kwarg(ds[0][1], 'body') is None:
            holder = root.id
    elif isinstance(root, ast.Call) and PATCH_CLS in repo.callee_names(f, root) and kwarg(root, 'body') is None:
        holder = ''
    if holder is None:
        return 'object'
    sinks = []
    for c in calls_in(f.node):
        for v in list(c.args) + [k.value for k in c.keywords]:
            if (holder and isinstance(v, ast.Name) and v.id == holder) or (holder == '' and v is root):
                sinks.append(c)
    if not sinks:
        return 'object'
    names = []
    for c in sinks:
        if not is_call_to(repo, f, c, 'kopf._cogs.clients.patching.patch_obj'):
            return 'object'
        nm = kwarg(c, 'name')
        if nm is None:
            return 'object'
        e = nm
        if isinstance(e, ast.Name):
            d = single_def(f, e.id)
            e = d[1] if d is not None and d[0] == 'assign' else e
        if any(isinstance(x, (ast.Name, ast.Attribute)) and repo.type_of(f, x) == BODY_CLS for x in ast.walk(e)):
            return 'object'
        names.append(src(e))
    return 'foreign:' + ','.join(sorted(set(names)))


def _tuple_element_is_patch(repo: Repo, f: FuncInfo, name: str) -> bool:
    """``_, name = await callee(...)`` where the callee is annotated to return tuple[..., Patch | None] at that position."""
    ok = False
    for kind, node in local_defs(f, name):
        if kind != 'other' or not isinstance(node, ast.Assign) or not isinstance(node.targets[0], ast.Tuple):
            return False
        idx = [i for i, t in enumerate(node.targets[0].elts) if isinstance(t, ast.Name) and t.id == name]
        v = node.value.value if isinstance(node.value, ast.Await) else node.value
        if len(idx) != 1 or not isinstance(v, ast.Call):
            return False
        for cq in repo.callee_names(f, v):
            g = repo.funcs.get(cq)
            ann = g.node.returns if g is not None else None  # type: ignore[attr-defined]
            if isinstance(ann, ast.Subscript) and isinstance(ann.slice, ast.Tuple) and idx[0] < len(ann.slice.elts) \
                    and g is not None and repo.ann_class(g.module, ann.slice.elts[idx[0]]) == PATCH_CLS:
                ok = True
            else:
                return False
    return ok


def patch_constructions(repo: Repo, f: FuncInfo) -> list[tuple[ast.Call, str, list]]:
    """(call, verdict, dict-keys) for Patch(...) constructions carrying content: 'empty' | 'carry' | 'literal' | 'unknown'."""
    out = []
    for c in calls_in(f.node):
        if PATCH_CLS not in repo.callee_names(f, c):
            continue
        srcarg = c.args[0] if c.args else kwarg(c, 'src')
        fns = kwarg(c, 'fns')
        verdict, keys = 'empty', []
        if srcarg is not None:
            if isinstance(srcarg, ast.Dict) and all(isinstance(k, ast.Constant) for k in srcarg.keys):
                verdict, keys = 'literal', [k.value for k in srcarg.keys]  # type: ignore[union-attr]
            elif root_kind(repo, f, srcarg) == 'patch' or (isinstance(srcarg, ast.Name) and _tuple_element_is_patch(repo, f, srcarg.id)):
                verdict = 'carry'
            else:
                verdict = 'unknown'
        if fns is not None and verdict != 'unknown':
            if not (isinstance(fns, ast.Attribute) and fns.attr == 'fns' and root_kind(repo, f, fns.value) == 'patch'):
                verdict = 'unknown'
            elif verdict == 'empty':
                verdict = 'carry'
        out.append((c, verdict, keys))
    return out


def _guarded_by_emptiness(repo: Repo, f: FuncInfo, a: Access) -> bool:
    """A deletion under `not <the same location>`: only an empty container is removed (no information leaves the object)."""
    target = a.node
    if isinstance(target, ast.Call):      # x.remove(v) etc. are not container deletions
        return False
    root, segs = chain_path(repo, f, target)
    parent = f.module.parent
    child, p = target, parent.get(target)
    while p is not None and p is not f.node:
        if isinstance(p, ast.If) and any(child is s for s in p.body):
            conj = p.test.values if isinstance(p.test, ast.BoolOp) and isinstance(p.test.op, ast.And) else [p.test]
            for t in conj:
                if isinstance(t, ast.UnaryOp) and isinstance(t.op, ast.Not):
                    r2, s2 = chain_path(repo, f, t.operand)
                    if s2 == segs and src(r2) == src(root):
                        return True
        child, p = p, parent.get(p)
    return False


def fn_target(repo: Repo, f: FuncInfo, e: Optional[ast.AST]) -> Optional[FuncInfo]:
    """The repository function behind ``functools.partial(fn, ...)`` / ``fn``."""
    if isinstance(e, ast.Call) and (repo.resolve(f.module, e.func) or '') == 'functools.partial' and e.args:
        e = e.args[0]
    if e is None:
        return None
    r = repo.resolve(f.module, e)
    return repo.funcs.get(r) if r else None


def check_footprint(ctx: Ctx, prefixed: bool) -> None:
    repo = ctx.repo
    base_rules = footprint(repo, BASE_BUILD, 'build')
    base_f = repo.fn(f'{BASE_BUILD}.build')
    ctx.analysed(base_f)
    progress = storage_classes(repo, f'{PROG}.ProgressStorage')
    diffbase = storage_classes(repo, f'{DIFB}.DiffBaseStorage')
    markers = literal_set(repo, MARKING, private_attr(repo, MARKING, 'KNOWN_MARKERS') or '')
    if markers is None:
        raise AnalysisError(f'{MARKING}: the set of known markers is not a literal collection')

    # -- the erase rules themselves
    for c in diffbase:
        fp = footprint(repo, c, 'build')
        bf = repo.find_method(c, 'build')
        ctx.ob('R4.1', f'{c.rsplit(".", 1)[-1]}.build applies the base essence rules (chains to DiffBaseStorage.build)',
               any(e.f is base_f for e in fp), loc=bf.loc() if bf else '', construct=f'{c}.build:footprint:chains-base')
    restored = [e for e in base_rules if e.kind == 'restore']
    extra = [e for e in restored if tuple(e.desc) not in (('metadata', 'labels'), ('metadata', 'annotations'))]
    ctx.ob('R4.1', 'DiffBaseStorage.build restores nothing but metadata.labels and metadata.annotations into the essence (system metadata and '
           'status never count as a change)', not extra and len(restored) >= 2, loc=base_f.loc(extra[0].node) if extra else base_f.loc(),
           construct=f'{BASE_BUILD}.build:footprint:cherrypick', detail=', '.join('.'.join(e.desc) for e in extra))
    for top in ('metadata', 'status'):
        ctx.ob('R4.1', f'DiffBaseStorage.build deletes the whole `{top}` stanza from the essence', any(e.kind == 'path' and e.desc == (top,) for e in base_rules),
               loc=base_f.loc(), construct=f'{BASE_BUILD}.build:footprint:del-{top}')
    ctx.ob('R4.1', 'DiffBaseStorage.build removes every annotation under a prefix recognised by _detect_marked_prefixes',
           any(e.kind == 'ann-marked' for e in base_rules), loc=base_f.loc(), construct=f'{BASE_BUILD}.build:footprint:marked-prefixes')
    for c, m in [(c, 'build') for c in diffbase + [BASE_BUILD]] + [(c, 'clear') for c in progress]:
        mf = repo.classes[c].methods.get(m)
        if mf is None:
            continue
        ctx.analysed(mf)
        unknown = [e for e in footprint(repo, c, m) if e.kind == 'unknown' and e.f is mf]
        ctx.ob('R4.1', f'{c.rsplit(".", 1)[-1]}.{m}: every modification of the essence is a recognised erase/restore rule', not unknown, loc=mf.loc(),
               construct=f'{c}.{m}:footprint:recognised', detail='; '.join(str(e.desc) for e in unknown))
    ra = repo.fn(f'{CONV}.StorageStanzaCleaner.remove_annotations')
    ctx.analysed(ra)
    comps = [n for n in walk_no_defs(ra.node) if isinstance(n, ast.DictComp)]
    keys_param = [a.arg for a in ra.params()][-1]
    ok = len(comps) == 1 and len(comps[0].generators) == 1 and len(comps[0].generators[0].ifs) == 1
    if ok:
        t = comps[0].generators[0].ifs[0]
        ok = isinstance(t, ast.Compare) and len(t.ops) == 1 and isinstance(t.ops[0], ast.NotIn) and dotted(t.comparators[0]) == keys_param \
            and isinstance(comps[0].key, ast.Name) and dotted(t.left) == comps[0].key.id
    ctx.ob('R4.1', 'remove_annotations keeps exactly the annotations whose key is not in the given set', ok, loc=ra.loc(),
           construct=f'{ra.qualname}:footprint:filter')

    # -- the writes
    n_sites = 0
    n_foreign = 0
    per_class_done: set = set()

    def own_rules(cls: str) -> tuple[list[Erase], str]:
        if cls in progress or cls == f'{PROG}.ProgressStorage':
            return footprint(repo, cls, 'clear'), 'clear'
        return footprint(repo, cls, 'build'), 'build'

    def judge(loc: tuple, cls: Optional[str], call_prefix: Optional[tuple] = None) -> tuple[bool, str]:
        """Is a write to ``loc`` (by storage class ``cls`` if any) removed from the essence?"""
        if loc[0] == 'ann':
            kd = loc[1]
            if cls is None:
                return False, 'an annotation written outside a storage class has no erase rule'
            rules, eraser = own_rules(cls)
            if kd[0] == 'make_keys':
                for e in rules:
                    if e.kind == 'ann-keys' and e.desc == kd:
                        return True, f'{eraser}: removes exactly {fmt_loc(kd)}'
                    if e.kind == 'ann-prefix' and e.desc == ('self', 'prefix') and prefixed:
                        return True, f'{eraser}: removes every key under `{{self.prefix}}/` (R4.2: keys start with it)'
                return False, f'{cls.rsplit(".", 1)[-1]}.{eraser} has no rule removing {fmt_loc(kd)}'
            if kd[0] == 'fstr' and len(kd[1]) == 2 and kd[1][1][0] == 'lit' and kd[1][1][1].startswith('/'):
                name = kd[1][1][1][1:]
                if any(e.kind == 'ann-prefix' and e.desc == call_prefix for e in rules):
                    return True, f'{eraser}: removes every key under the prefix'
                if any(e.kind == 'ann-marked' for e in rules) and name in markers:
                    return True, f'{eraser}: `{name}` is a known marker, its whole prefix is removed'
                return False, f'marker `{name}` is not removed by {cls.rsplit(".", 1)[-1]}.{eraser}'
            return False, f'annotation key {fmt_loc(kd)} is not derived by make_keys'
        if loc[0] in ('selfattr', 'sub') and cls is not None:
            rules, eraser = own_rules(cls)
            base_loc = loc if loc[0] == 'selfattr' else loc[1]
            if any(e.kind == 'loc' and e.desc in (loc, base_loc) for e in rules):
                return True, f'{eraser}: dicts.remove(essence, {fmt_loc(base_loc)})'
            if base_loc[0] == 'selfattr':
                dflt = default_field_path(repo, cls, base_loc[1])
                if dflt is not None:
                    ok, why = erased_by(base_rules, dflt)
                    return ok, f'declared default `{".".join(dflt)}` (trusted base 6): {why}'
                return False, f'no own erase rule and no declared default for self.{base_loc[1]}'
            return False, 'unrecognised field expression'
        pt = path_tuple(loc)
        if pt is not None:
            return erased_by(base_rules, pt)
        return False, f'unclassified location {fmt_loc(loc)}'

    storage_bases = set(progress + diffbase + [f'{PROG}.ProgressStorage', BASE_BUILD])
    for f in repo.all_functions():
        if f.module.name in IMPLEMENTATION_MODULES:
            continue
        lt = repo.local_types(f)
        if PATCH_CLS not in lt.values() and not any(PATCH_CLS in repo.callee_names(f, c) for c in calls_in(f.node)) \
                and not any(isinstance(n, ast.Attribute) and n.attr == 'patch' for n in walk_no_defs(f.node)):
            continue
        # content-carrying constructions
        for c, verdict, keys in patch_constructions(repo, f):
            if verdict in ('empty', 'carry'):
                continue
            tgt = patch_target(repo, f, c)
            if tgt.startswith('foreign:'):
                n_foreign += 1
                continue
            if verdict == 'literal':
                n_sites += 1
                for k in keys:
                    ok, why = judge(('path', (('lit', k), ('any',))), None)
                    ctx.ob('R4.1', f'{f.short}: a patch constructed with `{k}` content is removed from the essence', ok, loc=f.loc(c),
                           construct=f'{f.qualname}:footprint:Patch({k})', detail=why)
            else:
                ctx.ob('R4.1', f'{f.short}: the content a Patch is constructed from is classified (empty, carried-over patch, literal)', False,
                       loc=f.loc(c), construct=f'{f.qualname}:footprint:Patch(?)', detail=norm(c))
        accs = [a for a in accesses(repo, f) if a.root == 'patch' and a.op != 'read']
        if not accs:
            continue
        ctx.analysed(f)
        for a in accs:
            tgt = patch_target(repo, f, a.root_expr)
            if tgt.startswith('foreign:'):
                n_foreign += 1
                continue
            n_sites += 1
            if a.op == 'drop':
                continue        # removes a pending instruction from the patch: nothing reaches the object
            if a.op == 'fn':
                g = fn_target(repo, f, a.value)
                if g is None:
                    ctx.ob('R4.1', f'{f.short}: the transformation function appended to the patch is a known repository function', False, loc=a.where,
                           construct=f'{f.qualname}:footprint:fn', detail=norm(a.value))
                    continue
                ctx.analysed(g)
                inner = [x for x in accesses(repo, g) if x.root == 'body' and x.op != 'read']
                ctx.ob('R4.1', f'{f.short}: transformation `{g.name}` has its writes into the object enumerated ({len(inner)})', bool(inner), loc=a.where,
                       construct=f'{f.qualname}:footprint:fn:{g.name}:sites')
                for x in inner:
                    if x.op == 'drop' and _guarded_by_emptiness(repo, g, x):
                        continue
                    if (g.qualname, x.op, x.loc) in per_class_done:
                        continue
                    per_class_done.add((g.qualname, x.op, x.loc))
                    ok, why = judge(x.loc, None)
                    ctx.ob('R4.1', f'{g.name} (patch function queued by {f.name}): the write to `{fmt_loc(x.loc)}` is removed from the essence', ok,
                           loc=x.where, construct=f'{g.qualname}:footprint:{x.op}:{fmt_loc(x.loc)}', detail=why)
                continue
            # dictionary writes: judged per storage class that runs this method, else against the base rules
            classes: list[Optional[str]] = [None]
            call_prefixes: dict = {}
            if f.cls is not None and f.cls.qualname in storage_bases:
                classes = [c for c in progress + diffbase if repo.find_method(c, f.name) is f]
            elif f.cls is not None and f.cls.qualname == MARKING:
                classes = []
                for c in progress + diffbase:
                    for m, mf in repo.classes[c].methods.items():
                        for call in calls_in(mf.node):
                            if is_call_to(repo, mf, call, f.qualname):
                                classes.append(c)
                                call_prefixes[c] = arg_desc(mf, kwarg(call, 'prefix', 0))
                classes = list(dict.fromkeys(classes))
                ctx.ob('R4.1', f'{f.name}: the marker writer is used by the annotation storages', len(classes) >= 2, loc=f.loc(),
                       construct=f'{f.qualname}:footprint:callers', detail=str(classes))
            for c in classes:
                key = (f.qualname, c, a.op, a.loc)
                if key in per_class_done:
                    continue
                per_class_done.add(key)
                ok, why = judge(a.loc, c, call_prefixes.get(c) if c else None)
                who = f'{c.rsplit(".", 1)[-1]} ' if c else ''
                ctx.ob('R4.1', f'{who}{f.short.rsplit(".", 1)[-1]}: the write to `{fmt_loc(a.loc)}` is removed from the essence '
                       f'({"by the same storage class" if c else "by DiffBaseStorage.build"})', ok, loc=a.where,
                       construct=f'{c or f.qualname}:{f.name}:footprint:{fmt_loc(a.loc)}', detail=why)
    ctx.count('patch_write_sites', n_sites)
    ctx.count('foreign_target_sites', n_foreign)
    ctx.require_sites('R4.1', 'framework writes into the patch of the processed object', n_sites, 16)
    # framework call sites of the storage operations (resolved through the abstract storage types)
    ncalls = 0
    for target in (f'{PROG}.ProgressStorage.store', f'{PROG}.ProgressStorage.purge', f'{PROG}.ProgressStorage.touch', f'{BASE_BUILD}.store'):
        sites = [(g, c) for g, c in repo.call_sites_of(target, exact=True) if g.cls is None or g.cls.qualname not in storage_bases]
        ncalls += len(sites)
    ctx.count('storage_call_sites', ncalls)
    ctx.require_sites('R4.1', 'framework call sites of store/purge/touch through the storage interfaces', ncalls, 7)


# ====================================================================================== R4.2 keys start with `{self.prefix}/`
def check_prefix(ctx: Ctx, na: Any) -> None:
    repo = ctx.repo
    enforced, init = prefix_is_enforced(repo)
    ctx.analysed(init)
    ctx.ob('R4.2', 'annotation storages reject an empty prefix at construction (so `key.startswith(f"{self.prefix}/")` selects the own keys)',
           enforced, loc=init.loc(), construct=f'{FORMING}.__init__:config:prefix-nonempty')
    mk = repo.fn(f'{FORMING}.make_keys')
    ctx.analysed(mk)
    ctx.ob('R4.2', f'make_keys returns nothing but results of the key-forming methods ({", ".join(na.forming)})', na.elements_ok and bool(na.forming),
           loc=mk.loc(), construct=f'{FORMING}.make_keys:flow:elements')
    for m, fa in na.facts.items():
        ctx.analysed(fa.fn)
        ctx.ob('R4.2', f'{m}: every generated key starts with `{{self.prefix}}/` (abstract evaluation of the returned string)', fa.prefixed,
               loc=fa.fn.loc(), construct=f'{fa.fn.qualname}:strdom:prefixed',
               detail='' if fa.prefixed else 'the returned concatenation does not begin with self.prefix followed by a literal "/"')
    ctx.require_sites('R4.2', 'key-forming methods analysed', len(na.facts), 2, mk.loc())
    # the cleaner of the annotation progress storage keys on that very prefix
    for c in storage_classes(repo, f'{PROG}.ProgressStorage'):
        own = repo.classes[c].methods.get('clear')
        if own is None or FORMING not in repo.mro(c):
            continue
        rules = [e for e in footprint(repo, c, 'clear') if e.kind == 'ann-prefix']
        ctx.ob('R4.2', f'{c.rsplit(".", 1)[-1]}.clear selects its keys by `startswith(f"{{self.prefix}}/")`', any(e.desc == ('self', 'prefix') for e in rules),
               loc=own.loc(), construct=f'{c}.clear:keys:prefix-rule', detail='; '.join(str(e) for e in rules))


# ====================================================================================== R4.3 marker writer/reader agreement
def _atoms(test: ast.AST, outcome: bool) -> list[tuple[ast.AST, bool]]:
    """Atomic facts implied by (test == outcome): conjunctions are split, negations folded; anything else stays whole."""
    if isinstance(test, ast.UnaryOp) and isinstance(test.op, ast.Not):
        return _atoms(test.operand, not outcome)
    if isinstance(test, ast.BoolOp) and ((isinstance(test.op, ast.And) and outcome) or (isinstance(test.op, ast.Or) and not outcome)):
        return [x for v in test.values for x in _atoms(v, outcome)]
    if isinstance(test, ast.Compare) and len(test.ops) == 1 and isinstance(test.ops[0], (ast.NotIn, ast.NotEq, ast.IsNot)):
        flipped = {ast.NotIn: ast.In, ast.NotEq: ast.Eq, ast.IsNot: ast.Is}[type(test.ops[0])]()
        return [(ast.Compare(test.left, [flipped], test.comparators), not outcome)]
    return [(test, outcome)]


def _inline_locals(f: FuncInfo, e: ast.AST) -> ast.AST:
    """Replace single-assignment boolean locals by their defining expressions (conditions named into locals)."""
    import copy
    params = param_names(f)

    class T(ast.NodeTransformer):
        depth = 0

        def visit_Name(self, n: ast.Name) -> ast.AST:
            d = single_def(f, n.id)
            if isinstance(n.ctx, ast.Load) and n.id not in params and d is not None and d[0] == 'assign' and self.depth < 4 \
                    and isinstance(d[1], (ast.BoolOp, ast.UnaryOp, ast.Compare, ast.Call)):
                self.depth += 1
                out = self.visit(copy.deepcopy(d[1]))
                self.depth -= 1
                return out
            return n
    return T().visit(copy.deepcopy(e))


def _rename(e: ast.AST, mapping: dict) -> str:
    class T(ast.NodeTransformer):
        def visit_Name(self, n: ast.Name) -> ast.AST:
            return ast.Name(id=mapping.get(n.id, n.id), ctx=ast.Load())
    import copy
    return ast.dump(T().visit(copy.deepcopy(e)))


def check_marker(ctx: Ctx) -> None:
    repo = ctx.repo
    w, g = cfg_of(ctx, f'{MARKING}._store_marker')
    rd = repo.fn(f'{MARKING}._detect_marked_prefixes')
    ctx.analysed(rd)
    mattr = private_attr(repo, MARKING, 'KNOWN_MARKERS')
    pattr = private_attr(repo, MARKING, 'KNOWN_PREFIXES')
    markers = literal_set(repo, MARKING, mattr or '')
    prefixes = literal_set(repo, MARKING, pattr or '')
    if markers is None or prefixes is None:
        raise AnalysisError(f'{MARKING}: known markers/prefixes are not literal collections')

    # -- the reader: which tests recognise a prefix, with and without a marker
    loops = [n for n in walk_no_defs(rd.node) if isinstance(n, ast.For)]
    if len(loops) != 1:
        raise AnalysisError(f'{rd.loc()}: expected one loop over the keys in the marker reader')
    pair_src: ast.AST = loops[0].iter
    body_rest = list(loops[0].body)
    if isinstance(loops[0].target, ast.Tuple) and len(loops[0].target.elts) == 2 and all(isinstance(x, ast.Name) for x in loops[0].target.elts):
        rp, rn = (x.id for x in loops[0].target.elts)  # type: ignore[attr-defined]
    else:
        # the explicit form: `for key in keys: [if '/' not in key: continue]  prefix, name = key.split('/', 1)  ...`
        unpack = [st for st in loops[0].body if isinstance(st, ast.Assign) and len(st.targets) == 1 and isinstance(st.targets[0], ast.Tuple)
                  and len(st.targets[0].elts) == 2 and all(isinstance(x, ast.Name) for x in st.targets[0].elts)]
        if len(unpack) != 1:
            raise AnalysisError(f'{rd.loc()}: expected one loop over (prefix, name) pairs in the marker reader')
        rp, rn = (x.id for x in unpack[0].targets[0].elts)  # type: ignore[attr-defined]
        pair_src = unpack[0].value
        body_rest = loops[0].body[loops[0].body.index(unpack[0]) + 1:]
    arms: list[tuple[ast.AST, bool]] = []       # (test, uses the marker name)
    node: Any = body_rest[0] if len(body_rest) == 1 else None
    while isinstance(node, ast.If):
        adds = any(isinstance(c.func, ast.Attribute) and c.func.attr == 'add' and c.args and dotted(c.args[0]) == rp for c in calls_in(ast.Module(body=node.body, type_ignores=[])))
        if adds:
            # `if a: add elif b: add` and `if a or b: add` are the same reader
            for t in (node.test.values if isinstance(node.test, ast.BoolOp) and isinstance(node.test.op, ast.Or) else [node.test]):
                arms.append((t, rn in {x.id for x in ast.walk(t) if isinstance(x, ast.Name)}))
        node = node.orelse[0] if len(node.orelse) == 1 else None
    marker_arms = [t for t, by_name in arms if by_name]
    free_arms = [t for t, by_name in arms if not by_name]
    ok_marker_arm = any(isinstance(t, ast.Compare) and len(t.ops) == 1 and isinstance(t.ops[0], ast.In) and dotted(t.left) == rn
                        and dotted(t.comparators[0]) == f'self.{mattr}' for t in marker_arms)
    ctx.ob('R4.3', 'reader: a prefix is recognised when one of its names is a known marker', ok_marker_arm, loc=rd.loc(),
           construct=f'{rd.qualname}:keys:marker-arm')
    ctx.require_sites('R4.3', 'reader: marker-free recognition tests', len(free_arms), 1, rd.loc())
    # the (prefix, name) pairs come from splitting at the first "/"
    it = origin(rd, pair_src) if isinstance(pair_src, ast.Name) else pair_src      # the pairs may be named in a local first
    splits = [c for c in calls_in(it) if isinstance(c.func, ast.Attribute) and c.func.attr == 'split' and c.args and isinstance(c.args[0], ast.Constant)]
    ok_split = len(splits) == 1 and splits[0].args[0].value == '/' and len(splits[0].args) == 2 and isinstance(splits[0].args[1], ast.Constant) and splits[0].args[1].value == 1
    ctx.ob('R4.3', 'reader: keys are split into prefix and name at the first "/"', ok_split, loc=rd.loc(it), construct=f'{rd.qualname}:keys:split')

    # -- the writer
    writes = [a for a in accesses(repo, w) if a.root == 'patch' and a.op == 'set' and a.loc[0] == 'ann']
    ctx.require_sites('R4.3', 'writer: marker annotation write', len(writes), 1, w.loc())
    wp = next((a.arg for a in w.params() if a.arg == 'prefix'), None)
    for a in writes:
        kd = a.loc[1]
        shape_ok = kd[0] == 'fstr' and len(kd[1]) == 2 and kd[1][0] == ('param', wp) and kd[1][1][0] == 'lit' and kd[1][1][1].startswith('/')
        name = kd[1][1][1][1:] if shape_ok else None
        ctx.ob('R4.3', f'writer: the marker key is `{{prefix}}/<name>` with <name> a marker the reader knows ({name!r} in {sorted(markers)})',
               shape_ok and name in markers, loc=a.where, construct=f'{w.qualname}:keys:marker-name', detail=fmt_loc(a.loc))
        st = repo.stmt_of(w.module, a.node)
        nodes = g.stmt_nodes(lambda x, _st=st: x is _st)
        if not nodes:
            raise AnalysisError(f'{a.where}: marker write not found in the CFG')
        conds = dominating_conditions(g, nodes[0])
        bad: list[str] = []
        n_disjuncts = 0
        for test, outcome, _ in conds:
            for atom, pol in _atoms(_inline_locals(w, test), outcome):
                # the marker is written only if (atom == pol); it is skipped when (atom == not pol)
                skip_pol = not pol
                n_disjuncts += 1
                txt = ('' if skip_pol else 'not ') + src(atom, 90)
                if isinstance(atom, ast.Name) and atom.id == wp and skip_pol is False:
                    continue                                     # no prefix: nothing to mark (rejected by the constructor, R4.2)
                if isinstance(atom, ast.Compare) and isinstance(atom.ops[0], ast.In) and skip_pol is True:
                    kd2 = key_desc(repo, w, atom.left)
                    root, segs = chain_path(repo, w, atom.comparators[0])
                    if kd2 == kd and segs == [('lit', 'metadata'), ('lit', 'annotations')] and root_kind(repo, w, root) in ('body', 'patch'):
                        continue                                 # the marker is already there (object or pending patch)
                if skip_pol is True and isinstance(atom, ast.Call) and any(n == rd.qualname for n in repo.callee_names(w, atom)):
                    arg = atom.args[0] if atom.args else None
                    elts = arg.elts if isinstance(arg, (ast.List, ast.Tuple, ast.Set)) else []
                    kds = [key_desc(repo, w, x) for x in elts]
                    if kds and all(k[0] == 'fstr' and len(k[1]) == 2 and k[1][0] == ('param', wp) and k[1][1][0] == 'lit' and k[1][1][1].startswith('/')
                                   and k[1][1][1][1:] not in markers for k in kds):
                        continue                                 # the reader itself, asked about this prefix with a non-marker name
                    bad.append(f'{txt} (the reader is asked about a key that is itself a marker or not built from the prefix)')
                    continue
                if skip_pol is True and any(_rename(atom, {wp or '': '§p'}) == _rename(t, {rp: '§p'}) for t in free_arms):
                    continue                                     # literally one of the reader's marker-free tests
                if skip_pol is True and isinstance(atom, ast.Compare) and len(atom.ops) == 1 and dotted(atom.left) == wp:
                    comp = atom.comparators[0]
                    vals = None
                    if isinstance(atom.ops[0], ast.Eq) and isinstance(comp, ast.Constant):
                        vals = {comp.value}
                    elif isinstance(atom.ops[0], ast.In) and isinstance(comp, (ast.Tuple, ast.List, ast.Set)) and all(isinstance(x, ast.Constant) for x in comp.elts):
                        vals = {x.value for x in comp.elts}  # type: ignore[attr-defined]
                    direct = any(isinstance(t, ast.Compare) and isinstance(t.ops[0], ast.In) and dotted(t.left) == rp and dotted(t.comparators[0]) == f'self.{pattr}'
                                 for t in free_arms)
                    if vals is not None and direct and vals <= prefixes:
                        continue                                 # equality with prefixes the reader knows
                bad.append(txt)
        ctx.ob('R4.3', 'writer: every condition under which no marker is written is one the reader recognises the prefix under without a marker '
               f'({n_disjuncts} conditions: empty prefix, marker already present, the reader\'s own verdict or one of its marker-free tests)',
               not bad and n_disjuncts >= 1, loc=a.where, construct=f'{w.qualname}:keys:skip-implies-recognised',
               detail='; '.join(f'skipped when `{b}`' for b in bad))


# ====================================================================================== R4.4 sibling key derivation
def check_siblings(ctx: Ctx) -> None:
    repo = ctx.repo
    c = f'{DIFB}.AnnotationsDiffBaseStorage'
    descs: dict[str, set] = {}
    for m in ('store', 'fetch'):
        f = repo.fn(f'{c}.{m}')
        ctx.analysed(f)
        descs[m] = {a.loc[1] for a in accesses(repo, f) if a.root in ('body', 'patch') and a.loc[0] == 'ann'}
    bf = repo.fn(f'{c}.build')
    ctx.analysed(bf)
    descs['build'] = {e.desc for e in footprint(repo, c, 'build') if e.kind == 'ann-keys' and e.f is bf}
    allv = set().union(*descs.values())
    ok = len(allv) == 1 and all(len(v) == 1 for v in descs.values()) and next(iter(allv))[0] == 'make_keys'
    ctx.ob('R4.4', 'AnnotationsDiffBaseStorage: store, fetch and build derive the annotation keys with one identical expression '
           f'({"; ".join(sorted(fmt_loc(x) for x in allv))})', ok, loc=bf.loc(), construct=f'{c}:sibling:key-derivation',
           detail='; '.join(f'{m}: {sorted(fmt_loc(x) for x in v) or "none"}' for m, v in descs.items()))
    if ok:
        d = next(iter(allv))
        ctx.ob('R4.4', 'AnnotationsDiffBaseStorage: the keys are those of the configured key for the object at hand (self.key, body=body)',
               d[1] == ('self', 'key') and d[2] == ('param', 'body'), loc=bf.loc(), construct=f'{c}:sibling:key-arguments', detail=fmt_loc(d))
    m = f'{DIFB}.MultiDiffBaseStorage'
    mb = repo.fn(f'{m}.build')
    ctx.analysed(mb)
    good, why = _forward_check(repo, mb, 'build')
    ctx.ob('R4.4', 'MultiDiffBaseStorage.build passes the essence through the build() of every sub-storage, unconditionally, and returns the result',
           good, loc=mb.loc(), construct=f'{m}.build:sibling:chain', detail=why)
    sup = [e for e in footprint(repo, m, 'build') if e.kind == 'chain' and e.desc == 'super' and e.f is mb]
    ctx.ob('R4.4', 'MultiDiffBaseStorage.build starts from the base essence (super().build)', bool(sup), loc=mb.loc(), construct=f'{m}.build:sibling:base-first')


# ====================================================================================== R4.5 both sides cleaned
def check_detect(ctx: Ctx) -> None:
    repo = ctx.repo
    f = repo.fn(f'{PROCESSING}._detect_causes')
    ctx.analysed(f)

    def eff(it: Any, p: Any, call: ast.Call, names: set) -> Optional[str]:
        for n in names:
            if n == f'{DIFFS}.diff':
                return 'diff'
            if n == 'kopf._core.intents.causes.detect_changing_cause':
                return 'cause'
            if n.startswith(PROG) and n.endswith('.clear'):
                return 'clear'
            if n.startswith(DIFB) and n.endswith('.fetch'):
                return 'fetch'
            if n.startswith(DIFB) and n.endswith('.build'):
                return 'build'
        return None
    paths = absint.analyse(repo, f, absint.Config(effect=eff))
    ctx.count('paths', len(paths))
    bad: list[str] = []
    n_clean = 0
    for p in paths:
        fetches, builds, clears = p.effects('fetch'), p.effects('build'), p.effects('clear')
        cleaned = {}
        for e in clears:
            arg = e.kw.get('essence') or e.kw.get('#0')
            cleaned[e.key] = arg.key if arg is not None else None
        for label, i_old, i_new in (('diff', '#0', '#1'), ('cause', 'old', 'new')):
            for e in p.effects(label):
                for side, k, srcs in (('old', i_old, fetches), ('new', i_new, builds)):
                    v = e.kw.get(k)
                    if v is None:
                        bad.append(f'{label}: no `{side}` argument')
                        continue
                    if v.key == 'None' or p.atoms.get(f'isnone({v.key})') is True:
                        continue          # nothing stored yet / nothing built: nothing to clean
                    origin = cleaned.get(v.key, '<not cleaned>')
                    if v.key in cleaned and any(origin == s.key for s in srcs):
                        n_clean += 1
                        continue
                    bad.append(f'{label}({side}=…) is `{v.key[:70]}` (cleaned from: {str(origin)[:60]})')
    ctx.ob('R4.5', f'_detect_causes: on all {len(paths)} paths both the stored essence (diffbase fetch) and the current one (diffbase build) pass through '
           'progress_storage.clear() before they are compared and handed to the cause', not bad and n_clean >= 4, loc=f.loc(),
           construct=f'{f.qualname}:config:both-sides-cleaned', detail='; '.join(sorted(set(bad))[:4]))
    diffs_ = [c for c in calls_in(f.node) if is_call_to(repo, f, c, f'{DIFFS}.diff')]
    ctx.require_sites('R4.5', '_detect_causes: comparison of the two essences', len(diffs_), 1, f.loc())
    for c in diffs_:
        sc = kwarg(c, 'scope', 3)
        ctx.ob('R4.5', '_detect_causes: the essences are compared in full scope', sc is None or (repo.resolve(f.module, sc) or '').endswith('DiffScope.FULL'),
               loc=f.loc(c), construct=f'{f.qualname}:config:full-scope', detail=src(sc))


# ====================================================================================== R4.6 the recursive diff
def _keyset_of(f: FuncInfo, e: ast.AST, depth: int = 0) -> Optional[str]:
    """'a' / 'b' (old / new side) if the expression is the key set of that parameter (frozenset(a.keys()), set(a), a.keys(), a local)."""
    sides = dict(zip([x.arg for x in f.params()][:2], ('a', 'b')))
    if isinstance(e, ast.Name) and depth < 8:
        if e.id in sides and not local_defs(f, e.id):
            return sides[e.id]
        d = single_def(f, e.id)
        return _keyset_of(f, d[1], depth + 1) if d is not None and d[0] == 'assign' else None
    if isinstance(e, ast.Call) and dotted(e.func) in ('frozenset', 'set', 'list', 'tuple', 'sorted') and len(e.args) == 1:
        return _keyset_of(f, e.args[0], depth + 1)
    if isinstance(e, ast.Call) and isinstance(e.func, ast.Attribute) and e.func.attr == 'keys' and not e.args:
        return _keyset_of(f, e.func.value, depth + 1)
    return None


def _scope_guard(repo: Repo, f: FuncInfo, t: ast.AST) -> Optional[str]:
    """`DiffScope.X in scope` -> 'X'."""
    if isinstance(t, ast.Compare) and len(t.ops) == 1 and isinstance(t.ops[0], ast.In) and dotted(t.comparators[0]) == 'scope':
        r = repo.resolve(f.module, t.left) or ''
        if '.DiffScope.' in r:
            return r.rsplit('.', 1)[-1]
    return None


def check_diff(ctx: Ctx) -> None:
    repo = ctx.repo
    f = repo.fn(f'{DIFFS}.diff_iter')
    ctx.analysed(f)
    pnames = [a.arg for a in f.params()]
    if len(pnames) < 4 or 'scope' not in pnames or 'path' not in pnames:
        raise AnalysisError(f'{f.loc()}: diff_iter(<old>, <new>, path, *, scope) expected')
    PA, PB = pnames[0], pnames[1]
    # FULL = LEFT | RIGHT
    scope_cls = repo.cls(f'{DIFFS}.DiffScope')
    full = scope_cls.field_defaults.get('FULL')
    full_members = {n.id for n in ast.walk(full) if isinstance(n, ast.Name)} if isinstance(full, ast.BinOp) and isinstance(full.op, ast.BitOr) else set()
    ctx.ob('R4.6', 'DiffScope.FULL is LEFT | RIGHT', full_members == {'LEFT', 'RIGHT'}, loc=f'{scope_cls.module.relpath()}:{scope_cls.node.lineno}',
           construct=f'{scope_cls.qualname}:config:FULL', detail=src(full))
    for fn_name in ('diff_iter', 'diff'):
        g = repo.fn(f'{DIFFS}.{fn_name}')
        a = g.node.args  # type: ignore[attr-defined]
        d = {p.arg: v for p, v in zip(a.kwonlyargs, a.kw_defaults) if v is not None}
        ctx.ob('R4.6', f'{fn_name}: the default scope is DiffScope.FULL', (repo.resolve(g.module, d['scope']) or '').endswith('DiffScope.FULL') if 'scope' in d else False,
               loc=g.loc(), construct=f'{g.qualname}:config:default-scope', detail=src(d.get('scope')))
    dg = repo.fn(f'{DIFFS}.diff')
    ctx.analysed(dg)
    inner = [c for c in calls_in(dg.node) if is_call_to(repo, dg, c, f'{DIFFS}.diff_iter')]
    dparams = [x.arg for x in dg.params()][:2]
    okf = len(inner) == 1 and [dotted(x) for x in inner[0].args[:2]] == dparams and dotted(kwarg(inner[0], 'scope') or ast.Constant(None)) == 'scope' \
        and dotted(kwarg(inner[0], 'path', 2) or ast.Constant(None)) == 'path'
    ctx.ob('R4.6', 'diff() hands a, b, path and scope unchanged to diff_iter()', okf, loc=dg.loc(), construct=f'{dg.qualname}:flow:forward',
           detail=norm(inner[0]) if inner else 'no call')

    # the recursion over the key partitions
    rec: list[tuple[ast.For, ast.Call]] = []
    for loop in [n for n in walk_no_defs(f.node) if isinstance(n, ast.For)]:
        for c in calls_in(loop):
            if is_call_to(repo, f, c, f.qualname) and isinstance(f.module.parent.get(c), ast.YieldFrom):
                rec.append((loop, c))
    found: dict[str, list] = {}
    problems: list[str] = []
    for loop, call in rec:
        it = loop.iter
        if isinstance(it, ast.Name):
            it = (single_def(f, it.id) or ('', it))[1]
        guards: list[str] = []
        if isinstance(it, ast.IfExp):
            gname = _scope_guard(repo, f, it.test)
            empty_else = isinstance(it.orelse, (ast.Tuple, ast.List)) and not it.orelse.elts
            guards.append(gname if gname and empty_else else f'?{src(it.test)}')
            it = it.body
        p = f.module.parent.get(loop)
        child: ast.AST = loop
        while p is not None and p is not f.node:
            if isinstance(p, ast.If) and any(child is s for s in p.body):
                gname = _scope_guard(repo, f, p.test)
                # the type-dispatch arm (`isinstance(a, Mapping) and isinstance(b, Mapping)`, the if-chain form of `case Mapping(), Mapping()`)
                # selects the mapping case; it is not a condition on the recursion
                parts = p.test.values if isinstance(p.test, ast.BoolOp) and isinstance(p.test.op, ast.And) else [p.test]
                dispatch = all(isinstance(x, ast.Call) and dotted(x.func) == 'isinstance' and len(x.args) == 2 and dotted(x.args[0]) in (PA, PB) for x in parts)
                if not dispatch:
                    guards.append(gname or f'?{src(p.test)}')
            child, p = p, f.module.parent.get(p)
        it = it if not isinstance(it, ast.Name) else (single_def(f, it.id) or ('', it))[1]
        kind = None
        if isinstance(it, ast.BinOp) and isinstance(it.op, (ast.Sub, ast.BitAnd)):
            l, r = _keyset_of(f, it.left), _keyset_of(f, it.right)
            if l and r and l != r:
                kind = f'{l}-{r}' if isinstance(it.op, ast.Sub) else 'a&b'
        if kind is None:
            problems.append(f'loop over `{src(loop.iter, 60)}` is not a key partition')
            continue
        var = loop.target.id if isinstance(loop.target, ast.Name) else None

        def elem(e: ast.AST, side: str) -> bool:
            return isinstance(e, ast.Subscript) and dotted(e.value) == side and dotted(e.slice) == var

        def none(e: ast.AST) -> bool:
            return isinstance(e, ast.Constant) and e.value is None
        a0, a1 = (call.args + [None, None])[:2]
        want = {'b-a': none(a0) and a1 is not None and elem(a1, PB), 'a-b': a0 is not None and elem(a0, PA) and none(a1),
                'a&b': a0 is not None and a1 is not None and elem(a0, PA) and elem(a1, PB)}[kind]
        pth = kwarg(call, 'path', 2)
        path_ok = isinstance(pth, ast.BinOp) and isinstance(pth.op, ast.Add) and dotted(pth.left) == 'path' and isinstance(pth.right, ast.Tuple) \
            and len(pth.right.elts) == 1 and dotted(pth.right.elts[0]) == var
        scope_ok = dotted(kwarg(call, 'scope') or ast.Constant(None)) == 'scope'
        allowed_guard = {'b-a': {'RIGHT'}, 'a-b': {'LEFT'}, 'a&b': set()}[kind]
        guard_ok = set(guards) <= allowed_guard and set(guards) <= full_members
        found.setdefault(kind, []).append((want, path_ok, scope_ok, guard_ok, guards, call))
    labels = {'b-a': 'keys only in the new value (added)', 'a-b': 'keys only in the old value (removed)', 'a&b': 'keys in both'}
    for kind, label in labels.items():
        hits = found.get(kind, [])
        good = [h for h in hits if all(h[:4])]
        detail = 'no such loop' if not hits else '; '.join(
            f'values {"ok" if h[0] else "WRONG"}, path {"ok" if h[1] else "WRONG"}, scope {"ok" if h[2] else "not forwarded"}, guards {h[4] or "none"}' for h in hits)
        ctx.ob('R4.6', f'diff_iter: {label} are recursed into with the matching values, `path + (key,)` and the same scope, in FULL scope unconditionally',
               bool(good), loc=f.loc(hits[0][5]) if hits else f.loc(), construct=f'{f.qualname}:formula:partition:{kind}', detail=detail)
    ctx.ob('R4.6', 'diff_iter: every recursive loop iterates one of the three key partitions', not problems, loc=f.loc(),
           construct=f'{f.qualname}:formula:partitions-only', detail='; '.join(problems))
    # the leaf operations
    ops: dict[str, list] = {}
    for n in walk_no_defs(f.node):
        if isinstance(n, ast.Yield) and isinstance(n.value, ast.Call) and is_call_to(repo, f, n.value, f'{DIFFS}.DiffItem') and n.value.args:
            op = (repo.resolve(f.module, n.value.args[0]) or '').rsplit('.', 1)[-1]
            ops.setdefault(op, []).append(n)
    matches = [n for n in walk_no_defs(f.node) if isinstance(n, ast.Match)]

    def case_of(n: ast.AST) -> Optional[ast.match_case]:
        for m in matches:
            for cs in m.cases:
                if any(n is x for s in cs.body for x in ast.walk(s)):
                    return cs
        return None

    def irrefutable(pat: ast.AST) -> bool:
        return isinstance(pat, ast.MatchAs) and pat.pattern is None

    for op, label, shape in (('CHANGE', 'any other pair of unequal values (scalars, lists, type changes) yields CHANGE', 'default'),
                             ('ADD', 'an absent old value yields ADD', 'none-left'), ('REMOVE', 'an absent new value yields REMOVE', 'none-right')):
        ys = ops.get(op, [])
        ok = len(ys) == 1 and [dotted(x) for x in ys[0].value.args[1:4]] == ['path', PA, PB]
        why = '' if ok else f'{len(ys)} yields of DiffItem({op}, path, a, b)'
        if ok:
            cs = case_of(ys[0])
            if cs is not None:
                m = [m for m in matches if cs in m.cases][0]
                if shape == 'default':
                    ok = irrefutable(cs.pattern) and cs.guard is None and m.cases[-1] is cs
                    why = '' if ok else 'not the unguarded catch-all last case'
                else:
                    pats = cs.pattern.patterns if isinstance(cs.pattern, ast.MatchSequence) and len(cs.pattern.patterns) == 2 else None
                    i = 0 if shape == 'none-left' else 1
                    ok = pats is not None and isinstance(pats[i], ast.MatchSingleton) and pats[i].value is None and irrefutable(pats[1 - i]) and cs.guard is None
                    why = '' if ok else 'case pattern is not (None, _) / (_, None)'
        ctx.ob('R4.6', f'diff_iter: {label}', ok, loc=f.loc(ys[0]) if ys else f.loc(), construct=f'{f.qualname}:formula:leaf:{op}', detail=why)


def check(ctx: Ctx) -> None:
    na = analyse_names(ctx.repo)
    prefixed = bool(na.facts) and all(fa.prefixed for fa in na.facts.values()) and na.elements_ok and na.enforced
    check_footprint(ctx, prefixed)
    check_prefix(ctx, na)
    check_marker(ctx)
    check_siblings(ctx)
    check_detect(ctx)
    check_diff(ctx)
    from . import _extra
    _extra.check_fetch_none_tests(ctx, 'R4.7')


SPEC = PropSpec(
    id='C04',
    title='Change detection is exact: own writes invisible, diffs sound and complete',
    technique='static analysis: who-may-write enumeration of every write into an object patch, classified into abstract locations and compared with '
              'the erase rules of the storage classes (CONFINE+KEYS), abstract string domain for the key prefix (STRDOM), writer/reader predicate '
              'agreement on dominating conditions (KEYS), sibling agreement of key derivations (SIBLING), path enumeration over a predicate '
              'abstraction (CONFIG), structural formula of the recursive diff (FORMULA)',
    level_text='Static analysis of the current source: every statement of the package that writes into the patch of the processed object (storage '
               'methods, the marker, handler results, finalizer functions) is enumerated by type and resolved callee and its abstract location '
               '(status.**, metadata.finalizers, metadata.annotations[key from make_keys / marker], configurable fields at their declared defaults) '
               'is covered by an erase rule of the same storage class or of DiffBaseStorage.build; generated keys start with `{prefix}/`; the marker '
               'writer skips only where the reader recognises the prefix without a marker; store/fetch/build derive keys identically; both essences '
               'are cleaned on every path of _detect_causes; diff_iter recurses into all three key partitions in FULL scope and falls back to CHANGE. '
               'Decides these clauses, NOT diff/apply round trips over values.',
    level_note='configurable storage locations at their declared defaults (trusted base 6); user-chosen extra_fields/ignored_fields are the user\'s '
               'choice; peering and webhook-configuration patches address other objects (excluded by target)',
    design_ref='DESIGN.md §4 C04, Appendix B',
    explanation='CONFINE+KEYS footprint comparison over all patch write sites x storage classes, STRDOM prefix fact, KEYS agreement of the marker '
                'convention on CFG-dominating conditions, SIBLING over AnnotationsDiffBaseStorage/MultiDiffBaseStorage, path-enumerated CONFIG of '
                '_detect_causes, FORMULA of diffs.diff_iter.',
    not_decided='"applying diff to old yields new" and emptiness iff no essential difference for all values (Python equality: observation O3); '
                'reduction of a diff to a field; exotic user-configured storage fields.',
    check=check,
)
