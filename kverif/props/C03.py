"""C03 -- level-triggered convergence across changes, restarts and downtime (R3.1-R3.5; thin structural slice)."""
from __future__ import annotations

import ast

from .. import absint
from ..core import Ctx, PropSpec
from ..rules import (calls_in, cfg_of, cond_implies, construct, dominating_conditions, is_call_to, kwarg, loop_nodes,
                     method_call, norm, origin, table_check)
from ..srcmodel import AnalysisError, dotted, src, walk_no_defs

W = 'kopf._cogs.clients.watching'


def check_relisting(ctx: Ctx) -> None:
    """R3.1: every (re)start of a watch replays all objects."""
    repo = ctx.repo
    f, g = cfg_of(ctx, f'{W}.continuous_watch')
    lists = g.call_nodes('fetching.list_objs')
    ctx.require_sites('R3.1', 'continuous_watch: listing call', len(lists), 1, f.loc())
    yields = g.stmt_nodes(lambda x: isinstance(x, ast.Yield))
    ctx.require_sites('R3.1', 'continuous_watch: yields', len(yields), 3, f.loc())
    und = g.dominated(yields, lists)
    ctx.ob('R3.1', 'continuous_watch: every yielded event (listed objects, the LISTED bookmark, watch events) is dominated by a fresh listing',
           not und, loc=f.loc(und[0].stmt) if und else f.loc(), construct=construct(f, 'dom:list before every yield'),
           detail='; '.join(f'L{n.lineno} `{n.label[:50]}` reachable without listing' for n in und[:3]))
    # the listing loop yields every listed object, unconditionally, as an event without a type
    ln = lists[0]
    objs_name = None
    if isinstance(ln.stmt, ast.Assign) and isinstance(ln.stmt.targets[0], ast.Tuple) and isinstance(ln.stmt.targets[0].elts[0], ast.Name):
        objs_name = ln.stmt.targets[0].elts[0].id
    loops = [n for n in walk_no_defs(f.node) if isinstance(n, ast.For) and objs_name and dotted(n.iter) == objs_name]
    ok = False
    for lp in loops:
        body_yields = [y for s in lp.body for y in walk_no_defs(s) if isinstance(y, ast.Yield)]
        has_ctrl = any(isinstance(x, (ast.If, ast.Continue, ast.Break, ast.Try, ast.Return)) for s in lp.body for x in walk_no_defs(s))
        for y in body_yields:
            if isinstance(y.value, ast.Dict):
                d = {k.value: v for k, v in zip(y.value.keys, y.value.values) if isinstance(k, ast.Constant)}
                if isinstance(d.get('type'), ast.Constant) and d['type'].value is None and isinstance(lp.target, ast.Name) \
                        and dotted(d.get('object')) == lp.target.id and not has_ctrl:
                    ok = True
    ctx.ob('R3.1', 'continuous_watch: every listed object is yielded, unconditionally, as an event of type None', ok,
           loc=f.loc(loops[0]) if loops else f.loc(), construct=construct(f, 'flow:yield all listed'))
    # the LISTED bookmark follows the listing loop
    marks = [n for n in yields if (repo.resolve(f.module, n.stmt.value.value) or '').endswith('Bookmark.LISTED')] if yields else []
    loop_heads = [n for n in g.nodes if n.kind == 'loop' and loops and n.stmt is loops[0]]
    ctx.ob('R3.1', 'continuous_watch: the LISTED bookmark is emitted after the listing loop', bool(marks) and bool(loop_heads) and not g.dominated(marks, loop_heads),
           loc=f.loc(marks[0].stmt) if marks else f.loc(), construct=construct(f, 'order:listing<LISTED'))
    # infinite_watch: continuous_watch is created afresh in every iteration, with no state carried over
    iw, ig = cfg_of(ctx, f'{W}.infinite_watch')
    calls = [c for c in calls_in(iw.node) if is_call_to(repo, iw, c, f'{W}.continuous_watch')]
    ctx.require_sites('R3.1', 'infinite_watch: continuous_watch call', len(calls), 1, iw.loc())
    loops2 = [n for n in walk_no_defs(iw.node) if isinstance(n, ast.While)]
    for c in calls:
        inside = any(c in list(ast.walk(s)) for lp in loops2 for s in lp.body)
        params = {a.arg for a in iw.params()}
        withvars = {it.optional_vars.id for n in walk_no_defs(iw.node) if isinstance(n, (ast.With, ast.AsyncWith)) for it in n.items
                    if isinstance(it.optional_vars, ast.Name)}
        carried = [k.arg for k in c.keywords if not ({n.id for n in ast.walk(k.value) if isinstance(n, ast.Name)} <= params | withvars)]
        ctx.ob('R3.1', 'infinite_watch: a new continuous_watch (hence a new listing) is started in every iteration, from parameters only '
               '(no listing state or resource version carried across restarts)', inside and not carried, loc=iw.loc(c),
               construct=construct(iw, 'flow:fresh continuous_watch per iteration'), detail=f'carried: {carried}')


APPLY_ATOMS = {
    'P0': r'^truthy\(patch\)$',
    'P1': r'^truthy\(patch#\d+\)$',
    'DL': r'^truthy\(delays\)$',
    'DT': r'^truthy\(min\(delays\)\)$',
    'K': (r'^cmp\(.*WAITING_KEEPALIVE_INTERVAL, min\(delays\)\)$', None, ('<', '=', '>')),     # INTERVAL ? delay
    'Z': (r'^cmp\(0, min\(delays\)\)$', None, ('<', '=', '>')),                                  # 0 ? delay
    'U': r'^isnone\(.*aiotime\.sleep\(',
}


def check_apply(ctx: Ctx) -> None:
    """R3.2 (Appendix A.4) + R3.5."""
    repo = ctx.repo
    f = repo.fn('application.apply')
    ctx.analysed(f)

    def eff(it, p, call, names):
        if any(n.endswith('progress.ProgressStorage.touch') for n in names) or (method_call(call, 'touch') is not None and 'progress_storage' in src(call.func)):
            v = kwarg(call, 'value')
            pv = kwarg(call, 'patch')
            tgt = 'cycle-patch' if dotted(pv) == 'patch' else 'fresh-patch'
            return f'touch:{tgt}:' + ('clean' if isinstance(v, ast.Constant) and v.value is None else 'mark')
        if any(n.endswith('application.patch_and_check') for n in names):
            pv = kwarg(call, 'patch')
            return 'request:' + ('cycle-patch' if dotted(pv) == 'patch' else 'fresh-patch')
        if any(n.endswith('aiotime.sleep') for n in names):
            w = kwarg(call, 'wakeup')
            arg = it.ev(call.args[0], p).key if call.args else '?'
            what = 'limit' if 'WAITING_KEEPALIVE_INTERVAL' in arg else 'delay' if 'min(delays)' in arg else arg
            return f'sleep:{what}:' + ('interruptible' if dotted(w) == 'stream_pressure' else 'NOT-interruptible')
        return None
    cfg = absint.Config(effect=eff, versioned={'patch'}, bump={'touch': {'patch'}},
                        pure={'application.patch_and_check'})
    paths = absint.analyse(repo, f, cfg)

    def spec(v):
        e = []
        p0 = v['P0']
        p = v['P1'] if p0 else False
        if p0:
            e.append('touch:cycle-patch:clean')
        e.append('request:cycle-patch')
        applied = False
        if v['DL']:
            if v['DT'] and p:
                pass
            else:
                slept_out = True
                if v['K'] == '<':            # delay > keep-alive interval
                    e.append('sleep:limit:interruptible'); slept_out = v['U']
                elif v['Z'] == '<':          # delay > 0
                    e.append('sleep:delay:interruptible'); slept_out = v['U']
                if p and not v['DT']:
                    pass
                elif not slept_out:
                    pass                      # interrupted by new events: no touch
                else:
                    e.append('touch:fresh-patch:mark')
                    e.append('request:fresh-patch')
        else:
            if not p:
                applied = True
        e.append(('applied', applied))
        return tuple(e)

    def observe(p):
        e = [x.label for x in p.trace if x.label.startswith(('touch:', 'request:', 'sleep:'))]
        if p.status != 'return' or p.retval is None or p.retval.kind != 'tuple' or len(p.retval.data) != 3:
            e.append(('no-triple', p.status))
        else:
            a = p.retval.data[0]
            e.append(('applied', a.data if a.kind in ('const', 'bool') else a.key))
        return tuple(e)
    table_check(ctx, 'R3.2', f, paths, APPLY_ATOMS, spec, observe,
                what='apply() (Appendix A.4): a patch => one request, no sleep; no patch and a delay => interruptible sleep then exactly one '
                     'touch-patch iff not interrupted; no patch and no delay => no second request and applied=True (the framework stops writing)')
    sleeps = [c for c in calls_in(f.node) if is_call_to(repo, f, c, 'aiotime.sleep')]
    ctx.require_sites('R3.5', 'apply: sleeps', len(sleeps), 2, f.loc())
    for c in sleeps:
        ctx.ob('R3.5', 'apply: the sleep is interruptible by new events (wakeup=stream_pressure)', dotted(kwarg(c, 'wakeup')) == 'stream_pressure',
               loc=f.loc(c), construct=construct(f, f'config:sleep({norm(c.args[0], 30) if c.args else ""}, wakeup=)'))
    # the touch-patch is the minimal annotation/status marker: it goes through patch_and_check like any patch (never a direct API call)
    direct = [c for c in calls_in(f.node) if is_call_to(repo, f, c, 'api.patch', 'patching.patch_obj')]
    ctx.ob('R3.2', 'apply: all writes go through patch_and_check', not direct, loc=f.loc(), construct=construct(f, 'confine:patch_and_check only'))


def check_diffbase_guard(ctx: Ctx) -> None:
    """R3.3 (= R2.7's diff-base half): the last-handled state is written only when done or nothing to do."""
    repo = ctx.repo
    f, g = cfg_of(ctx, 'processing.process_changing_cause')
    stores = [n for n in g.nodes if n.kind == 'stmt' and any(
        method_call(c, 'store') is not None and 'diffbase_storage' in src(c.func) for c in calls_in(n.stmt))]
    ctx.require_sites('R3.3', 'process_changing_cause: diff-base store', len(stores), 1, f.loc())
    # The guard itself ("only under state.done, taken after the outcomes were merged, or when no handler was selected") is decided semantically by the closing table
    # (C02.check_cycle_closing, run by this property as R3.3): it enumerates the paths and needs no particular naming of the flags.  The syntactic version that
    # stood here (two locals `done`/`skip` in an `or`) reported behaviour-preserving rewrites that drop the flag variables, and was removed.


def check_detect_causes(ctx: Ctx) -> None:
    """R3.4: downtime changes surface as one accumulated diff against the stored last-handled state."""
    repo = ctx.repo
    f = repo.fn('processing._detect_causes')
    ctx.analysed(f)
    diffs = [c for c in calls_in(f.node) if is_call_to(repo, f, c, 'diffs.diff')]
    ctx.require_sites('R3.4', '_detect_causes: diff computation', len(diffs), 1, f.loc())

    def chain(name: str) -> list[str]:
        """callee attribute names applied to `body` to produce the final binding of a local (last assignment wins)."""
        out = []
        assigns = [a for a in walk_no_defs(f.node) if isinstance(a, ast.Assign) and any(isinstance(t, ast.Name) and t.id == name for t in a.targets)]
        for a in sorted(assigns, key=lambda a: a.lineno):
            v = a.value
            if isinstance(v, ast.IfExp):
                v = v.body
            if isinstance(v, ast.Call) and isinstance(v.func, ast.Attribute):
                out.append(f'{src(v.func.value).split(".")[-1]}.{v.func.attr}')
        return out
    for c in diffs:
        if len(c.args) != 2 or not all(isinstance(a, ast.Name) for a in c.args):
            ctx.ob('R3.4', '_detect_causes: diff(old, new) over two locals', False, loc=f.loc(c), construct=construct(f, 'flow:diff(old,new)'))
            continue
        o, n = chain(c.args[0].id), chain(c.args[1].id)
        ctx.ob('R3.4', '_detect_causes: `old` is the stored last-handled state (diffbase_storage.fetch) cleaned by progress_storage.clear',
               o == ['diffbase_storage.fetch', 'progress_storage.clear'], loc=f.loc(c), construct=construct(f, 'flow:old=clear(fetch(body))'), detail=str(o))
        ctx.ob('R3.4', '_detect_causes: `new` is the current essence (diffbase_storage.build) cleaned by progress_storage.clear',
               n == ['diffbase_storage.build', 'progress_storage.clear'], loc=f.loc(c), construct=construct(f, 'flow:new=clear(build(body))'), detail=str(n))
    # the detected cause receives exactly these values
    cc = [c for c in calls_in(f.node) if is_call_to(repo, f, c, 'causes.detect_changing_cause')]
    for c in cc:
        ok = all(dotted(kwarg(c, k)) == k for k in ('old', 'new', 'diff'))
        ctx.ob('R3.4', '_detect_causes: the changing cause is detected from exactly (old, new, diff)', ok, loc=f.loc(c), construct=construct(f, 'config:detect_changing_cause(old,new,diff)'))


def check(ctx: Ctx) -> None:
    check_relisting(ctx)
    check_apply(ctx)
    check_diffbase_guard(ctx)
    check_detect_causes(ctx)
    # R3.3 in full (= R2.6/R2.7): the cycle is closed -- records purged, last-handled state stored, "handled once" flag set -- exactly when every
    # selected handler has finished or none was selected; progress is stored on every other path (so an unfinished handler is retried)
    from . import C02, C08, _prc
    C02.check_cycle_closing(ctx, rule_order='R3.3', rule_guard='R3.3')
    # R3.6: nothing left over from an earlier cycle can block handling forever: the carried-forward patch is replaced after every apply(),
    # and (table A.3) only a non-empty patch at entry or an awaited version make a cycle skip the state-dependent handlers
    C08.check_carry_forward(ctx, rule_prefix='R3.6')
    _prc.check_table(ctx, 'R3.6', 'process_resource_causes (Appendix A.3): state-dependent handlers are skipped only for a non-empty patch at entry, an awaited '
                     'version, or a finalizer-only cycle')
    # R3.7: an unfinished handler always yields a delay or is awake (so that apply() sleeps and touches, i.e. the next cycle is triggered)
    C02.check_formulas(ctx, rule='R3.7')


SPEC = PropSpec(
    id='C03',
    title='Level-triggered convergence across changes, restarts and downtime',
    technique='static analysis (thin structural slice): dominators on the CFG of the watch generators (DOM), decision table of application.apply by path '
              'enumeration with an ordering domain (TABLE), dominating-condition guard and def-use chains (GUARD/FLOW), keyword facts (CONFIG)',
    level_text='Decides only necessary structural conditions of convergence, not convergence: (1) every (re)start of a watch lists and replays all objects '
               'before anything else is yielded and no listing state survives a restart; (2) the full decision table of apply(): with a patch exactly one '
               'request and no sleep, with delays an interruptible sleep followed by exactly one touch-patch iff not interrupted, at quiescence no write '
               'at all; (3) the last-handled state is written only when every selected handler is done or none was selected; (4) the diff given to cause '
               'detection is stored-state vs current essence, both cleaned alike. Termination and the equality of the final recorded state over '
               'histories, kills and downtimes are NOT decided (history/liveness property).',
    level_note='values opaque; time arithmetic not interpreted (ordering domain only); DESIGN.md §3',
    design_ref='DESIGN.md §4 C03, Appendix A.4',
    explanation='DOM on watching.continuous_watch/infinite_watch; TABLE (A.4) on application.apply; GUARD on process_changing_cause; FLOW on _detect_causes.',
    not_decided='termination; "every selected handler completed against the final state"; kills before/after the server applied a write (whole-history liveness).',
    check=check,
)
