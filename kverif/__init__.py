"""kverif -- repository-specific static checkers for the 20 kopf properties (see /verif/DESIGN.md).

Everything here decides from the *source text* of the repository's working tree (``ast`` only).
Nothing imports kopf, runs an event loop, or calls a solver.
"""
