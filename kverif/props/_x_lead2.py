"""Rule instances added by the lead after the second round of seeded changes (DESIGN.md §8), plus cross-wiring of existing rule
sets into the properties whose statements depend on them."""
from __future__ import annotations

import ast

from .. import absint
from ..core import Ctx, include
from ..rules import calls_in, cfg_of, cond_implies, construct, dominating_conditions, is_call_to, kwarg, method_call, norm
from ..srcmodel import AnalysisError, dotted, src, walk_no_defs


def check_purge_tables(ctx: Ctx, rule: str) -> None:
    """purge() of the concrete progress storages: a record present on the object is nulled in the patch; a record only pending in the patch is
    taken out of the patch; never both, never neither when something is there -- and the sibling implementations agree."""
    repo = ctx.repo
    shapes = {}
    for cname in ('AnnotationsProgressStorage', 'StatusProgressStorage'):
        f = repo.fn(f'kopf._cogs.configs.progress.{cname}.purge')
        ctx.analysed(f)

        def eff(it, p, call, names):
            if any(n.endswith('dicts.ensure') for n in names):
                v = call.args[2] if len(call.args) > 2 else kwarg(call, 'value')
                return 'null-in-patch' if isinstance(v, ast.Constant) and v.value is None else 'write-in-patch'
            if any(n.endswith('dicts.remove') for n in names):
                return 'drop-from-patch'
            return None
        loops = [n for n in walk_no_defs(f.node) if isinstance(n, ast.For)]
        body = loops[0].body if loops else [s for s in f.node.body]
        pre = [s for s in f.node.body if not isinstance(s, ast.For)] if loops else []
        paths = absint.analyse(repo, f, absint.Config(effect=eff), stmts=pre + body)
        rows = set()
        bad = []
        for p in paths:
            on_body = [v for k, v in p.atoms.items() if k.startswith('eq(') and 'resolve(body' in k.replace(' ', '')]
            in_patch = [v for k, v in p.atoms.items() if k.startswith('eq(') and 'resolve(patch' in k.replace(' ', '')]
            labs = [e.label for e in p.trace if e.label in ('null-in-patch', 'write-in-patch', 'drop-from-patch')]
            # atoms are `eq(<resolved>, <sentinel>)` : True = absent
            b_present = (on_body[0] is False) if on_body else None
            p_present = (in_patch[0] is False) if in_patch else None
            rows.add((b_present, p_present, tuple(labs)))
            if b_present is True:
                ok = labs == ['null-in-patch']
            elif b_present is False and p_present is True:
                ok = labs == ['drop-from-patch']
            elif b_present is False and p_present is False:
                ok = labs == []
            else:
                ok = False
            if not ok:
                bad.append(f'record on the object: {b_present}, pending in the patch: {p_present} => {labs or "nothing"}')
        shapes[cname] = sorted(str(r) for r in rows)
        ctx.count('paths', len(paths))
        ctx.ob(rule, f'{cname}.purge ({len(paths)} paths): a record on the object is nulled in the patch (exactly that, the nulling is never undone); one that is '
               'only pending in the patch is dropped from the patch; nothing otherwise', not bad and len(paths) >= 3, loc=f.loc(),
               construct=construct(f, 'table:purge'), detail=' | '.join(dict.fromkeys(bad)))
    ctx.ob(rule, 'the purge() implementations of the annotations and the status progress storage take the same decisions', len(set(map(tuple, shapes.values()))) == 1,
           loc='kopf/_cogs/configs/progress.py', construct='sibling:purge', detail=str(shapes))


def check_finalizer_scan_continues(ctx: Ctx, rule: str) -> None:
    """requires_finalizer / iter_handlers of the registries: a handler that does not qualify (excluded, no finalizer needed, no match) is skipped --
    it never ends the scan over the remaining handlers."""
    repo = ctx.repo
    n = 0
    for ref in ('registries.SpawningRegistry.requires_finalizer', 'registries.ChangingRegistry.requires_finalizer',
                'registries.SpawningRegistry.iter_handlers', 'registries.ChangingRegistry.iter_handlers', 'registries.ChangingRegistry.prematch'):
        f = repo.fn(ref)
        ctx.analysed(f)
        loops = [x for x in walk_no_defs(f.node) if isinstance(x, ast.For)]
        if len(loops) != 1:
            raise AnalysisError(f'{f.loc()}: expected one loop over the handlers in {f.short}')
        lp = loops[0]
        n += 1
        brks = [x for s in lp.body for x in walk_no_defs(s) if isinstance(x, ast.Break)]
        rets = [x for s in lp.body for x in walk_no_defs(s) if isinstance(x, ast.Return)
                and not (isinstance(x.value, ast.Constant) and x.value.value is True)]
        ctx.ob(rule, f'{f.short}: the scan over the handlers is left early only with a positive verdict; a non-qualifying handler (e.g. one in '
               '`excluded`: a daemon that exited on its own) never hides the handlers registered after it', not brks and not rets, loc=f.loc(lp),
               construct=construct(f, 'formula:scan continues'), detail='; '.join(f'L{x.lineno} {norm(x, 40)}' for x in brks + rets))
    ctx.count('handler_scans', n)


def check_stage_bounds(ctx: Ctx, rule: str) -> None:
    """stop_daemons: the age of the stop flag is counted from the flag, so the cancellation stage lasts until backoff + timeout."""
    repo = ctx.repo
    f = repo.fn('daemons.stop_daemons')
    ctx.analysed(f)
    cmps = [c for c in walk_no_defs(f.node) if isinstance(c, ast.Compare) and len(c.ops) == 1 and isinstance(c.ops[0], (ast.Lt, ast.LtE, ast.Gt, ast.GtE))]

    def refs(e):
        names = {x.id for x in ast.walk(e) if isinstance(x, ast.Name)}
        return names
    # locals bound from handler.cancellation_timeout / cancellation_backoff
    tvar = {a.targets[0].id for a in walk_no_defs(f.node) if isinstance(a, ast.Assign) and isinstance(a.targets[0], ast.Name) and 'cancellation_timeout' in src(a.value)}
    bvar = {a.targets[0].id for a in walk_no_defs(f.node) if isinstance(a, ast.Assign) and isinstance(a.targets[0], ast.Name) and 'cancellation_backoff' in src(a.value)}
    with_t = [c for c in cmps if (refs(c) & tvar) or 'cancellation_timeout' in src(c)]
    ctx.require_sites(rule, 'stop_daemons: comparison of the flag\'s age with the cancellation timeout', len(with_t), 1, f.loc())
    for c in with_t:
        ok = bool(refs(c) & bvar) or 'cancellation_backoff' in src(c)
        ctx.ob(rule, 'stop_daemons: the forced-cancellation stage is bounded by timeout + backoff (the age is counted from the stop flag, which precedes the '
               'backoff) -- otherwise a daemon with backoff >= timeout is declared abandoned, and the finalizer released, without ever being cancelled', ok,
               loc=f.loc(c), construct=construct(f, 'formula:age < timeout + backoff'), detail=norm(c))


def check_invoke_shield(ctx: Ctx, rule: str) -> None:
    """invocation.invoke: while the sync handler's thread runs, every iteration of the waiting loop awaits a FRESH shield of the future
    (a cancelled shield re-raises at once without suspending: re-awaiting it spins and freezes the event loop)."""
    repo = ctx.repo
    f = repo.fn('invocation.invoke')
    ctx.analysed(f)
    loops = [lp for lp in walk_no_defs(f.node) if isinstance(lp, ast.While) and any(method_call(c, 'done') is not None for c in calls_in(lp.test))]
    ctx.require_sites(rule, 'invoke: loop waiting for the executor future', len(loops), 1, f.loc())
    for lp in loops:
        fut = dotted(method_call([c for c in calls_in(lp.test) if method_call(c, 'done') is not None][0], 'done'))
        awaits = [a for s in lp.body for a in walk_no_defs(s) if isinstance(a, ast.Await)]
        fresh = [a for a in awaits if isinstance(a.value, ast.Call) and (repo.resolve(f.module, a.value.func) or '') == 'asyncio.shield'
                 and a.value.args and dotted(a.value.args[0]) == fut]
        ctx.ob(rule, 'invoke: every pass of the loop `while not future.done()` awaits a freshly created asyncio.shield(future) (created inside the loop)',
               bool(awaits) and len(fresh) == len(awaits), loc=f.loc(lp), construct=construct(f, 'loopstop:fresh shield per iteration'),
               detail='; '.join(norm(a, 60) for a in awaits if a not in fresh))


def check_idle_reset_both_ways(ctx: Ctx, rule: str) -> None:
    """process_spawning_cause: every essential change (cause.reset) refreshes idle_reset_time -- on every path, whatever else the prelude does."""
    repo = ctx.repo
    f, g = cfg_of(ctx, 'processing.process_spawning_cause')
    writes = [n for n in g.nodes if n.kind == 'stmt' and isinstance(n.stmt, ast.Assign) and any(isinstance(t, ast.Attribute) and t.attr == 'idle_reset_time' for t in n.stmt.targets)]
    ctx.require_sites(rule, 'process_spawning_cause: write of idle_reset_time', len(writes), 1, f.loc())
    # all paths on which `cause.reset` is true pass the write: prune the branches that take cause.reset as False, then the write must dominate every later call

    def assume(test, outcome):
        def reset_false(e, o):
            return isinstance(e, ast.Attribute) and e.attr == 'reset' and o is False
        return False if cond_implies(test, outcome, reset_false) else None
    later = [n for n in g.nodes if n.kind in ('stmt', 'return', 'if') and n.stmt is not None and any(
        is_call_to(repo, f, c, 'daemons.stop_daemons', 'daemons.spawn_daemons') for c in calls_in(n.stmt if n.kind != 'if' else n.stmt.test))]
    und = g.dominated(later, writes, edge_ok=g.pruned(assume))
    ctx.ob(rule, 'process_spawning_cause: under an essential change (cause.reset) every path to the stopping/spawning of daemons passes the refresh of '
           'idle_reset_time (no run starts within the idle time after the last essential change)', not und and bool(later), loc=f.loc(writes[0].stmt) if writes else f.loc(),
           construct=construct(f, 'dom:reset => idle_reset_time'), detail='; '.join(f'L{n.lineno} reachable without the refresh' for n in und[:2]))


def _c07_worker(ctx: Ctx, rule: str) -> None:
    from . import C07
    include(ctx, C07.check_worker_bookkeeping, rule, 'C07')


def _fetch_none(ctx: Ctx, rule: str) -> None:
    from . import _extra
    _extra.check_fetch_none_tests(ctx, rule)


def _c16_dispatch(ctx: Ctx, rule: str) -> None:
    from . import C16
    include(ctx, C16.check_dispatch, rule, 'C16')


def _sleep_table(ctx: Ctx, rule: str) -> None:
    from . import _x_tasks
    _x_tasks.check_sleep(ctx, rule)


def _c09_staged(ctx: Ctx, rule: str) -> None:
    from . import C09
    include(ctx, C09.check_staged_termination, rule, 'C09')
    check_stage_bounds(ctx, rule)


def _c09_spawn(ctx: Ctx, rule: str) -> None:
    from . import C09
    include(ctx, C09.check_spawn_and_runner, rule, 'C09')


EXTRA = {
    'C01': [(_c07_worker, 'R1.12')],
    'C02': [(_c07_worker, 'R2.12'), (check_purge_tables, 'R2.13')],
    'C03': [(_fetch_none, 'R3.8')],
    'C04': [(_c16_dispatch, 'R4.8')],
    'C06': [(check_finalizer_scan_continues, 'R6.5'), (check_stage_bounds, 'R6.2')],
    'C07': [(_sleep_table, 'R7.6')],
    'C08': [(_c09_staged, 'R8.7')],
    'C09': [(check_stage_bounds, 'R9.4'), (check_invoke_shield, 'R9.11'), (check_finalizer_scan_continues, 'R9.3')],
    'C10': [(_c09_spawn, 'R10.1'), (check_idle_reset_both_ways, 'R10.4')],
    'C15': [(check_finalizer_scan_continues, 'R15.7')],
    'C16': [(check_purge_tables, 'R16.7')],
}


def check_v2_suffix_input(ctx: Ctx, rule: str) -> None:
    """make_v2_key: the hash suffix of an over-long id is computed from the id as given (not from its character-normalised form), so that
    long ids that differ only in replaced characters still get distinct names."""
    repo = ctx.repo
    f = repo.fn('conventions.StorageKeyFormingConvention.make_v2_key')
    ctx.analysed(f)
    params = [a.arg for a in f.params()]
    keyp = params[1] if len(params) > 1 else None
    calls = [c for c in calls_in(f.node) if method_call(c, 'make_suffix') is not None]
    ctx.require_sites(rule, 'make_v2_key: suffix computation', len(calls), 1, f.loc())
    for c in calls:
        ok = len(c.args) == 1 and isinstance(c.args[0], ast.Name) and c.args[0].id == keyp \
            and not any(isinstance(n, ast.Name) and n.id == keyp and isinstance(n.ctx, ast.Store) for n in walk_no_defs(f.node))
        ctx.ob(rule, 'make_v2_key: the suffix hashes the id exactly as given (its own, never re-bound, parameter) -- distinct long ids give distinct names even when '
               'they differ only in characters that the name part replaces', ok, loc=f.loc(c), construct=construct(f, 'flow:make_suffix(raw key)'), detail=norm(c))


def check_no_timedelta_components(ctx: Ctx, rule: str) -> None:
    """Durations are converted with total_seconds(): the components .seconds/.days/.microseconds wrap around (a runtime of 1 day + 2 min has
    .seconds == 120) and must not be read."""
    repo = ctx.repo
    comps = ('seconds', 'microseconds', 'days')

    def reads(tree):
        return [n for n in ast.walk(tree) if isinstance(n, ast.Attribute) and n.attr in comps and isinstance(n.ctx, ast.Load)]
    # positive fixture: the rule must see a component read when there is one
    fixture = ast.parse('x = (now - started).seconds >= limit')
    if len(reads(fixture)) != 1:
        raise AnalysisError('R-timedelta: the positive fixture is not recognised')
    bad = []
    for f in repo.all_functions():
        if f.module.name.startswith('kopf._kits'):
            continue
        for n in reads(f.node):
            bad.append((f, n))
    ctx.count('functions_scanned', len(repo.all_functions()))
    ctx.ob(rule, 'no duration is taken from a timedelta component (.seconds/.days/.microseconds): limits such as timeout=T compare total_seconds(), which does not '
           'wrap after 24 h (a handler first tried more than a day ago must still be timed out)', not bad, loc=bad[0][0].loc(bad[0][1]) if bad else 'kopf/',
           construct='confine:timedelta-components', detail='; '.join(f'{f.short}: {norm(repo.stmt_of(f.module, n), 70)}' for f, n in bad[:3]))


def check_429_restarts_inside_loop(ctx: Ctx, rule: str) -> None:
    """infinite_watch: an escalated 429 is swallowed INSIDE the endless loop, so the stream is started again."""
    repo = ctx.repo
    f, g = cfg_of(ctx, 'watching.infinite_watch')
    handlers = [n for n in g.nodes if n.kind == 'except' and isinstance(n.stmt, ast.ExceptHandler) and n.stmt.type is not None
                and 'APITooManyRequestsError' in src(n.stmt.type)]
    ctx.require_sites(rule, 'infinite_watch: handler for an escalated 429', len(handlers), 1, f.loc())
    loops = [n for n in g.nodes if n.kind == 'loop' and isinstance(n.stmt, ast.While)]
    for h in handlers:
        inside = any(fr.kind == 'loop' for fr in h.frames)
        back = any(lp in g.reach([h]) for lp in loops)
        ctx.ob(rule, 'infinite_watch: after an escalated 429 the watch loop goes on (the handler lies inside the loop and control returns to the loop head) -- '
               'the stream is "not allowed to fail", the served pair keeps its watch', inside and back, loc=f.loc(h.stmt),
               construct=construct(f, 'loop:429 handled inside the loop'))


def _c02_retry_flow(ctx: Ctx, rule: str) -> None:
    from . import C02
    C02.check_retry_flow(ctx, rule)


def _c19_pause_gate(ctx: Ctx, rule: str) -> None:
    from . import C19
    include(ctx, C19.check_pause_gate, rule, 'C19')


EXTRA['C11'] = [(_c02_retry_flow, 'R11.5'), (check_no_timedelta_components, 'R11.3')]
EXTRA['C13'] = [(_c19_pause_gate, 'R13.3'), (_c09_spawn, 'R13.3')]
EXTRA['C14'] = [(_c07_worker, 'R14.6')]
EXTRA['C16'] = EXTRA.get('C16', []) + [(check_v2_suffix_input, 'R16.8')]
EXTRA['C19'] = [(check_429_restarts_inside_loop, 'R19.6')]
EXTRA['C10'] = EXTRA.get('C10', []) + [(check_no_timedelta_components, 'R10.6')]
EXTRA['C12'] = [(check_no_timedelta_components, 'R12.6')]
EXTRA['C02'] = EXTRA.get('C02', []) + [(check_no_timedelta_components, 'R2.14')]
