"""
D9 (C16): generated annotation names are not always valid Kubernetes qualified names: the name
part must begin and end with an alphanumeric character, but handler ids that begin or end with
`_`, `.`, `-` (or `<...>`, mapped to `_`) are passed through, e.g. a handler function `_on_create`.
The API rejects the PATCH (422), so the handler's progress is never persisted.
The regular expression is the documented rule (validation.IsQualifiedName).
Run: /venv/bin/python D09_annotation_names_edges.py
"""
import re
from kopf._cogs.configs import progress
NAME = re.compile(r'^([A-Za-z0-9][-A-Za-z0-9_.]*)?[A-Za-z0-9]$')
s = progress.AnnotationsProgressStorage()
for hid in ['_on_create', 'on_create_', 'fn/-', '<x>', 'outer.<locals>.inner', 'fn/spec.field']:
    for k in s.make_keys(hid):
        name = k.split('/', 1)[1]
        print(f'{hid!r:26} -> {k!r:45} valid={bool(NAME.match(name)) and len(name) <= 63}')
