"""Path-sensitive abstract interpreter over a finite predicate abstraction (DESIGN.md §2, `absint`).

Values are opaque symbols.  The only interpreted things are boolean structure, `is None`, equality against
constants/enum members, membership in literal collections, isinstance against known classes, an ordering
domain for pairs of symbols, truthiness of list displays/concatenations, and single-definition locals
(substituted).  A path is feasible iff its atom valuation is consistent; no concrete value is computed,
no solver is called.  Output: per feasible path, the atom valuation and the trace of effects.
"""
from __future__ import annotations

import ast
import re
from dataclasses import dataclass, field
from typing import Any, Callable, Iterable, Optional

from .srcmodel import AnalysisError, FuncInfo, Repo, dotted, src, walk_no_defs

PATH_BUDGET = 20000


@dataclass(frozen=True)
class V:
    kind: str            # sym | const | bool | tuple | coll | new
    key: str
    data: Any = None

    def __repr__(self) -> str:
        return f'V({self.kind}:{self.key})'


def sym(key: str) -> V:
    return V('sym', key)


def const(v: Any) -> V:
    return V('const', repr(v), v)


def boolean(b: bool) -> V:
    return V('bool', repr(b), b)


@dataclass
class Eff:
    label: str
    key: str
    node: Optional[ast.AST]
    kw: dict
    loop: int = 0
    fn: str = ''

    def __repr__(self) -> str:
        return f'{self.label}' + (f'[{self.key[:60]}]' if self.key else '')


class Path:
    __slots__ = ('env', 'atoms', 'trace', 'status', 'retval', 'exc', 'ver', 'order', 'loopdepth', 'notes', 'fn')

    def __init__(self):
        self.env: dict[str, V] = {}
        self.atoms: dict[str, Any] = {}
        self.trace: list[Eff] = []
        self.status = 'run'      # run | return | raise | break | continue
        self.retval: Optional[V] = None
        self.exc: Optional[str] = None
        self.ver: dict[str, int] = {}
        self.order: list[str] = []     # atoms in the order they were decided
        self.loopdepth = 0
        self.notes: list[str] = []
        self.fn = ''

    def clone(self) -> 'Path':
        p = Path()
        p.env = dict(self.env); p.atoms = dict(self.atoms); p.trace = list(self.trace)
        p.status = self.status; p.retval = self.retval; p.exc = self.exc; p.ver = dict(self.ver)
        p.order = list(self.order); p.loopdepth = self.loopdepth; p.notes = list(self.notes); p.fn = self.fn
        return p

    # -- query helpers for rules
    def atom(self, pattern: str) -> Optional[Any]:
        """Value of the unique atom whose key matches the regex (None = undecided on this path)."""
        rx = re.compile(pattern)
        vals = {k: v for k, v in self.atoms.items() if rx.search(k) and ('forced:' + k) not in self.notes}
        if not vals:
            return None
        distinct = set(vals.values())
        if len(distinct) > 1:
            raise AmbiguousAtom(pattern, vals)
        return distinct.pop()

    def labels(self, *prefixes: str) -> list[str]:
        return [e.label for e in self.trace if not prefixes or any(e.label.startswith(p) for p in prefixes)]

    def effects(self, *prefixes: str) -> list[Eff]:
        return [e for e in self.trace if not prefixes or any(e.label.startswith(p) for p in prefixes)]

    def describe(self) -> str:
        at = ', '.join(f'{k}={v}' for k, v in self.atoms.items())
        return f'[{at}] => {self.labels()} / {self.status}' + (f' {self.retval.key}' if self.retval is not None else '') + (f' {self.exc}' if self.exc else '')


class AmbiguousAtom(AnalysisError):
    def __init__(self, pattern, vals):
        super().__init__(f'atom pattern {pattern!r} matches atoms with different values: {vals}')


@dataclass
class Config:
    """What a rule wants to observe in a scope."""
    effect: Optional[Callable[['Interp', Path, ast.Call, set], Optional[str]]] = None   # call -> label
    effect_names: dict = field(default_factory=dict)   # resolved callee (suffix) -> label
    inline: set = field(default_factory=set)           # qualified names of repo functions to inline (statement position)
    inline_props: set = field(default_factory=set)     # properties/predicates to inline in conditions
    raising: dict = field(default_factory=dict)        # callee suffix -> [exception class, ...] (declared-raising callees)
    versioned: set = field(default_factory=set)        # local roots whose derived atoms are versioned on mutation
    pure: set = field(default_factory=set)             # callee suffixes that do not mutate their arguments
    mutators: dict = field(default_factory=dict)       # regex on call key -> (atom key template, value)
    bump: dict = field(default_factory=dict)           # callee suffix -> roots mutated through aliases (e.g. cause.patch is patch)
    assume: dict = field(default_factory=dict)         # atom key -> value, assumed at entry
    depth: int = 2
    loop_once: bool = True
    record_writes: bool = True
    record_all_calls: bool = False


class Interp:
    def __init__(self, repo: Repo, f: FuncInfo, cfg: Config, depth: int = 0):
        self.repo = repo
        self.f = f
        self.m = f.module
        self.cfg = cfg
        self.depth = depth
        self.budget = [0]

    # ================================================================== keys & values
    def gkey(self, node: ast.AST) -> Optional[str]:
        """Key of a global (resolved) dotted name."""
        r = self.repo.resolve(self.m, node)
        return r

    def vkey(self, root: str, p: Path) -> str:
        v = p.ver.get(root, 0)
        return f'{root}#{v}' if v else root

    def ev(self, node: Optional[ast.AST], p: Path) -> V:
        """Evaluate an expression to an abstract value *without forking* (conditions fork via truth())."""
        if node is None:
            return const(None)
        if isinstance(node, ast.Constant):
            return const(node.value)
        if isinstance(node, ast.Name):
            if node.id in p.env:
                v = p.env[node.id]
                if node.id in self.cfg.versioned and p.ver.get(node.id) and v.kind in ('sym', 'coll', 'dict'):
                    return sym(f'{v.key}#{p.ver[node.id]}')
                return v
            if node.id in ('True', 'False', 'None'):
                return const({'True': True, 'False': False, 'None': None}[node.id])
            r = self.gkey(node)
            return sym(r or node.id)
        if isinstance(node, ast.Attribute):
            d = dotted(node)
            if d is not None:
                root = d.split('.')[0]
                if d in p.env:
                    return p.env[d]
                if root not in p.env:
                    r = self.gkey(node)
                    if r is not None and root not in self._locals():
                        return sym(r)
            base = self.ev(node.value, p)
            if base.kind == 'new' and node.attr in base.data[1]:
                return base.data[1][node.attr]
            k = f'{base.key}.{node.attr}'
            if k in p.env:
                return p.env[k]
            return sym(k)
        if isinstance(node, ast.Subscript):
            base = self.ev(node.value, p)
            idx = self.ev(node.slice, p)
            if base.kind == 'dict' and idx.kind == 'const' and idx.data in base.data[0]:
                return base.data[0][idx.data]
            if base.kind == 'tuple' and idx.kind == 'const' and isinstance(idx.data, int) and -len(base.data) <= idx.data < len(base.data):
                return base.data[idx.data]
            k = f'{base.key}[{idx.key}]'
            if k in p.env:
                return p.env[k]
            return sym(k)
        if isinstance(node, ast.Await):
            return self.ev(node.value, p)
        if isinstance(node, ast.Call):
            return self.ev_call(node, p)
        if isinstance(node, ast.Tuple):
            elts = [self.ev(e, p) for e in node.elts]
            return V('tuple', '(' + ', '.join(e.key for e in elts) + ')', tuple(elts))
        if isinstance(node, (ast.List, ast.Set)):
            elts = [self.ev(e, p) for e in node.elts]
            return V('coll', '[' + ', '.join(e.key for e in elts) + ']', ('display', tuple(elts)))
        if isinstance(node, ast.Dict):
            if node.keys and all(isinstance(k, ast.Constant) and isinstance(k.value, str) for k in node.keys):
                items = {k.value: self.ev(v, p) for k, v in zip(node.keys, node.values)}     # same thing as dict(a=..., b=...)
                return V('dict', 'dict(' + ', '.join(f'{k}={v.key}' for k, v in items.items()) + ')', (items, False))
            ks = [self.ev(k, p).key if k is not None else '**' for k in node.keys]
            vs = [self.ev(v, p) for v in node.values]
            return V('coll', '{' + ', '.join(f'{k}: {v.key}' for k, v in zip(ks, vs)) + '}', ('display', tuple(vs)))
        if isinstance(node, ast.BinOp):
            l, r = self.ev(node.left, p), self.ev(node.right, p)
            opn = type(node.op).__name__
            if isinstance(node.op, ast.Add) and (l.kind == 'coll' or r.kind == 'coll') and l.kind != 'const' and r.kind != 'const':
                return V('coll', f'({l.key} + {r.key})', ('concat', (l, r)))
            if isinstance(node.op, ast.BitOr) and l.kind == 'dict' and r.kind == 'dict':
                items = dict(l.data[0]); items.update(r.data[0])
                return V('dict', f'({l.key} | {r.key})', (items, l.data[1] or r.data[1]))
            if isinstance(node.op, ast.BitOr) and l.kind == 'coll' and r.kind == 'coll':
                return V('coll', f'({l.key} | {r.key})', ('concat', (l, r)))
            if l.kind == 'const' and r.kind == 'const':
                try:
                    return const(eval(compile(ast.Expression(ast.BinOp(ast.Constant(l.data), node.op, ast.Constant(r.data))), '<c>', 'eval')))  # noqa: S307 - constants only
                except Exception:
                    pass
            return sym(f'({l.key} {opn} {r.key})')
        if isinstance(node, ast.UnaryOp):
            o = self.ev(node.operand, p)
            if isinstance(node.op, ast.Not):
                if o.kind in ('bool', 'const'):
                    return boolean(not o.data)
                return sym(f'not({o.key})')
            if isinstance(node.op, ast.USub) and o.kind == 'const' and isinstance(o.data, (int, float)):
                return const(-o.data)
            return sym(f'{type(node.op).__name__}({o.key})')
        if isinstance(node, ast.JoinedStr):
            parts = []
            for v in node.values:
                if isinstance(v, ast.Constant):
                    parts.append(str(v.value))
                elif isinstance(v, ast.FormattedValue):
                    parts.append('{' + self.ev(v.value, p).key + '}')
            return sym('f"' + ''.join(parts) + '"')
        if isinstance(node, ast.IfExp):
            # value position: keep symbolic, but with substituted parts (forks happen in assign())
            return sym(f'({self.ev(node.body, p).key} if {self.ckey(node.test, p)} else {self.ev(node.orelse, p).key})')
        if isinstance(node, (ast.BoolOp, ast.Compare)):
            return sym(self.ckey(node, p))
        if isinstance(node, (ast.ListComp, ast.SetComp, ast.GeneratorExp, ast.DictComp)):
            return sym(self._comp_key(node, p))
        if isinstance(node, ast.Lambda):
            return sym(f'lambda@{node.lineno}:{self._subst_src(node.body, p)}')
        if isinstance(node, ast.Starred):
            return sym('*' + self.ev(node.value, p).key)
        if isinstance(node, ast.Slice):
            return sym(f'{self.ev(node.lower, p).key if node.lower else ""}:{self.ev(node.upper, p).key if node.upper else ""}')
        if isinstance(node, (ast.Yield, ast.YieldFrom)):
            return sym(f'yield@{node.lineno}')
        return sym(src(node))

    def _locals(self) -> set:
        cache = getattr(self, '_locals_cache', None)
        if cache is None:
            cache = {a.arg for a in self.f.params()}
            for n in walk_no_defs(self.f.node):
                if isinstance(n, ast.Name) and isinstance(n.ctx, ast.Store):
                    cache.add(n.id)
            self._locals_cache = cache
        return cache

    def _subst_src(self, node: ast.AST, p: Path) -> str:
        """Source of an opaque sub-expression with locals substituted by their symbolic keys."""
        class T(ast.NodeTransformer):
            def visit_Name(s, n):  # noqa: N805
                if isinstance(n.ctx, ast.Load) and n.id in p.env and p.env[n.id].kind in ('sym', 'const'):
                    k = p.env[n.id].key
                    if k != n.id:
                        return ast.Name(id='‹' + k + '›', ctx=ast.Load())
                return n
        import copy
        return src(T().visit(copy.deepcopy(node)), 200)

    def _comp_key(self, node: ast.AST, p: Path) -> str:
        return self._subst_src(node, p)

    def ckey(self, node: ast.AST, p: Path) -> str:
        """Canonical key of a condition (no forking)."""
        if isinstance(node, ast.BoolOp):
            op = ' and ' if isinstance(node.op, ast.And) else ' or '
            return '(' + op.join(self.ckey(v, p) for v in node.values) + ')'
        if isinstance(node, ast.UnaryOp) and isinstance(node.op, ast.Not):
            return f'not({self.ckey(node.operand, p)})'
        if isinstance(node, ast.Compare) and len(node.ops) == 1:
            l, r = self.ev(node.left, p), self.ev(node.comparators[0], p)
            return f'({l.key} {type(node.ops[0]).__name__} {r.key})'
        return self.ev(node, p).key

    # ================================================================== calls
    def call_names(self, call: ast.Call) -> set:
        return self.repo.callee_names(self.f, call)

    def call_key(self, call: ast.Call, p: Path) -> tuple[str, dict]:
        fn = call.func
        names = self.call_names(call)
        if isinstance(fn, ast.Attribute) and dotted(fn) and dotted(fn).split('.')[0] in self._locals() | set(p.env):
            recv = self.ev(fn.value, p)
            root = dotted(fn).split('.')[0]
            head = f'{recv.key}.{fn.attr}'
        else:
            r = self.gkey(fn)
            head = r or self.ev(fn, p).key
        kw: dict[str, V] = {}
        args = []
        for i, a in enumerate(call.args):
            v = self.ev(a, p)
            kw[f'#{i}'] = v
            args.append(v.key)
        for k in call.keywords:
            v = self.ev(k.value, p)
            if k.arg is None and v.kind == 'dict':
                for dk, dv in v.data[0].items():
                    kw[dk] = dv
                    args.append(f'{dk}={dv.key}')
                if v.data[1]:
                    kw['**'] = v
                    args.append('**' + v.key.split('|')[0])
                continue
            kw[k.arg or '**'] = v
            args.append(f'{k.arg}={v.key}')
        argstr = ', '.join(args)
        if len(argstr) > 120:
            import hashlib
            argstr = '…' + hashlib.sha1(argstr.encode()).hexdigest()[:6]
        return f'{head}({argstr})', kw

    def _ver_key(self, key: str, root: str, p: Path) -> str:
        if root in self.cfg.versioned and p.ver.get(root):
            return f'{key}#{p.ver[root]}'
        return key

    def ev_call(self, call: ast.Call, p: Path) -> V:
        names = self.call_names(call)
        key, kw = self.call_key(call, p)
        d = dotted(call.func) or ''
        # constructors of collections preserve truthiness of their single argument
        if d in ('list', 'tuple', 'set', 'frozenset', 'sorted', 'dict') and len(call.args) == 1 and not call.keywords:
            a = kw['#0']
            return V('coll', key, ('alias', (a,)))
        if d in ('list', 'tuple', 'set', 'frozenset', 'dict') and not call.args and not call.keywords:
            return V('coll', key, ('display', ())) if d != 'dict' else V('dict', key, ({}, False))
        if d == 'dict' and not call.args and all(k.arg for k in call.keywords):
            return V('dict', key, ({k.arg: kw[k.arg] for k in call.keywords}, False))
        if d == 'bool' and len(call.args) == 1:
            return sym(f'truthy({kw["#0"].key})') if kw['#0'].kind != 'const' else boolean(bool(kw['#0'].data))
        self.record_call(call, names, key, kw, p)
        for n in names:
            if n in self.repo.classes:
                return V('new', key, (n, kw))
        return sym(key)

    def record_call(self, call: ast.Call, names: set, key: str, kw: dict, p: Path) -> None:
        label = None
        if self.cfg.effect is not None:
            label = self.cfg.effect(self, p, call, names)
        if label is None:
            for suffix, lab in self.cfg.effect_names.items():
                if any(n == suffix or n.endswith('.' + suffix) for n in names):
                    label = lab
                    break
        if label is None and self.cfg.record_all_calls:
            label = 'call:' + (sorted(names)[0] if names else (dotted(call.func) or src(call.func, 40)))
        if label is not None:
            p.trace.append(Eff(label, key, call, kw, p.loopdepth, self.f.qualname))
        # mutation: versioned roots passed to (or receiving) a non-pure call get a new version
        if self.cfg.versioned:
            pure = any(any(n == s or n.endswith('.' + s) for s in self.cfg.pure) for n in names) if names else False
            forced = None
            for rx, (tmpl, val) in self.cfg.mutators.items():
                if re.search(rx, key):
                    forced = (tmpl, val)
            roots = set()
            if isinstance(call.func, ast.Attribute):
                d = dotted(call.func.value)
                if d:
                    roots.add(d.split('.')[0])
            for a in list(call.args) + [k.value for k in call.keywords]:
                d = dotted(a)
                if d:
                    roots.add(d.split('.')[0])
            for suffix, extra in self.cfg.bump.items():
                if any(n == suffix or n.endswith('.' + suffix) for n in names):
                    roots |= set(extra)
                    pure = False
            for r in roots & self.cfg.versioned:
                if pure and not forced:
                    continue
                p.ver[r] = p.ver.get(r, 0) + 1
            if forced:
                tmpl, val = forced
                k2 = tmpl.format(**{r: self.vkey(r, p) for r in self.cfg.versioned})
                if k2 not in p.atoms:
                    p.notes.append('forced:' + k2)     # a fact established by a mutator, not a branch decision
                p.atoms[k2] = val
                p.order.append(k2)

    # ================================================================== truth with lazy forking
    def truth(self, node: ast.AST, p: Path) -> list[tuple[Path, bool]]:
        if isinstance(node, ast.BoolOp):
            is_and = isinstance(node.op, ast.And)
            out: list[tuple[Path, bool]] = []

            def rec(path: Path, idx: int) -> None:
                if idx == len(node.values):
                    out.append((path, is_and))
                    return
                for q, b in self.truth(node.values[idx], path):
                    if b != is_and:
                        out.append((q, b))
                    else:
                        rec(q, idx + 1)
            rec(p, 0)
            return out
        if isinstance(node, ast.UnaryOp) and isinstance(node.op, ast.Not):
            return [(q, not b) for q, b in self.truth(node.operand, p)]
        if isinstance(node, ast.Constant):
            return [(p, bool(node.value))]
        if isinstance(node, ast.IfExp):
            out = []
            for q, b in self.truth(node.test, p):
                out.extend(self.truth(node.body if b else node.orelse, q))
            return out
        if isinstance(node, ast.Compare):
            if len(node.ops) != 1:
                # a < b < c  ==> (a < b) and (b < c)
                parts = []
                left = node.left
                for op, right in zip(node.ops, node.comparators):
                    parts.append(ast.Compare(left, [op], [right]))
                    left = right
                return self.truth(ast.BoolOp(ast.And(), parts), p)
            return self.truth_compare(node, p)
        if isinstance(node, ast.Call):
            d = dotted(node.func) or ''
            if d == 'isinstance' and len(node.args) == 2:
                return self.truth_isinstance(node, p)
            if d == 'bool' and len(node.args) == 1:
                return self.truth(node.args[0], p)
            if d == 'callable' and len(node.args) == 1:
                return self.atom(f'callable({self.ev(node.args[0], p).key})', p)
            names = self.call_names(node)
            for n in names:
                if n in self.cfg.inline_props and n in self.repo.funcs and self.depth < self.cfg.depth:
                    r = self.inline_pred(self.repo.funcs[n], node, p)
                    if r is not None:
                        return r
        if isinstance(node, ast.Attribute):
            # property used as a predicate
            base_t = self.repo.type_of(self.f, node.value)
            if base_t:
                meth = self.repo.find_method(base_t, node.attr)
                if meth is not None and meth.qualname in self.cfg.inline_props and self.depth < self.cfg.depth:
                    r = self.inline_pred(meth, node, p)
                    if r is not None:
                        return r
        if isinstance(node, ast.Await):
            return self.truth(node.value, p) if not isinstance(node.value, ast.Call) else self.truth_value(self.ev(node, p), p)
        return self.truth_value(self.ev(node, p), p)

    def truth_value(self, v: V, p: Path) -> list[tuple[Path, bool]]:
        if v.kind in ('const', 'bool'):
            return [(p, bool(v.data))]
        if v.kind == 'tuple':
            return [(p, len(v.data) > 0)]
        if v.kind == 'new':
            return [(p, True)]
        if v.kind == 'dict':
            if v.data[0]:
                return [(p, True)]
            if not v.data[1]:
                return [(p, False)]
        if v.kind == 'coll':
            how, parts = v.data
            if how == 'display':
                return [(p, len(parts) > 0)]
            if how == 'alias':
                return self.truth_value(parts[0], p)
            if how == 'concat':
                out = []
                for q, b in self.truth_value(parts[0], p):
                    if b:
                        out.append((q, True))
                    else:
                        out.extend(self.truth_value(parts[1], q))
                return out
        if v.key.startswith('truthy(') and v.key.endswith(')'):
            return self.atom(v.key, p)
        if v.key.startswith('not(') and v.key.endswith(')'):
            return [(q, not b) for q, b in self.atom(f'truthy({v.key[4:-1]})', p)]
        return self.atom(f'truthy({v.key})', p)

    def truth_compare(self, node: ast.Compare, p: Path) -> list[tuple[Path, bool]]:
        op = node.ops[0]
        lnode, rnode = node.left, node.comparators[0]
        l, r = self.ev(lnode, p), self.ev(rnode, p)
        neg = isinstance(op, (ast.IsNot, ast.NotEq, ast.NotIn))
        res: list[tuple[Path, bool]]
        if isinstance(op, (ast.Is, ast.IsNot, ast.Eq, ast.NotEq)):
            if l.kind in ('const', 'bool') and r.kind in ('const', 'bool'):
                same = (l.data is r.data) if isinstance(op, (ast.Is, ast.IsNot)) and (l.data is None or r.data is None or isinstance(l.data, bool)) else (l.data == r.data)
                return [(p, same != neg)]
            if l.kind in ('const', 'bool') and r.kind not in ('const', 'bool'):
                l, r = r, l
            if r.kind == 'const' and r.data is None:
                if l.kind in ('new', 'tuple', 'coll'):
                    return [(p, neg)]
                res = self.atom(f'isnone({l.key})', p)
            else:
                if l.key == r.key:
                    return [(p, not neg)]
                if self._is_enum_const(l.key) and self._is_enum_const(r.key):
                    return [(p, neg)]          # two distinct members of the repository's enums are never equal/identical
                a, b = (l.key, r.key) if r.kind == 'const' or l.key <= r.key else (r.key, l.key)
                if r.kind != 'const' and l.kind != 'const' and self._is_enum_const(r.key) is False and self._is_enum_const(l.key):
                    a, b = r.key, l.key
                res = self.atom(f'eq({a}, {b})', p)
            return [(q, b != neg) for q, b in res]
        if isinstance(op, (ast.In, ast.NotIn)):
            members = self._const_members(rnode, p)
            if members is not None:
                out: list[tuple[Path, bool]] = []

                def rec(path: Path, i: int) -> None:
                    if i == len(members):
                        out.append((path, False))
                        return
                    mkey = members[i]
                    a = l.key
                    for q, b in self.atom(f'eq({a}, {mkey})', path):
                        if b:
                            out.append((q, True))
                        else:
                            rec(q, i + 1)
                rec(p, 0)
                return [(q, b != neg) for q, b in out]
            res = self.atom(f'in({l.key}, {r.key})', p)
            return [(q, b != neg) for q, b in res]
        if isinstance(op, (ast.Lt, ast.LtE, ast.Gt, ast.GtE)):
            if l.kind == 'const' and r.kind == 'const':
                try:
                    v = {ast.Lt: l.data < r.data, ast.LtE: l.data <= r.data, ast.Gt: l.data > r.data, ast.GtE: l.data >= r.data}[type(op)]
                    return [(p, v)]
                except TypeError:
                    pass
            a, b, flip = (l.key, r.key, False) if l.key <= r.key else (r.key, l.key, True)
            out2 = []
            for q, rel in self.atom3(f'cmp({a}, {b})', p):
                if flip:
                    rel = {'<': '>', '>': '<', '=': '='}[rel]
                v = {ast.Lt: rel == '<', ast.LtE: rel in '<=', ast.Gt: rel == '>', ast.GtE: rel in '>='}[type(op)]
                out2.append((q, v))
            return out2
        return self.atom(f'truthy({self.ckey(node, p)})', p)

    def _is_enum_const(self, key: str) -> bool:
        if '.' not in key:
            return False
        head, last = key.rsplit('.', 1)
        return head in self.repo.classes and last.isupper()

    def _const_members(self, node: ast.AST, p: Path) -> Optional[list[str]]:
        """Keys of the members of a literal / module-constant collection, else None."""
        if isinstance(node, (ast.Tuple, ast.List, ast.Set)):
            return [self.ev(e, p).key for e in node.elts]
        if isinstance(node, (ast.Name, ast.Attribute)):
            d = dotted(node)
            if d and d.split('.')[0] in p.env:
                return None
            r = self.repo.resolve(self.m, node)
            if r and '.' in r:
                head, last = r.rsplit('.', 1)
                mod = self.repo.modules.get(head)
                if mod is not None and last in mod.assigns:
                    val = mod.assigns[last]
                    if isinstance(val, ast.Call) and dotted(val.func) in ('frozenset', 'set', 'tuple', 'list') and len(val.args) == 1:
                        val = val.args[0]
                    if isinstance(val, (ast.Tuple, ast.List, ast.Set)):
                        sub = Interp(self.repo, _module_pseudo_func(self.repo, mod), self.cfg, self.depth)
                        return [sub.ev(e, Path()).key for e in val.elts]
        return None

    def truth_isinstance(self, node: ast.Call, p: Path) -> list[tuple[Path, bool]]:
        v = self.ev(node.args[0], p)
        cls_node = node.args[1]
        classes = cls_node.elts if isinstance(cls_node, ast.Tuple) else [cls_node]
        names = [self.repo.resolve(self.m, c) or src(c) for c in classes]
        if v.kind == 'new':
            return [(p, any(self.repo.is_subclass(v.data[0], n) for n in names))]
        if v.kind == 'const':
            return [(p, any(type(v.data).__name__ == n for n in names))]
        if v.key.startswith('exc:'):
            return [(p, any(self.repo.is_subclass(v.key[4:], n) for n in names))]
        out: list[tuple[Path, bool]] = []

        def rec(path: Path, i: int) -> None:
            if i == len(names):
                out.append((path, False))
                return
            for q, b in self.atom(f'isinstance({v.key}, {names[i]})', path):
                if b:
                    out.append((q, True))
                else:
                    rec(q, i + 1)
        rec(p, 0)
        return out

    # ---- atoms and the small theory
    def implied(self, k: str, p: Path) -> Optional[bool]:
        at = p.atoms
        if k in at:
            return at[k]
        m = re.fullmatch(r'truthy\((.*)\)', k)
        if m:
            x = m.group(1)
            if at.get(f'isnone({x})') is True:
                return False
            for kk, vv in at.items():
                if vv is True and kk.startswith(f'isinstance({x}, '):
                    pass
        m = re.fullmatch(r'isnone\((.*)\)', k)
        if m:
            x = m.group(1)
            if at.get(f'truthy({x})') is True:
                return False
            mb = re.match(r'(min|max|len|sum|str|repr|list|dict|set|tuple|sorted|bool|int|float|abs|round)\(', x)
            if mb and _closes_at_end(x, mb.end() - 1):
                return False       # results of these builtins are never None
            for kk, vv in at.items():
                if vv is True and (kk.startswith(f'isinstance({x}, ') or kk.startswith(f'eq({x}, ')):
                    if kk.startswith('eq(') and kk.endswith(', None)'):
                        continue
                    return False
        m = re.fullmatch(r'eq\((.*), ([^,]*)\)', k)
        if m:
            x, c = m.group(1), m.group(2)
            if self._is_constkey(c):
                for kk, vv in at.items():
                    if vv is True and kk.startswith(f'eq({x}, ') and kk != k and self._is_constkey(kk[len(f'eq({x}, '):-1]):
                        return False
                if at.get(f'isnone({x})') is True:
                    return False
                if self._is_enum_const(c):
                    ec = c.rsplit('.', 1)[0]
                    for kk, vv in at.items():
                        if vv is False and kk.startswith(f'isinstance({x}, ') and self.repo.is_subclass(ec, kk[len(f'isinstance({x}, '):-1]):
                            return False
        m = re.fullmatch(r'isinstance\((.*), ([^,]*)\)', k)
        if m:
            x, c = m.group(1), m.group(2)
            if at.get(f'isnone({x})') is True:
                return False
            for kk, vv in at.items():
                if vv is True and kk.startswith(f'eq({x}, ') and self._is_enum_const(kk[len(f'eq({x}, '):-1]):
                    ec = kk[len(f'eq({x}, '):-1].rsplit('.', 1)[0]
                    return self.repo.is_subclass(ec, c)
            for kk, vv in at.items():
                if kk.startswith(f'isinstance({x}, ') and kk != k:
                    c2 = kk[len(f'isinstance({x}, '):-1]
                    if vv is True and self.repo.is_subclass(c2, c):
                        return True
                    if vv is False and self.repo.is_subclass(c, c2):
                        return False
                    if vv is True and self.repo.known_class(c) and self.repo.known_class(c2) and c in self.repo.classes and c2 in self.repo.classes \
                            and not self.repo.is_subclass(c, c2) and not self.repo.is_subclass(c2, c) and not self._common_sub(c, c2):
                        return False
        return None

    def _common_sub(self, a: str, b: str) -> bool:
        return any(self.repo.is_subclass(c, a) and self.repo.is_subclass(c, b) for c in self.repo.classes)

    def _is_constkey(self, c: str) -> bool:
        return bool(re.fullmatch(r"'.*'|\".*\"|-?\d+(\.\d+)?|True|False", c)) or self._is_enum_const(c)

    def atom(self, k: str, p: Path) -> list[tuple[Path, bool]]:
        r = self.implied(k, p)
        if r is not None:
            return [(p, r)]
        out = []
        for b in (True, False):
            q = p.clone()
            q.atoms[k] = b
            q.order.append(k)
            out.append((q, b))
        self._charge(1)
        return out

    def atom3(self, k: str, p: Path) -> list[tuple[Path, str]]:
        if k in p.atoms:
            return [(p, p.atoms[k])]
        out = []
        for rel in ('<', '=', '>'):
            q = p.clone()
            q.atoms[k] = rel
            q.order.append(k)
            out.append((q, rel))
        self._charge(2)
        return out

    def _charge(self, n: int) -> None:
        self.budget[0] += n
        if self.budget[0] > PATH_BUDGET:
            raise AnalysisError(f'{self.f.loc()}: path budget exceeded in {self.f.qualname}')

    # ================================================================== inlining of predicates
    def inline_pred(self, g: FuncInfo, site: ast.AST, p: Path) -> Optional[list[tuple[Path, bool]]]:
        """Inline a small predicate (property or function whose body is `return <expr>` after straight-line code)."""
        sub = Interp(self.repo, g, self.cfg, self.depth + 1)
        sub.budget = self.budget
        q0 = p.clone()
        saved_env = q0.env
        q0.env = {}
        params = g.params()
        if isinstance(site, ast.Attribute):
            q0.env[params[0].arg] = self.ev(site.value, p)
        elif isinstance(site, ast.Call):
            args = list(site.args)
            pi = 0
            if g.cls is not None and isinstance(site.func, ast.Attribute):
                q0.env[params[0].arg] = self.ev(site.func.value, p)
                pi = 1
            for a in args:
                if pi < len(params):
                    q0.env[params[pi].arg] = self.ev(a, p); pi += 1
            for k in site.keywords:
                if k.arg:
                    q0.env[k.arg] = self.ev(k.value, p)
            defaults = _defaults(g)
            for a in params:
                if a.arg not in q0.env and a.arg in defaults:
                    q0.env[a.arg] = sub.ev(defaults[a.arg], Path())
        res = []
        for q in sub.run_block(_body(g), [q0]):
            if q.status != 'return' or q.retval is None:
                return None
            rv = q.retval
            q.status = 'run'; q.retval = None; q.env = dict(saved_env)
            for q2, b in sub.truth_value(rv, q):
                q2.env = dict(saved_env)
                res.append((q2, b))
        return res

    # ================================================================== statements
    def run_block(self, stmts: Iterable[ast.AST], paths: list[Path]) -> list[Path]:
        for s in stmts:
            nxt: list[Path] = []
            for p in paths:
                if p.status != 'run':
                    nxt.append(p)
                else:
                    nxt.extend(self.stmt(s, p))
            paths = nxt
            self._charge(0)
            if len(paths) > PATH_BUDGET:
                raise AnalysisError(f'{self.f.loc(s)}: path budget exceeded in {self.f.qualname}')
        return paths

    def fork_value(self, node: ast.AST, p: Path) -> list[tuple[Path, V]]:
        """Evaluate an expression in value position, forking on boolean structure / conditional expressions."""
        if isinstance(node, ast.IfExp):
            out = []
            for q, b in self.truth(node.test, p):
                out.extend(self.fork_value(node.body if b else node.orelse, q))
            return out
        if isinstance(node, ast.BoolOp):
            # a or b  /  a and b  in value position
            is_and = isinstance(node.op, ast.And)
            if all(self._boolish(v) for v in node.values):
                return [(q, boolean(b)) for q, b in self.truth(node, p)]
            out = []

            def rec(path: Path, i: int) -> None:
                if i == len(node.values) - 1:
                    out.extend(self.fork_value(node.values[i], path))
                    return
                for q, b in self.truth(node.values[i], path):
                    if b != is_and:
                        out.extend([(q2, v) for q2, v in self.fork_value(node.values[i], q)] if not self._boolish(node.values[i]) else [(q, boolean(b))])
                    else:
                        rec(q, i + 1)
            rec(p, 0)
            return out
        if self._boolish(node):
            return [(q, boolean(b)) for q, b in self.truth(node, p)]
        if isinstance(node, ast.Tuple):
            outs: list[tuple[Path, list[V]]] = [(p, [])]
            for e in node.elts:
                nxt = []
                for q, vs in outs:
                    for q2, v in self.fork_value(e, q):
                        nxt.append((q2, vs + [v]))
                outs = nxt
            return [(q, V('tuple', '(' + ', '.join(v.key for v in vs) + ')', tuple(vs))) for q, vs in outs]
        if isinstance(node, ast.Await):
            return self.fork_value(node.value, p)
        return [(p, self.ev(node, p))]

    def _boolish(self, node: ast.AST) -> bool:
        if isinstance(node, ast.Compare):
            return True
        if isinstance(node, ast.UnaryOp) and isinstance(node.op, ast.Not):
            return True
        if isinstance(node, ast.BoolOp):
            return all(self._boolish(v) for v in node.values)
        if isinstance(node, ast.Call) and (dotted(node.func) in ('isinstance', 'bool', 'callable')):
            return True
        if isinstance(node, ast.Constant) and isinstance(node.value, bool):
            return True
        return False

    def bind(self, target: ast.AST, v: V, p: Path) -> None:
        if isinstance(target, ast.Name):
            p.env[target.id] = v
            if target.id in p.ver:
                del p.ver[target.id]
        elif isinstance(target, (ast.Tuple, ast.List)):
            for i, t in enumerate(target.elts):
                if v.kind == 'tuple' and i < len(v.data) and not any(isinstance(x, ast.Starred) for x in target.elts):
                    self.bind(t, v.data[i], p)
                else:
                    self.bind(t, sym(f'{v.key}[{i}]'), p)
        elif isinstance(target, ast.Attribute):
            d = dotted(target)
            base = self.ev(target.value, p)
            k = f'{base.key}.{target.attr}'
            p.env[k] = v
            if self.cfg.record_writes:
                p.trace.append(Eff('write:' + (d or k), v.key, target, {'value': v}, p.loopdepth, self.f.qualname))
        elif isinstance(target, ast.Subscript):
            base = self.ev(target.value, p)
            idx = self.ev(target.slice, p)
            if base.kind == 'dict' and idx.kind == 'const' and isinstance(idx.data, str) and isinstance(target.value, ast.Name):
                items = dict(base.data[0]); items[idx.data] = v
                p.env[target.value.id] = V('dict', f'{base.key}|{idx.data}={v.key}', (items, base.data[1]))
                return
            p.env[f'{base.key}[{idx.key}]'] = v
            if self.cfg.record_writes:
                p.trace.append(Eff('setitem:' + base.key, f'{idx.key} = {v.key}', target, {'index': idx, 'value': v}, p.loopdepth, self.f.qualname))
            d = dotted(target.value)
            if d and d.split('.')[0] in self.cfg.versioned:
                p.ver[d.split('.')[0]] = p.ver.get(d.split('.')[0], 0) + 1
        elif isinstance(target, ast.Starred):
            self.bind(target.value, sym('*' + v.key), p)

    def try_inline_stmt_call(self, value: ast.AST, p: Path) -> Optional[list[tuple[Path, V]]]:
        """`x = [await] f(...)` with f in cfg.inline: run f's body on the arguments."""
        call = value.value if isinstance(value, ast.Await) else value
        if not isinstance(call, ast.Call) or self.depth >= self.cfg.depth:
            return None
        names = self.call_names(call)
        target = [n for n in names if n in self.cfg.inline and n in self.repo.funcs]
        if len(target) != 1:
            return None
        g = self.repo.funcs[target[0]]
        sub = Interp(self.repo, g, self.cfg, self.depth + 1)
        sub.budget = self.budget
        q0 = p.clone()
        saved = p.env
        q0.env = {}
        params = g.params()
        pi = 0
        if g.cls is not None and isinstance(call.func, ast.Attribute) and not any(d == 'staticmethod' for d in g.decorators):
            q0.env[params[0].arg] = self.ev(call.func.value, p); pi = 1
        for a in call.args:
            if pi < len(params):
                q0.env[params[pi].arg] = self.ev(a, p); pi += 1
        for k in call.keywords:
            if k.arg:
                q0.env[k.arg] = self.ev(k.value, p)
        defaults = _defaults(g)
        for a in params:
            if a.arg not in q0.env and a.arg in defaults:
                q0.env[a.arg] = sub.ev(defaults[a.arg], Path())
        key, kw = self.call_key(call, p)
        q0.trace.append(Eff('enter:' + g.qualname, key, call, kw, p.loopdepth, self.f.qualname))
        out = []
        for q in sub.run_block(_body(g), [q0]):
            callee_env = q.env
            q.env = dict(saved)
            # writes to attributes of arguments made by the callee stay visible (keys are global-ish)
            for k, v in callee_env.items():
                if '.' in k or '[' in k:
                    q.env[k] = v
            if q.status == 'return':
                rv = q.retval if q.retval is not None else const(None)
                q.status = 'run'; q.retval = None
                out.append((q, rv))
            elif q.status == 'run':
                out.append((q, const(None)))
            elif q.status == 'raise':
                out.append((q, sym('⊥')))
            else:  # pragma: no cover
                raise AnalysisError(f'{g.loc()}: break/continue escaped an inlined function')
        return out

    def assign(self, targets: list, value: ast.AST, p: Path) -> list[Path]:
        inl = self.try_inline_stmt_call(value, p)
        if inl is not None:
            outs = inl
        else:
            outs = []
            for q, v in self.fork_value(value, p):
                outs.extend(self.maybe_raise(value, q, v))
        res = []
        for q, v in outs:
            if q.status == 'run':
                for t in targets:
                    self.bind(t, v, q)
            res.append(q)
        return res

    def maybe_raise(self, node: ast.AST, p: Path, v: V) -> list[tuple[Path, V]]:
        """Fork one extra path per declared exception class of declared-raising callees evaluated in ``node``."""
        outs = [(p, v)]
        if not self.cfg.raising:
            return outs
        for n in walk_no_defs(node):
            if isinstance(n, ast.Call):
                names = self.call_names(n)
                for suffix, classes in self.cfg.raising.items():
                    if any(x == suffix or x.endswith('.' + suffix) for x in names) or (dotted(n.func) or '') == suffix:
                        for c in classes:
                            q = p.clone()
                            q.status = 'raise'; q.exc = c
                            q.trace.append(Eff('raised:' + c, suffix, n, {}, p.loopdepth, self.f.qualname))
                            outs.append((q, sym('⊥')))
        return outs

    def stmt(self, s: ast.AST, p: Path) -> list[Path]:
        if isinstance(s, (ast.Pass, ast.Import, ast.ImportFrom, ast.FunctionDef, ast.AsyncFunctionDef, ast.ClassDef,
                          ast.Nonlocal, ast.Global)):
            return [p]
        if isinstance(s, ast.Expr):
            if isinstance(s.value, ast.Constant):
                return [p]
            inl = self.try_inline_stmt_call(s.value, p)
            if inl is not None:
                return [q for q, _ in inl]
            if isinstance(s.value, (ast.Yield, ast.YieldFrom)) or (isinstance(s.value, ast.Await) and isinstance(s.value.value, (ast.Yield,))):
                y = s.value
                v = self.ev(y.value, p) if getattr(y, 'value', None) is not None else const(None)
                p.trace.append(Eff('yield', v.key, s, {'value': v}, p.loopdepth, self.f.qualname))
                return [p]
            return [q for q, _ in self.maybe_raise(s.value, p, self.ev(s.value, p))]
        if isinstance(s, ast.Assign):
            if len(s.targets) == 1 and isinstance(s.value, ast.Yield):
                v = self.ev(s.value.value, p) if s.value.value is not None else const(None)
                p.trace.append(Eff('yield', v.key, s, {'value': v}, p.loopdepth, self.f.qualname))
                self.bind(s.targets[0], sym(f'sent@{s.lineno}'), p)
                return [p]
            return self.assign(s.targets, s.value, p)
        if isinstance(s, ast.AnnAssign):
            if s.value is None:
                return [p]
            return self.assign([s.target], s.value, p)
        if isinstance(s, ast.AugAssign):
            cur = self.ev(s.target, p)
            v = self.ev(s.value, p)
            nv: V = sym(f'({cur.key} {type(s.op).__name__} {v.key})')
            if isinstance(s.op, ast.BitOr) and cur.kind == 'dict' and v.kind == 'dict':
                items = dict(cur.data[0]); items.update(v.data[0])
                nv = V('dict', f'({cur.key} | {v.key})', (items, cur.data[1] or v.data[1]))
            if isinstance(s.op, ast.Add) and cur.kind == 'coll' and v.kind == 'coll':
                nv = V('coll', f'({cur.key} + {v.key})', ('concat', (cur, v)))
            if cur.kind == 'const' and v.kind == 'const':
                try:
                    nv = const(eval(compile(ast.Expression(ast.BinOp(ast.Constant(cur.data), s.op, ast.Constant(v.data))), '<c>', 'eval')))  # noqa: S307
                except Exception:
                    pass
            self.bind(s.target, nv, p)
            return [p]
        if isinstance(s, ast.Return):
            if s.value is None:
                p.status = 'return'; p.retval = const(None)
                p.trace.append(Eff('return', 'None', s, {'value': p.retval}, p.loopdepth, self.f.qualname))
                return [p]
            inl = self.try_inline_stmt_call(s.value, p)
            outs = inl if inl is not None else [x for q, v in self.fork_value(s.value, p) for x in self.maybe_raise(s.value, q, v)]
            res = []
            for q, v in outs:
                if q.status == 'run':
                    q.status = 'return'; q.retval = v
                    q.trace.append(Eff('return', v.key, s, {'value': v}, q.loopdepth, self.f.qualname))
                res.append(q)
            return res
        if isinstance(s, ast.Raise):
            cname = 'reraise'
            if s.exc is not None:
                e = s.exc.func if isinstance(s.exc, ast.Call) else s.exc
                v = self.ev(e, p)
                if v.key.startswith('exc:'):
                    cname = v.key[4:]
                else:
                    cname = self.repo.resolve(self.m, e) or src(e)
                    if isinstance(s.exc, ast.Call):
                        self.ev(s.exc, p)
            else:
                cname = p.env['@caught'].key[4:] if '@caught' in p.env else 'reraise'
            p.status = 'raise'; p.exc = cname
            p.trace.append(Eff('raise:' + cname, src(s, 80), s, {}, p.loopdepth, self.f.qualname))
            return [p]
        if isinstance(s, ast.Break):
            p.status = 'break'; return [p]
        if isinstance(s, ast.Continue):
            p.status = 'continue'; return [p]
        if isinstance(s, ast.Assert):
            return [q for q, b in self.truth(s.test, p) if b]
        if isinstance(s, ast.Delete):
            for t in s.targets:
                if isinstance(t, ast.Subscript):
                    base = self.ev(t.value, p); idx = self.ev(t.slice, p)
                    p.trace.append(Eff('delitem:' + base.key, idx.key, s, {'index': idx}, p.loopdepth, self.f.qualname))
                elif isinstance(t, ast.Name):
                    p.env.pop(t.id, None)
            return [q for q, _ in self.maybe_raise(s, p, const(None))]
        if isinstance(s, ast.If):
            out = []
            for q, b in self.truth(s.test, p):
                out.extend(self.run_block(s.body if b else s.orelse, [q]))
            return out
        if isinstance(s, (ast.For, ast.AsyncFor, ast.While)):
            return self.loop(s, p)
        if isinstance(s, (ast.With, ast.AsyncWith)):
            paths = [p]
            for it in s.items:
                nxt = []
                for q in paths:
                    v = self.ev(it.context_expr, q)
                    q.trace.append(Eff('with:' + v.key.split('(')[0], v.key, it.context_expr, {}, q.loopdepth, self.f.qualname)) if self.cfg.record_all_calls else None
                    if it.optional_vars is not None:
                        self.bind(it.optional_vars, sym(f'enter({v.key})'), q)
                    nxt.append(q)
                paths = nxt
            return self.run_block(s.body, paths)
        if isinstance(s, ast.Try):
            return self.try_(s, p)
        if isinstance(s, ast.Match):
            return self.match(s, p)
        raise AnalysisError(f'{self.f.loc(s)}: unsupported statement {type(s).__name__} in an analysed scope')

    def assigned_names(self, stmts: Iterable[ast.AST]) -> set:
        out = set()
        for s in stmts:
            for n in walk_no_defs(s):
                if isinstance(n, ast.Name) and isinstance(n.ctx, ast.Store):
                    out.add(n.id)
                elif isinstance(n, (ast.Attribute, ast.Subscript)) and isinstance(n.ctx, ast.Store):
                    d = dotted(n) if isinstance(n, ast.Attribute) else None
                    if d:
                        out.add(d)
        return out

    def loop(self, s, p: Path) -> list[Path]:
        """One symbolic iteration (or none); variables assigned in the body are havocked afterwards."""
        out: list[Path] = []
        assigned = self.assigned_names(s.body)
        if isinstance(s, ast.While):
            entries = self.truth(s.test, p)
        else:
            it = self._iter_base(self.ev(s.iter, p))
            if it.kind in ('coll', 'tuple', 'const'):
                entries = list(self.truth_value(it, p.clone()))
            else:
                # iterating an opaque iterable: "non-empty" is an atom of the iterable
                entries = self.atom(f'nonempty({it.key})', p)
        for q, b in entries:
            if not b:
                out.extend(self.run_block(s.orelse, [q]) if s.orelse else [q])
                continue
            if not isinstance(s, ast.While):
                self.bind(s.target, sym(f'item({self._iter_base(self.ev(s.iter, q)).key})'), q)
            q.loopdepth += 1
            for r in self.run_block(s.body, [q]):
                r.loopdepth -= 1
                if r.status in ('break',):
                    r.status = 'run'
                    self._havoc(r, assigned, s, keep=True)
                    out.append(r)
                elif r.status in ('continue', 'run'):
                    r.status = 'run'
                    self._havoc(r, assigned, s)
                    out.extend(self.run_block(s.orelse, [r]) if s.orelse else [r])
                else:
                    out.append(r)
        return out

    @staticmethod
    def _iter_base(v: V) -> V:
        """list(x) / tuple(x) / sorted(x) iterate the elements of x: name the loop after x (a snapshot is still "every element of x")."""
        while v.kind == 'coll' and v.data[0] == 'alias':
            v = v.data[1][0]
        return v

    def _havoc(self, p: Path, names: set, s: ast.AST, keep: bool = False) -> None:
        if keep:
            return
        for n in names:
            if n in p.env and p.env[n].kind in ('bool', 'const') and not self._loop_carried(n, s):
                continue
            p.env[n] = sym(f'{n}@loop{s.lineno}')

    def _loop_carried(self, name: str, s: ast.AST) -> bool:
        return True

    def try_(self, s: ast.Try, p: Path) -> list[Path]:
        out: list[Path] = []
        body_paths = self.run_block(s.body, [p])
        after: list[Path] = []
        for q in body_paths:
            if q.status == 'raise':
                handled = False
                for h in s.handlers:
                    classes = ['BaseException'] if h.type is None else [
                        self.repo.resolve(self.m, e) or src(e) for e in (h.type.elts if isinstance(h.type, ast.Tuple) else [h.type])]
                    exc = q.exc or 'Exception'
                    if exc == 'reraise':
                        exc = 'Exception'
                    if any(self.repo.is_subclass(exc, c) for c in classes):
                        q.status = 'run'
                        caught = q.exc
                        q.exc = None
                        prev = q.env.get('@caught')
                        q.env['@caught'] = sym(f'exc:{caught}')
                        if h.name:
                            q.env[h.name] = sym(f'exc:{caught}')
                        q.trace.append(Eff('caught:' + (caught or ''), ' | '.join(classes), h, {}, q.loopdepth, self.f.qualname))
                        for r in self.run_block(h.body, [q]):
                            if prev is not None:
                                r.env['@caught'] = prev
                            else:
                                r.env.pop('@caught', None)
                            after.append(r)
                        handled = True
                        break
                if not handled:
                    after.append(q)
            elif q.status == 'run' and s.orelse:
                after.extend(self.run_block(s.orelse, [q]))
            else:
                after.append(q)
        if not s.finalbody:
            return after
        for q in after:
            st, rv, ex = q.status, q.retval, q.exc
            q.status = 'run'
            for r in self.run_block(s.finalbody, [q]):
                if r.status == 'run':
                    r.status, r.retval, r.exc = st, rv, ex
                out.append(r)
        return out

    def match(self, s: ast.Match, p: Path) -> list[Path]:
        subj = self.ev(s.subject, p)
        out: list[Path] = []
        pending = [p]
        for case in s.cases:
            nxt: list[Path] = []
            for q in pending:
                pat = case.pattern
                if isinstance(pat, ast.MatchAs) and pat.pattern is None:
                    if pat.name:
                        q.env[pat.name] = subj
                    branches = [(q, True)]
                else:
                    k = f'match({subj.key}, {src(pat, 80)})'
                    branches = self._match_atom(subj, pat, k, q)
                for r, b in branches:
                    if b:
                        self._bind_pattern(pat, subj, r)
                        if case.guard is not None:
                            for r2, g in self.truth(case.guard, r):
                                if g:
                                    out.extend(self.run_block(case.body, [r2]))
                                else:
                                    nxt.append(r2)
                        else:
                            out.extend(self.run_block(case.body, [r]))
                    else:
                        nxt.append(r)
            pending = nxt
        out.extend(pending)
        return out

    def _match_atom(self, subj: V, pat: ast.AST, k: str, p: Path) -> list[tuple[Path, bool]]:
        if isinstance(pat, ast.MatchClass):
            cname = self.repo.resolve(self.m, pat.cls) or src(pat.cls)
            if not pat.patterns and not pat.kwd_patterns:
                if subj.kind == 'new':
                    return [(p, self.repo.is_subclass(subj.data[0], cname))]
                return self.atom(f'isinstance({subj.key}, {cname})', p)
        if isinstance(pat, ast.MatchValue):
            v = self.ev(pat.value, p)
            return self.atom(f'eq({subj.key}, {v.key})', p) if subj.kind != 'const' or v.kind != 'const' else [(p, subj.data == v.data)]
        if isinstance(pat, ast.MatchSingleton):
            if pat.value is None:
                return self.atom(f'isnone({subj.key})', p)
            return self.atom(f'eq({subj.key}, {pat.value!r})', p)
        if isinstance(pat, ast.MatchOr):
            out = []

            def rec(path: Path, i: int) -> None:
                if i == len(pat.patterns):
                    out.append((path, False)); return
                for q, b in self._match_atom(subj, pat.patterns[i], f'match({subj.key}, {src(pat.patterns[i], 80)})', path):
                    if b:
                        out.append((q, True))
                    else:
                        rec(q, i + 1)
            rec(p, 0)
            return out
        return self.atom(k, p)

    def _bind_pattern(self, pat: ast.AST, subj: V, p: Path) -> None:
        for n in ast.walk(pat):
            if isinstance(n, ast.MatchAs) and n.name:
                p.env[n.name] = subj if n.pattern is None and n is pat else sym(f'{subj.key}~{n.name}')
            elif isinstance(n, ast.MatchStar) and n.name:
                p.env[n.name] = sym(f'{subj.key}~*{n.name}')
            elif isinstance(n, ast.MatchMapping) and n.rest:
                p.env[n.rest] = sym(f'{subj.key}~**{n.rest}')


def _closes_at_end(s: str, open_idx: int) -> bool:
    """Is the parenthesis opened at ``open_idx`` closed by the very last character of ``s``?"""
    depth = 0
    for i in range(open_idx, len(s)):
        if s[i] == '(':
            depth += 1
        elif s[i] == ')':
            depth -= 1
            if depth == 0:
                return i == len(s) - 1
    return False


def _body(g: FuncInfo) -> list:
    body = g.node.body  # type: ignore[attr-defined]
    return [s for s in body if not (isinstance(s, ast.Expr) and isinstance(s.value, ast.Constant))]


def _defaults(g: FuncInfo) -> dict:
    a = g.node.args  # type: ignore[attr-defined]
    out = {}
    pos = list(a.posonlyargs) + list(a.args)
    for arg, d in zip(pos[len(pos) - len(a.defaults):], a.defaults):
        out[arg.arg] = d
    for arg, d in zip(a.kwonlyargs, a.kw_defaults):
        if d is not None:
            out[arg.arg] = d
    return out


_pseudo: dict = {}


def _module_pseudo_func(repo: Repo, mod) -> FuncInfo:
    if mod.name not in _pseudo:
        node = ast.FunctionDef(name='<module>', args=ast.arguments(posonlyargs=[], args=[], kwonlyargs=[], kw_defaults=[], defaults=[]),
                               body=[], decorator_list=[], lineno=0)
        _pseudo[mod.name] = FuncInfo(f'{mod.name}.<module>', node, mod, None, None)
    return _pseudo[mod.name]


def analyse(repo: Repo, f: FuncInfo | str, cfg: Optional[Config] = None, *, stmts: Optional[list] = None,
            env: Optional[dict] = None) -> list[Path]:
    """Enumerate the feasible paths of a function (or of a statement list inside it)."""
    fi = repo.fn(f) if isinstance(f, str) else f
    cfg = cfg or Config()
    it = Interp(repo, fi, cfg)
    p0 = Path()
    p0.fn = fi.qualname
    for a in fi.params():
        p0.env[a.arg] = sym(a.arg)
    if fi.node.args.kwarg is not None:  # type: ignore[attr-defined]
        p0.env[fi.node.args.kwarg.arg] = V('dict', fi.node.args.kwarg.arg, ({}, True))  # type: ignore[attr-defined]
    if env:
        p0.env.update(env)
    for k, v in cfg.assume.items():
        p0.atoms[k] = v
    body = stmts if stmts is not None else _body(fi)
    return it.run_block(body, [p0])


def entails(repo: Repo, f: FuncInfo | str, path: Path, key: str) -> Optional[bool]:
    """Truth of an atom key on a path: decided, implied by the small theory, or None (undecided)."""
    fi = repo.fn(f) if isinstance(f, str) else f
    return Interp(repo, fi, Config()).implied(key, path)


def completions(path: Path, patterns: dict, entail: Optional[Callable[[str], Optional[bool]]] = None) -> Iterable[dict[str, Any]]:
    """All valuations of the named spec atoms consistent with the path (undecided atoms take both values).

    ``patterns[name]`` is a regex over atom keys, or a pair (regex, canonical key): with a canonical key the small
    theory is consulted first (an atom the path never tested may still be implied, e.g. `x is None` => not x).
    """
    names = list(patterns)
    fixed = {}
    free = []
    domains = {}
    for n in names:
        pat = patterns[n]
        if isinstance(pat, str):
            rx, key, dom = pat, None, (False, True)
        elif len(pat) == 2:
            rx, key, dom = pat[0], pat[1], (False, True)
        else:
            rx, key, dom = pat
        domains[n] = dom
        v = path.atom(rx)
        if v is None and key is not None and entail is not None:
            v = entail(key)
        if v is None:
            free.append(n)
        else:
            fixed[n] = v
    import itertools
    for combo in itertools.product(*[domains[n] for n in free]):
        val = dict(fixed)
        val.update(dict(zip(free, combo)))
        yield val
