"""
D7 (C17/C12): the per-object readiness toggle that queueing.watcher creates for a first-seen
object is dropped only on the success path of process_resource_event (after index_resource).
If that first processing fails before the drop (here: a filter callback of an index handler
raises for object "a"; the error is swallowed by the per-object throttler as designed), the
toggle stays in operator_indexed; the worker of "a" later retires without dropping it; and every
other object waits at `operator_indexed.wait_for(True)` forever. (The per-kind toggle leaks the
same way when a watcher is terminated before its LISTED bookmark.)
Run: /venv/bin/python D07_readiness_toggle_leak.py
"""
import asyncio, logging
import kopf
from kopf._core.reactor import processing, inventory
from kopf._core.engines import indexing
from kopf._core.intents import registries
from kopf._core.actions import lifecycles
from kopf._cogs.structs import references, ephemera
from kopf._cogs.configs import configuration
from kopf._cogs.aiokits import aiotoggles
logging.disable(logging.CRITICAL)
registry = registries.OperatorRegistry()
calls = []

def flaky_when(name, **_):
    if name == 'a':
        raise RuntimeError("unexpected error in a filter callback for object a")
    return True

@kopf.index('g', 'v1', 'plural', registry=registry, when=flaky_when)
def idx(name, **_): return {name: 1}

@kopf.on.create('g', 'v1', 'plural', registry=registry)
def created(name, **_): calls.append(name)

async def main():
    settings = configuration.OperatorSettings(); settings.queueing.error_delays = [0.01]
    memories = inventory.ResourceMemories()
    resource = references.Resource('g', 'v1', 'plural', namespaced=True)
    indexers = indexing.OperatorIndexers(); indexers.ensure(registry._indexing.get_all_handlers())
    operator_indexed = aiotoggles.ToggleSet(all)
    kw = dict(lifecycle=lifecycles.all_at_once, registry=registry, settings=settings, memories=memories,
              memobase=ephemera.Memo(), resource=resource, indexers=indexers, event_queue=asyncio.Queue(),
              operator_indexed=operator_indexed)
    def body(n): return {'apiVersion': 'g/v1', 'kind': 'K', 'metadata': {'name': n, 'namespace': 'ns', 'uid': 'u'+n, 'resourceVersion': '1'}, 'spec': {}}
    ta = await operator_indexed.make_toggle(name='a')   # as queueing.watcher does per first-seen object
    tb = await operator_indexed.make_toggle(name='b')
    await processing.process_resource_event(raw_event={'type': None, 'object': body('a')}, resource_indexed=ta, **kw)
    print('after object a failed in indexing: toggle a still blocks readiness:', ta in operator_indexed, '| operator_indexed on:', operator_indexed.is_on())
    try:
        await asyncio.wait_for(processing.process_resource_event(raw_event={'type': None, 'object': body('b')}, resource_indexed=tb, **kw), timeout=3)
        print('object b processed; create handler calls:', calls)
    except asyncio.TimeoutError:
        print('object b is STUCK behind the readiness gate for 3s+ (would be forever: a\'s worker retires without dropping its toggle); calls:', calls)
asyncio.run(main())
