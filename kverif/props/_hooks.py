"""Extension rule sets: every module `kverif/props/_x_*.py` may define

    EXTRA = {'C02': [(check_function, 'R2.12'), ...], ...}

Each `check_function(ctx, rule)` is run as part of the named property's check (quick and thorough), after the property's own rules.
"""
from __future__ import annotations

import importlib
import os
import pkgutil

from ..core import Ctx


def run(ctx: Ctx, pid: str) -> None:
    here = os.path.dirname(__file__)
    for m in sorted(pkgutil.iter_modules([here]), key=lambda m: m.name):
        if not m.name.startswith('_x_'):
            continue
        mod = importlib.import_module(f'kverif.props.{m.name}')
        for fn, rule in getattr(mod, 'EXTRA', {}).get(pid, []):
            fn(ctx, rule)
