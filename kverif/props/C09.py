"""C09 -- daemon/timer lifecycle: one instance, started on match, stopped in stages (DESIGN.md §4, R9.1-R9.7)."""
from __future__ import annotations

import ast
import re
from typing import Any, Callable, Iterable, Optional

from .. import absint
from ..core import Ctx, PropSpec
from ..rules import (calls_in, cfg_of, construct, dominating_conditions, is_call_to, kwarg, loop_nodes, method_call, norm, origin,
                     origin_src, suspensions_from, table_check, witness)
from ..rules import cond_implies as _cond_implies
from ..srcmodel import AnalysisError, dotted, src, walk_no_defs

D = 'kopf._core.engines.daemons'
P = 'kopf._core.reactor.processing'
DAEMON_CLS = f'{D}.Daemon'
MEMORY_CLS = f'{D}.DaemonsMemory'
SETTER_CLS = 'kopf._cogs.aiokits.aioenums.FlagSetter'
STAGES = ('DAEMON_SIGNALLED', 'DAEMON_CANCELLED', 'DAEMON_ABANDONED')


# ====================================================================== small local helpers
_fn_of_node: dict = {}


def cond_implies(test: ast.AST, outcome: bool, pred: Callable[[ast.AST, bool], bool], fn=None, _depth: int = 0) -> bool:
    """``rules.cond_implies`` that also looks through a condition named into a single-assignment local
    (`gone = t == 'DELETED'; if gone:`) -- the engine's version treats such a Name as an opaque atom."""
    if isinstance(test, ast.UnaryOp) and isinstance(test.op, ast.Not):
        return cond_implies(test.operand, not outcome, pred, fn, _depth)
    if isinstance(test, ast.BoolOp):
        if isinstance(test.op, ast.And) and outcome:
            return any(cond_implies(v, True, pred, fn, _depth) for v in test.values)
        if isinstance(test.op, ast.Or) and not outcome:
            return any(cond_implies(v, False, pred, fn, _depth) for v in test.values)
        return False
    if isinstance(test, ast.Name) and fn is not None and _depth < 3:
        o = origin(fn, test, 1)
        if o is not test and isinstance(o, (ast.BoolOp, ast.UnaryOp, ast.Compare, ast.Call, ast.Name)):
            return cond_implies(o, outcome, pred, fn, _depth + 1)
    return _cond_implies(test, outcome, pred)


def _param_of_type(repo, f, cls: str) -> Optional[str]:
    """Name of the (single) parameter of ``f`` annotated with class ``cls``."""
    hits = [a.arg for a in f.params() if repo.ann_class(f.module, a.annotation) == cls]
    return hits[0] if len(hits) == 1 else None


def _is_registry(repo, f, e: ast.AST) -> bool:
    """Is ``e`` a daemon registry: a mapping whose declared value type is ``Daemon`` (dict[HandlerId, Daemon])?"""
    if not isinstance(e, (ast.Name, ast.Attribute)):
        return False
    try:
        return repo._value_type_of_container(f, e, repo.local_types(f)) == DAEMON_CLS
    except Exception:   # an untypable expression is simply not a registry
        return False


def _memory_field(repo, f, e: ast.AST, field: str) -> bool:
    """``e`` is ``<x>.<field>`` with ``<x>`` typed DaemonsMemory."""
    return isinstance(e, ast.Attribute) and e.attr == field and repo.type_of(f, e.value) == MEMORY_CLS


def _attr_type(repo, f, e: ast.AST) -> Optional[str]:
    """Type of ``<x>.attr``: the engine's annotation-based answer, else the class constructed by the unannotated
    `self.attr = Cls(...)` in the owner's __init__ (local work-around: srcmodel.type_of needs an annotation)."""
    t = repo.type_of(f, e)
    if t is not None or not isinstance(e, ast.Attribute):
        return t
    base = repo.type_of(f, e.value)
    init = repo.find_method(base, '__init__') if base else None
    if init is None:
        return None
    for n in walk_no_defs(init.node):
        if isinstance(n, ast.Assign) and len(n.targets) == 1 and isinstance(n.targets[0], ast.Attribute) and n.targets[0].attr == e.attr \
                and dotted(n.targets[0].value) == 'self' and isinstance(n.value, ast.Call):
            r = repo.resolve(init.module, n.value.func)
            if r in repo.classes:
                return r
    return None


def _in_test(e: ast.AST, outcome: bool) -> Optional[tuple[ast.AST, ast.AST, bool]]:
    """(member, container, is-member) for an atomic membership fact, else None (cond_implies normalises `not in`)."""
    if isinstance(e, ast.Compare) and len(e.ops) == 1 and isinstance(e.ops[0], ast.In):
        return e.left, e.comparators[0], outcome
    return None


def _is_set_call(f, e: ast.AST) -> Optional[str]:
    """Origin source of the flag-setter in a reason-less ``<S>.is_set()`` / ``<S>.async_event.is_set()`` test."""
    r = method_call(e, 'is_set')
    if r is None or e.args or e.keywords:      # type: ignore[attr-defined]
        return None
    if isinstance(r, ast.Attribute) and r.attr in ('async_event', 'sync_event'):
        r = r.value
    return origin_src(f, r)


def _no_exc_from_finally(a, b) -> bool:
    """Edge filter: a second cancellation/exception arriving *inside* a running `finally` is not modelled."""
    return not (a.in_finally and b in a.exc_edges.values())


def unver(key: str) -> str:
    return re.sub(r'#\d+', '', key)


def split_top(key: str) -> Optional[tuple[str, str]]:
    """'cmp(A, B)' -> (A, B), splitting at the top-level comma."""
    if not (key.startswith('cmp(') and key.endswith(')')):
        return None
    body, depth = key[4:-1], 0
    for i, ch in enumerate(body):
        depth += ch in '([{'
        depth -= ch in ')]}'
        if ch == ',' and depth == 0:
            return body[:i], body[i + 2:]
    return None


def oriented_cmp(p: absint.Path, left: Callable[[str], bool], right: Callable[[str], bool]) -> Optional[str]:
    """Relation `left ? right` (one of < = >) decided on the path for the ordering atom whose sides satisfy the
    two role predicates (the engine stores the pair in key order; this gives it back oriented)."""
    found = None
    for k, v in p.atoms.items():
        ab = split_top(unver(k))
        if ab is None:
            continue
        a, b = ab
        if left(a) and right(b):
            rel = v
        elif left(b) and right(a):
            rel = {'<': '>', '>': '<', '=': '='}[v]
        else:
            continue
        if found is not None and found != rel:
            raise AnalysisError(f'two ordering atoms for one role with different values: {k}')
        found = rel
    return found


class Need(Exception):
    def __init__(self, name: str):
        self.name = name


class LazyVal:
    def __init__(self, decided: dict):
        self.d = decided

    def __getitem__(self, name: str) -> Any:
        if name not in self.d or self.d[name] is None:
            raise Need(name)
        return self.d[name]


def lazy_table(ctx: Ctx, rule: str, f, paths: list, readers: dict, domains: dict, spec, observe, *, what: str,
               key: str = 'table', max_report: int = 4, min_rows: int = 2) -> None:
    """TABLE over atoms with arbitrary finite domains (the ordering atoms are 3-valued): for every feasible path and
    every completion of the atoms *the specification consults* but the path left undecided, observed == specified.
    Atoms the specification does not consult are universally quantified, exactly as in ``rules.table_check``."""
    n = bad = 0
    rows = set()
    for p in paths:
        obs = observe(p)
        base = {name: rd(p) for name, rd in readers.items()}
        todo = [dict(base)]
        while todo:
            val = todo.pop()
            try:
                exp = spec(LazyVal(val))
            except Need as need:
                if need.name not in domains:
                    raise AnalysisError(f'{f.loc()}: specification consults an unknown atom {need.name}')
                for x in domains[need.name]:
                    todo.append({**val, need.name: x})
                continue
            n += 1
            if obs == exp:
                rows.add(repr(exp))
                continue
            bad += 1
            if bad <= max_report:
                shown = ' '.join(f'{k}={v}' for k, v in sorted(val.items()) if v is not None)
                ctx.ob(rule, f'{what}: valuation [{shown}] must give {exp!r}', False, loc=f.loc(),
                       construct=f'{f.qualname}:{key}:{shown}', detail=f'observed {obs!r} on path {p.describe()[:260]}')
    ctx.count('paths', len(paths))
    ctx.count('valuations', n)
    ctx.ob(rule, f'{what}: {len(paths)} feasible paths x completions = {n} valuations agree with the specification table '
           f'({len(rows)} distinct rows exercised)', bad == 0 and len(rows) >= min_rows, loc=f.loc(), construct=f'{f.qualname}:{key}',
           detail='' if bad == 0 else f'{bad} disagreeing valuations', nontrivial=len(rows) > 1)
    ctx.sample({'rule': rule, 'function': f.short, 'paths': len(paths), 'valuations': n,
                'example_path': paths[0].describe()[:300] if paths else None})


def sites_of(repo, target: str) -> list:
    """(function, call) for every call of a repository function in the package.  Same answer as
    ``repo.call_sites_of(target)`` but pre-filtered by the callee's (possibly aliased) last name, because resolving every
    call of the package costs 2 s per query."""
    tq = repo._qual(target)
    short = tq.rsplit('.', 1)[-1]
    out = []
    for fn in repo.all_functions():
        names = {short} | {k for k, v in fn.module.imports.items() if v == tq or v.endswith('.' + short)}
        for c in calls_in(fn.node):
            last = c.func.id if isinstance(c.func, ast.Name) else c.func.attr if isinstance(c.func, ast.Attribute) else None
            if last in names and tq in repo.callee_names(fn, c):
                out.append((fn, c))
    return out


def registry_mutations(repo) -> tuple[list, list, list]:
    """(insertions, deletions, rebinding writes) of any daemon registry in the whole package."""
    ins, dels, rebind = [], [], []
    for fn in repo.all_functions():
        for n in walk_no_defs(fn.node):
            if isinstance(n, (ast.Assign, ast.AugAssign, ast.AnnAssign)):
                tgts = n.targets if isinstance(n, ast.Assign) else [n.target]
                for t in tgts:
                    for tt in (t.elts if isinstance(t, (ast.Tuple, ast.List)) else [t]):
                        if isinstance(tt, ast.Subscript) and _is_registry(repo, fn, tt.value):
                            ins.append((fn, n))
                        elif isinstance(tt, ast.Attribute) and _memory_field(repo, fn, tt, 'running_daemons'):
                            rebind.append((fn, n))
            elif isinstance(n, ast.Delete):
                for t in n.targets:
                    if isinstance(t, ast.Subscript) and _is_registry(repo, fn, t.value):
                        dels.append((fn, n))
            elif isinstance(n, ast.Call) and isinstance(n.func, ast.Attribute) and n.func.attr in (
                    'pop', 'popitem', 'clear', '__delitem__', 'update', 'setdefault', '__setitem__') and _is_registry(repo, fn, n.func.value):
                (dels if n.func.attr in ('pop', 'popitem', 'clear', '__delitem__') else ins).append((fn, n))
    return ins, dels, rebind


# ====================================================================== R9.1 / R9.2 / R9.3
def check_spawn_and_runner(ctx: Ctx) -> None:
    repo = ctx.repo
    f, g = cfg_of(ctx, f'{D}.spawn_daemons')
    rf, rg = cfg_of(ctx, f'{D}._runner')

    # the runner coroutine is created only by spawn_daemons (CONFINE) ...
    sites = sites_of(repo, f'{D}._runner')
    ctx.require_sites('R9.1', 'creation of the runner coroutine', len(sites), 1, f.loc())
    ctx.ob('R9.1', f'the runner coroutine of a daemon/timer is created only in spawn_daemons ({len(sites)} site)',
           bool(sites) and all(fn is f for fn, _ in sites), loc=f.loc(), construct=f'{D}:confine:_runner-call',
           detail=', '.join(f'{fn.short}:L{c.lineno}' for fn, c in sites))
    creates = g.call_nodes(f'{D}._runner')
    ins, dels, rebind = registry_mutations(repo)
    ctx.count('registry_mutation_sites', len(ins) + len(dels))
    for cn in creates:
        call = [c for c in calls_in(cn.stmt) if is_call_to(repo, f, c, f'{D}._runner')][0]
        reg = kwarg(call, 'daemons')
        hnd = kwarg(call, 'handler')
        ok_args = reg is not None and hnd is not None and _is_registry(repo, f, reg)
        ctx.ob('R9.1', 'spawn_daemons: the runner receives the registry it must remove itself from and its handler', ok_args,
               loc=f.loc(call), construct=construct(f, 'config:_runner(daemons=, handler=)'))
        if not ok_args:
            continue
        reg_s, key_s = src(reg), src(hnd) + '.id'
        # the runner is started as a task (otherwise nothing runs and nothing is ever removed)
        parent = f.module.parent.get(call)
        as_task = isinstance(parent, ast.Call) and (repo.resolve(f.module, parent.func) or '').endswith('create_task')
        ctx.ob('R9.1', 'spawn_daemons: the runner coroutine is started as a task', as_task, loc=f.loc(call),
               construct=construct(f, 'config:create_task(_runner)'))
        regs = g.stmt_nodes(lambda x: isinstance(x, ast.Assign) and any(
            isinstance(t, ast.Subscript) and src(t.value) == reg_s and src(t.slice) == key_s for t in x.targets))
        ctx.require_sites('R9.1', f'spawn_daemons: registration `{reg_s}[{key_s}] = ...`', len(regs), 1, f.loc(cn.stmt))
        if not regs:
            continue

        # GUARD: created only under `<handler>.id not in <registry>`
        def absent(e: ast.AST, o: bool) -> bool:
            t = _in_test(e, o)
            return t is not None and t[2] is False and src(t[0]) == key_s and src(t[1]) == reg_s
        guards = [bn for t, o, bn in dominating_conditions(g, cn) if cond_implies(t, o, absent, f)]
        ctx.ob('R9.1', f'spawn_daemons: a runner task is created only under `{key_s} not in {reg_s}`', bool(guards),
               loc=f.loc(cn.stmt), construct=construct(f, 'guard:create-under-id-not-in-registry'),
               detail='' if guards else 'no dominating membership test of the handler id in the registry')
        # ATOMIC: no suspension point between the test and the registration
        if guards:
            check = max(guards, key=lambda n: n.id)
            susp = suspensions_from(g, [check], regs)
            ctx.ob('R9.1', f'spawn_daemons: no suspension point between the membership test and `{reg_s}[{key_s}] = ...` '
                   '(check-then-insert is atomic for the event loop)', not susp, loc=f.loc(regs[0].stmt),
                   construct=construct(f, 'atomic:guard->registration'),
                   detail='; '.join(f'suspends at L{n.lineno} `{n.label[:60]}`' for n in susp[:4]))
        # ... and every created task is registered before the next handler / the normal return
        regset = set(regs)
        r = g.reach([cn], stop=lambda n: n in regset)
        heads = {n for n in g.nodes if n.kind == 'loop' and cn in loop_nodes(g, n.stmt)}
        leaked = [n for n in r if n is g.exit_normal or n in heads]
        ctx.ob('R9.1', 'spawn_daemons: every created runner task is registered (no path to the next handler or to the '
               'return bypasses the registration)', not leaked, loc=f.loc(cn.stmt), construct=construct(f, 'flow:create->register'),
               detail='; '.join(witness(g, [cn], n, regs) for n in leaked[:2]))
        # the registered value is the record holding that task
        def holds_the_task(rn) -> bool:
            v = origin(f, rn.stmt.value)
            return isinstance(v, ast.Call) and DAEMON_CLS in repo.callee_names(f, v) and kwarg(v, 'task') is not None \
                and any(x is call for x in ast.walk(kwarg(v, 'task')))
        ctx.ob('R9.1', 'spawn_daemons: what is registered under the handler id is the Daemon record holding the task just created',
               all(holds_the_task(rn) for rn in regs), loc=f.loc(regs[0].stmt), construct=construct(f, 'flow:registered-record-holds-the-task'))

    # R9.3 CONFIG (premise of the `stopper.reason is None` test): the record and the cause share ONE stopper
    shared = []
    for n in walk_no_defs(f.node):
        if isinstance(n, ast.Call) and any(x.endswith('daemons.Daemon') for x in repo.callee_names(f, n)):
            shared.append(('Daemon', n, kwarg(n, 'stopper')))
        if isinstance(n, ast.Call) and any(x.endswith('causes.DaemonCause') for x in repo.callee_names(f, n)):
            shared.append(('DaemonCause', n, kwarg(n, 'stopper')))
    kinds = {k for k, _, _ in shared}
    same = kinds == {'Daemon', 'DaemonCause'} and len({src(v) for _, _, v in shared}) == 1 and all(isinstance(v, ast.Name) for _, _, v in shared)
    ctx.ob('R9.3', 'spawn_daemons: the Daemon record (stopped from outside) and the DaemonCause (read by the runner) get the same stopper object',
           same, loc=f.loc(), construct=construct(f, 'config:shared-stopper'), detail=', '.join(f'{k}(stopper={norm(v)})' for k, _, v in shared))

    # ------------------------------------------------------------------ R9.2 PAIR: owner = _runner
    reg_p = [a.arg for a in rf.params() if _is_registry(repo, rf, ast.Name(id=a.arg, ctx=ast.Load()))]
    hnd_p = _param_of_type(repo, rf, 'kopf._core.intents.handlers.SpawningHandler')
    if len(reg_p) != 1 or hnd_p is None:
        raise AnalysisError(f'{rf.loc()}: _runner has no registry/handler parameters')
    rkey = f'{hnd_p}.id'
    rdels = rg.stmt_nodes(lambda x: isinstance(x, ast.Delete) and any(
        isinstance(t, ast.Subscript) and dotted(t.value) == reg_p[0] and src(t.slice) == rkey for t in x.targets))
    ctx.require_sites('R9.2', f'_runner: release `del {reg_p[0]}[{rkey}]`', len(rdels), 1, rf.loc())
    work = rg.call_nodes(f'{D}._daemon') + rg.call_nodes(f'{D}._timer')
    ctx.require_sites('R9.2', '_runner: the guarded daemon/timer coroutines', len(work), 2, rf.loc())
    if rdels:
        esc = rg.escaping_exits([rg.entry], rdels)
        ctx.ob('R9.2', '_runner: the registry entry is deleted on every exit (normal, exception, cancellation)', not esc, loc=rf.loc(),
               construct=construct(rf, 'allexits:del daemons[handler.id]'),
               detail='; '.join(f'{e.label} exit reachable via {witness(rg, [rg.entry], e, rdels)}' for e in esc[:2]))
        early = [w for w in work if w in rg.reach(rdels)]
        ctx.ob('R9.2', '_runner: the entry is released only after the daemon/timer coroutine has ended (no path from the '
               'deletion to the guarded coroutine) -- a stopping instance blocks its own respawn', not early, loc=rf.loc(rdels[0].stmt),
               construct=construct(rf, 'order:work<del'), detail='; '.join(f'L{w.lineno} `{w.label[:50]}` runs after the deletion' for w in early[:2]))
        undom = rg.dominated(rdels, work + [n for n in rg.nodes if n.kind == 'raise'])
        ctx.ob('R9.2', '_runner: every deletion is preceded by the guarded coroutine (or the unsupported-handler raise)', not undom,
               loc=rf.loc(rdels[0].stmt), construct=construct(rf, 'dom:work<del'))
    # CONFINE: who may write the registry
    ctx.ob('R9.2', f'daemon registries: exactly one insertion site, in spawn_daemons ({len(ins)} found)', len(ins) == 1 and ins[0][0] is f,
           loc=ins[0][0].loc(ins[0][1]) if ins else f.loc(), construct=f'{D}:confine:registry-insert',
           detail=', '.join(f'{fn.short}:L{n.lineno}' for fn, n in ins))
    ctx.ob('R9.2', f'daemon registries: exactly one deletion site, in _runner ({len(dels)} found) -- nobody else frees a slot of a still running instance',
           len(dels) == 1 and dels[0][0] is rf, loc=dels[0][0].loc(dels[0][1]) if dels else rf.loc(), construct=f'{D}:confine:registry-delete',
           detail=', '.join(f'{fn.short}:L{n.lineno}' for fn, n in dels))
    ctx.ob('R9.2', 'DaemonsMemory.running_daemons is never re-bound to another mapping', not rebind,
           loc=rebind[0][0].loc(rebind[0][1]) if rebind else rf.loc(), construct=f'{D}:confine:registry-rebind',
           detail=', '.join(f'{fn.short}:L{n.lineno}' for fn, n in rebind))

    # ------------------------------------------------------------------ R9.3 GUARD + CONFIG
    adds, removes = [], []
    for fn in repo.all_functions():
        for n in walk_no_defs(fn.node):
            if isinstance(n, ast.Call) and isinstance(n.func, ast.Attribute) and isinstance(n.func.value, ast.Attribute) \
                    and n.func.value.attr == 'forever_stopped' and _memory_field(repo, fn, n.func.value, 'forever_stopped'):
                if n.func.attr in ('add', 'update', '__ior__'):
                    adds.append((fn, n))
                elif n.func.attr in ('discard', 'remove', 'clear', 'pop', 'difference_update', 'intersection_update'):
                    removes.append((fn, n))
            elif isinstance(n, (ast.Assign, ast.AugAssign, ast.AnnAssign)):
                for t in (n.targets if isinstance(n, ast.Assign) else [n.target]):
                    if _memory_field(repo, fn, t, 'forever_stopped'):
                        (adds if isinstance(n, ast.AugAssign) and isinstance(n.op, ast.BitOr) else removes).append((fn, n))
    ctx.require_sites('R9.3', 'forever_stopped: marking site', len(adds), 1, rf.loc())
    ctx.ob('R9.3', 'forever_stopped is only ever extended in _runner', all(fn is rf for fn, _ in adds), loc=rf.loc(),
           construct=f'{D}:confine:forever_stopped-add', detail=', '.join(f'{fn.short}:L{n.lineno}' for fn, n in adds))
    ctx.ob('R9.3', 'forever_stopped is never shrunk or re-bound (an instance that exited on its own stays excluded for the process lifetime)',
           not removes, loc=removes[0][0].loc(removes[0][1]) if removes else rf.loc(), construct=f'{D}:confine:forever_stopped-remove',
           detail=', '.join(f'{fn.short}:L{n.lineno}' for fn, n in removes))
    cause_p = _param_of_type(repo, rf, 'kopf._core.intents.causes.DaemonCause')
    if cause_p is None:
        raise AnalysisError(f'{rf.loc()}: _runner has no DaemonCause parameter')

    def on_its_own(e: ast.AST, o: bool) -> bool:
        if isinstance(e, ast.Compare) and len(e.ops) == 1 and isinstance(e.ops[0], ast.Is) and o is True \
                and isinstance(e.comparators[0], ast.Constant) and e.comparators[0].value is None \
                and isinstance(e.left, ast.Attribute) and e.left.attr == 'reason':
            return origin_src(rf, e.left.value) == f'{cause_p}.stopper'
        return False
    add_nodes = rg.stmt_nodes(lambda x: any(x is n for fn, n in adds if fn is rf))
    for an in add_nodes:
        ok = any(cond_implies(t, o, on_its_own, rf) for t, o, _ in dominating_conditions(rg, an))
        call = [n for fn, n in adds if fn is rf and any(n is x for x in walk_no_defs(an.stmt))][0]
        arg_ok = len(call.args) == 1 and src(call.args[0]) == rkey
        ctx.ob('R9.3', '_runner: a handler is marked as stopped forever only under `stopper.reason is None` (nobody asked it to stop)', ok,
               loc=rf.loc(an.stmt), construct=construct(rf, 'guard:forever_stopped.add under reason-is-None'))
        ctx.ob('R9.3', '_runner: the id marked as stopped forever is the id of the handler that has just exited', arg_ok, loc=rf.loc(an.stmt),
               construct=construct(rf, 'config:forever_stopped.add(handler.id)'))
    if rdels and add_nodes:
        esc = rg.escaping_exits([rg.entry], [n for n in rg.nodes if n.kind == 'if' and cond_implies(n.stmt.test, True, on_its_own, rf)])
        ctx.ob('R9.3', '_runner: the exited-on-its-own test is evaluated on every exit', not esc, loc=rf.loc(),
               construct=construct(rf, 'allexits:reason-is-None test'))
    # consumers: every selection of spawning handlers excludes the forever-stopped ones
    consumers = []
    for fn in repo.all_functions():
        for c in calls_in(fn.node):
            if isinstance(c.func, ast.Attribute) and c.func.attr in ('get_handlers', 'iter_handlers', 'requires_finalizer') \
                    and _attr_type(repo, fn, c.func.value) == 'kopf._core.intents.registries.SpawningRegistry':
                consumers.append((fn, c))
    ctx.require_sites('R9.3', 'selections of spawning handlers (get_handlers / requires_finalizer)', len(consumers), 2)
    for fn, c in consumers:
        ex = kwarg(c, 'excluded')
        ok = ex is not None and _memory_field(repo, fn, ex, 'forever_stopped')
        ctx.ob('R9.3', f'{fn.short}: {c.func.attr}() of the spawning registry receives excluded=<memory>.forever_stopped', ok,
               loc=fn.loc(c), construct=f'{fn.qualname}:config:{c.func.attr}(excluded=forever_stopped)', detail=f'excluded={norm(ex)}')
    for meth in ('iter_handlers', 'requires_finalizer'):
        mf, mg = cfg_of(ctx, f'registries.SpawningRegistry.{meth}')
        outs = mg.stmt_nodes(lambda x: isinstance(x, ast.Yield)) if meth == 'iter_handlers' else \
            [n for n in mg.nodes if n.kind == 'return' and isinstance(n.stmt.value, ast.Constant) and n.stmt.value.value is True]
        ctx.require_sites('R9.3', f'SpawningRegistry.{meth}: selecting exit', len(outs), 1, mf.loc())

        def not_excluded(e: ast.AST, o: bool) -> bool:
            t = _in_test(e, o)
            return t is not None and t[2] is False and dotted(t[1]) == 'excluded' and isinstance(t[0], ast.Attribute) and t[0].attr == 'id'
        for on in outs:
            ok = any(cond_implies(t, o, not_excluded, mf) for t, o, _ in dominating_conditions(mg, on))
            ctx.ob('R9.3', f'SpawningRegistry.{meth}: a handler counts only under `handler.id not in excluded`', ok, loc=mf.loc(on.stmt),
                   construct=construct(mf, 'guard:not-in-excluded'))
    gh = repo.fn('registries.ResourceRegistry.get_handlers') if repo.has_fn('registries.ResourceRegistry.get_handlers') else None
    if gh is not None:
        ctx.analysed(gh)
        fwd = [c for c in calls_in(gh.node) if method_call(c, 'iter_handlers') is not None and dotted(kwarg(c, 'excluded') or ast.Constant(0)) == 'excluded']
        ctx.ob('R9.3', 'ResourceRegistry.get_handlers forwards excluded= to iter_handlers', bool(fwd), loc=gh.loc(),
               construct=construct(gh, 'config:forward-excluded'))


# ====================================================================== R9.4 staged termination
def _stop_effects(repo, f, delays_name: Optional[str]):
    """Effect labelling shared by both implementations.  The daemon under termination is the symbol `DMN`, the
    requested reason is the symbol `REASON` (bound by the caller through ``env``)."""
    def reason_name(v: absint.V) -> str:
        if v.key == 'REASON':
            return 'REASON'
        last = v.key.rsplit('.', 1)[-1]
        return last if 'DaemonStoppingReason' in v.key else f'?{v.key[:40]}'

    def eff(it, p, call, names):
        fn = call.func
        if isinstance(fn, ast.Attribute):
            recv = unver(it.ev(fn.value, p).key)
            if fn.attr == 'set' and recv == 'DMN.stopper':
                r = kwarg(call, 'reason', 0)
                return 'set:' + (reason_name(it.ev(r, p)) if r is not None else '?none')
            if fn.attr == 'cancel' and recv == 'DMN.task':
                return 'cancel'
            if fn.attr == 'append' and delays_name is not None and dotted(fn.value) == delays_name and call.args:
                k = it.ev(call.args[0], p).key
                kind = 'timeout' if 'cancellation_timeout' in k else 'backoff' if 'cancellation_backoff' in k else 'polling'
                return 'delay:' + kind
        if any(n.endswith('daemons._wait_for_instant_exit') for n in names):
            d = kwarg(call, 'daemon')
            return 'wait' if d is not None and unver(it.ev(d, p).key) == 'DMN' else 'wait:?'
        if any(n.endswith('aiotasks.wait') for n in names):
            who = unver(it.ev(call.args[0], p).key) if call.args else ''
            t = kwarg(call, 'timeout')
            tk = it.ev(t, p).key if t is not None else ''
            kind = 'timeout' if 'cancellation_timeout' in tk else 'backoff' if 'cancellation_backoff' in tk else 'other'
            return f'wait:{kind}' if who == '[DMN.task]' else 'wait:?'
        return None
    return eff


class StopInterp(absint.Interp):
    """Versioning by the cooperative-scheduling argument instead of the engine's "any non-pure call mutates its
    receiver": the state of *another* task (`task.done()`, `stopper.is_set(r)`) can change only across a suspension
    point (an awaited call) or through the two mutators observed here (`stopper.set`, `task.cancel`); log lines and
    other synchronous calls leave it alone.  (Local work-around: `Config.pure` is a list of callee names, so a log
    call through the untyped `daemon.logger` would otherwise split one `task.done()` atom into two.)"""

    def record_call(self, call, names, key, kw, p):   # type: ignore[override]
        label = self.cfg.effect(self, p, call, names) if self.cfg.effect is not None else None
        if label is not None:
            p.trace.append(absint.Eff(label, key, call, kw, p.loopdepth, self.f.qualname))
        awaited = isinstance(self.m.parent.get(call), ast.Await)
        if awaited or (label is not None and label.split(':')[0] in ('set', 'cancel')):
            for r in self.cfg.versioned:
                p.ver[r] = p.ver.get(r, 0) + 1


    # ---- `match` on a tuple of conditions (local work-around: the engine keeps sequence patterns as one opaque atom,
    # so an `elif` chain rewritten as `match (a, b is not None, ...)` would lose its branch atoms)
    def match(self, s, p):   # type: ignore[override]
        subj = s.subject
        if not (isinstance(subj, ast.Tuple) and not any(isinstance(e, ast.Starred) for e in subj.elts)
                and all(self._seq_pattern_ok(c.pattern, len(subj.elts)) for c in s.cases)):
            return super().match(s, p)
        out, pending = [], [p]
        for case in s.cases:
            nxt = []
            for q in pending:
                for r, hit in self._match_seq(subj, case.pattern, q):
                    if not hit:
                        nxt.append(r)
                    elif case.guard is None:
                        out.extend(self.run_block(case.body, [r]))
                    else:
                        for r2, gv in self.truth(case.guard, r):
                            if gv:
                                out.extend(self.run_block(case.body, [r2]))
                            else:
                                nxt.append(r2)
            pending = nxt
        return out + pending

    def _seq_pattern_ok(self, pat: ast.AST, n: int) -> bool:
        if isinstance(pat, ast.MatchAs) and pat.pattern is None and pat.name is None:
            return True
        return isinstance(pat, ast.MatchSequence) and len(pat.patterns) == n and all(
            (isinstance(x, ast.MatchAs) and x.pattern is None and x.name is None) or isinstance(x, (ast.MatchSingleton, ast.MatchValue))
            for x in pat.patterns)

    def _is_bool(self, e: ast.AST) -> bool:
        """Syntactically boolean, or an attribute/property declared `bool` (so that `case True` is its truth)."""
        if self._boolish(e):
            return True
        if isinstance(e, ast.Attribute):
            base = self.repo.type_of(self.f, e.value)
            if base:
                ci, ann = self.repo.find_field(base, e.attr)
                if ci is not None and ann is not None:
                    return dotted(ann) == 'bool'
                meth = self.repo.find_method(base, e.attr)
                if meth is not None and any(d.endswith('property') for d in meth.decorators):
                    return dotted(meth.node.returns) == 'bool'   # type: ignore[attr-defined]
        return False

    def _match_seq(self, subj: ast.Tuple, pat: ast.AST, p):
        if isinstance(pat, ast.MatchAs):
            return [(p, True)]
        results = [(p, True)]
        for elt, sub in zip(subj.elts, pat.patterns):   # type: ignore[attr-defined]
            nxt = []
            for q, hit in results:
                if not hit or isinstance(sub, ast.MatchAs):
                    nxt.append((q, hit))
                elif isinstance(sub, ast.MatchSingleton) and sub.value is None:
                    nxt.extend(self.truth(ast.Compare(elt, [ast.Is()], [ast.Constant(None)]), q))
                elif isinstance(sub, ast.MatchSingleton) and self._is_bool(elt):
                    nxt.extend((r, b is sub.value) for r, b in self.truth(elt, q))
                elif isinstance(sub, ast.MatchValue):
                    nxt.extend(self.truth(ast.Compare(elt, [ast.Eq()], [sub.value]), q))
                else:
                    nxt.extend(self.atom(f'match({self.ev(elt, q).key}, {src(sub, 60)})', q))
            results = nxt
        return results


def run_paths(repo, f, cfg: absint.Config, *, stmts=None, env=None, interp=absint.Interp) -> list:
    """`absint.analyse` with a choice of the interpreter class."""
    it = interp(repo, f, cfg)
    p0 = absint.Path()
    p0.fn = f.qualname
    for a in f.params():
        p0.env[a.arg] = absint.sym(a.arg)
    p0.env.update(env or {})
    return it.run_block(stmts if stmts is not None else absint._body(f), [p0])


def _is_daemon_expr(repo, fn, e: ast.AST) -> bool:
    """``e`` denotes a Daemon record: typed so, or the loop variable of an iteration over `<registry>.values()`."""
    e = origin(fn, e)
    if repo.type_of(fn, e) == DAEMON_CLS:
        return True
    if isinstance(e, ast.Name):
        for n in walk_no_defs(fn.node):
            if isinstance(n, (ast.For, ast.comprehension)) and isinstance(n.target, ast.Name) and n.target.id == e.id:
                for c in calls_in(n.iter):
                    r = method_call(c, 'values')
                    if r is not None and _is_registry(repo, fn, r):
                        return True
    return False


def _kind_reader(repo, f):
    def rd(p):
        d = absint.entails(repo, f, p, 'isinstance(DMN.handler, kopf._core.intents.handlers.DaemonHandler)')
        t = absint.entails(repo, f, p, 'isinstance(DMN.handler, kopf._core.intents.handlers.TimerHandler)')
        if d is True:
            return 'daemon'
        if t is True:
            return 'timer'
        if d is False and t is False:
            return 'other'
        return None
    return rd


def _done_reader(i: int):
    def rd(p):
        ks = [k for k in p.order if re.fullmatch(r'truthy\(DMN(#\d+)?\.task(#\d+)?\.done\(\)\)', k)]
        ks = list(dict.fromkeys(ks))
        return p.atoms[ks[i]] if i < len(ks) else None
    return rd


def _atom_reader(rx: str):
    return lambda p: p.atom(rx)


def _observe_stop(p: absint.Path):
    if p.status == 'raise':
        return ('raise',)
    return tuple(e.label for e in p.trace if e.label.split(':')[0] in ('set', 'cancel', 'wait', 'delay'))


def _stopper_roots(f, env_names: Iterable[str]) -> set:
    """Local names through which the daemon (its stopper, its task) is reached: versioned on mutation."""
    roots = set(env_names)
    for n in walk_no_defs(f.node):
        if isinstance(n, ast.Assign) and len(n.targets) == 1 and isinstance(n.targets[0], ast.Name):
            d = dotted(n.value)
            if d and d.split('.')[0] in roots:
                roots.add(n.targets[0].id)
    return roots


def check_staged_termination(ctx: Ctx) -> None:
    repo = ctx.repo
    is_age = lambda k: 'cancellation_' not in k                                # noqa: E731 - the age of the stop flag: whatever is compared with the limits
    only_b = lambda k: 'cancellation_backoff' in k and 'cancellation_timeout' not in k   # noqa: E731
    with_t = lambda k: 'cancellation_timeout' in k                             # noqa: E731

    # ---------------------------------------------------------------- stop_daemons: one daemon of the registry
    f, g = cfg_of(ctx, f'{D}.stop_daemons')
    reg_p = [a.arg for a in f.params() if _is_registry(repo, f, ast.Name(id=a.arg, ctx=ast.Load()))]
    reason_p = _param_of_type(repo, f, 'kopf._core.intents.stoppers.DaemonStoppingReason')
    loops = [n for n in walk_no_defs(f.node) if isinstance(n, ast.For) and isinstance(n.target, ast.Name)
             and any(method_call(c, 'values') is not None and dotted(method_call(c, 'values')) in reg_p for c in calls_in(n.iter))]
    if len(reg_p) != 1 or reason_p is None or len(loops) != 1:
        raise AnalysisError(f'{f.loc()}: stop_daemons: expected one registry parameter, one reason parameter and one loop over the registry')
    loop = loops[0]
    rets = [n.value for n in walk_no_defs(f.node) if isinstance(n, ast.Return) and isinstance(n.value, ast.Name)]
    delays_name = rets[0].id if rets else None
    roots = _stopper_roots(f, [loop.target.id])
    cfg = absint.Config(effect=_stop_effects(repo, f, delays_name), versioned=roots, record_writes=False)
    paths = run_paths(repo, f, cfg, stmts=loop.body, env={loop.target.id: absint.sym('DMN'), reason_p: absint.sym('REASON')}, interp=StopInterp)
    readers = {
        'KIND': _kind_reader(repo, f),
        'R': _atom_reader(r'truthy\(DMN\.stopper(#\d+)?\.is_set\(reason=REASON\)\)'),
        'Z0': _done_reader(0), 'Z1': _done_reader(1),
        'BN': _atom_reader(r'isnone\(DMN\.handler\.cancellation_backoff\)'),
        'TN': _atom_reader(r'isnone\(DMN\.handler\.cancellation_timeout\)'),
        'AB': lambda p: oriented_cmp(p, is_age, only_b),
        'AT': lambda p: oriented_cmp(p, is_age, with_t),
        **{f'S_{s}': _atom_reader(rf'truthy\(DMN\.stopper(#\d+)?\.is_set\(reason=.*DaemonStoppingReason\.{s}\)\)') for s in STAGES},
    }
    domains = {'KIND': ['daemon', 'timer', 'other'], 'AB': ['<', '=', '>'], 'AT': ['<', '=', '>'],
               **{k: [True, False] for k in ('R', 'Z0', 'Z1', 'BN', 'TN', 'S_DAEMON_SIGNALLED', 'S_DAEMON_CANCELLED', 'S_DAEMON_ABANDONED')}}

    def spec(v):
        k = v['KIND']
        if k == 'other':
            return ('raise',)
        out = []
        if not v['R']:
            out += ['set:REASON', 'wait']          # the flag first, whatever else happens
        if v['Z0']:
            return tuple(out)
        b = k == 'daemon' and not v['BN']
        t = k == 'daemon' and not v['TN']
        if b and v['AB'] == '<':
            if not v['S_DAEMON_SIGNALLED']:
                out += ['set:DAEMON_SIGNALLED', 'wait']
                if not v['Z1']:
                    out.append('delay:backoff')
            else:
                out.append('delay:backoff')
        elif t and v['AT'] == '<':
            if not v['S_DAEMON_CANCELLED']:
                out += ['set:DAEMON_CANCELLED', 'cancel', 'wait']
                if not v['Z1']:
                    out.append('delay:timeout')
            else:
                out.append('delay:timeout')
        elif t:
            if not v['S_DAEMON_ABANDONED']:
                out.append('set:DAEMON_ABANDONED')
        else:
            out.append('delay:polling')
        return tuple(out)
    lazy_table(ctx, 'R9.4', f, paths, readers, domains, spec, _observe_stop, min_rows=8,
               what='stop_daemons, one daemon (A.9): flag first; done => nothing; SIGNALLED while age < backoff; CANCELLED + task.cancel() '
                    'while age < timeout + backoff; ABANDONED afterwards; timers (no backoff/timeout) are only polled')
    # every daemon of the registry is visited (no early exit from the loop), and the delays are returned
    inside = loop_nodes(g, loop)
    early = [n for n in inside if n.kind in ('break', 'return', 'continue')]
    ctx.ob('R9.4', 'stop_daemons: the staged decision is taken for every daemon of the registry (no break/return/continue in the loop)',
           not early, loc=f.loc(loop), construct=construct(f, 'flow:all-daemons-visited'), detail='; '.join(f'L{n.lineno} {n.kind}' for n in early[:3]))

    # ---------------------------------------------------------------- stop_daemon: the linear in-memory sibling
    f2, g2 = cfg_of(ctx, f'{D}.stop_daemon')
    dmn_p = _param_of_type(repo, f2, DAEMON_CLS)
    reason2 = _param_of_type(repo, f2, 'kopf._core.intents.stoppers.DaemonStoppingReason')
    if dmn_p is None or reason2 is None:
        raise AnalysisError(f'{f2.loc()}: stop_daemon: expected one Daemon parameter and one reason parameter')
    cfg2 = absint.Config(effect=_stop_effects(repo, f2, None), versioned=_stopper_roots(f2, [dmn_p]), record_writes=False)
    paths2 = run_paths(repo, f2, cfg2, env={dmn_p: absint.sym('DMN'), reason2: absint.sym('REASON')}, interp=StopInterp)
    readers2 = {'KIND': _kind_reader(repo, f2), 'BN': readers['BN'], 'TN': readers['TN'], 'Z0': _done_reader(0), 'Z1': _done_reader(1), 'Z2': _done_reader(2)}
    domains2 = {'KIND': ['daemon', 'timer', 'other'], **{k: [True, False] for k in ('BN', 'TN', 'Z0', 'Z1', 'Z2')}}

    def spec2(v):
        k = v['KIND']
        if k == 'other':
            return ('raise',)
        out = ['set:REASON', 'wait']
        i = 0
        z = v['Z0']
        if not z and k == 'daemon' and not v['BN']:
            out += ['set:DAEMON_SIGNALLED', 'wait:backoff']
            i += 1
            z = v[f'Z{i}']
        if not z and k == 'daemon' and not v['TN']:
            out += ['set:DAEMON_CANCELLED', 'cancel', 'wait:timeout']
            i += 1
            z = v[f'Z{i}']
        if not z:
            out.append('set:DAEMON_ABANDONED')
        return tuple(out)
    lazy_table(ctx, 'R9.4', f2, paths2, readers2, domains2, spec2, _observe_stop, min_rows=6,
               what='stop_daemon (A.9, linear sibling): flag, instant-exit wait, SIGNALLED + wait <= backoff, CANCELLED + task.cancel() + '
                    'wait <= timeout, ABANDONED if still running -- same stage order as stop_daemons')

    # ---------------------------------------------------------------- ORDER + CONFINE on task.cancel()
    cancels = []
    for fn in repo.all_functions():
        for c in calls_in(fn.node):
            r = method_call(c, 'cancel')
            if r is not None and isinstance(r, ast.Attribute) and r.attr == 'task' and _is_daemon_expr(repo, fn, r.value):
                cancels.append((fn, c))
    ctx.require_sites('R9.4', 'daemon.task.cancel() sites', len(cancels), 2)
    ctx.ob('R9.4', f'a daemon task is cancelled only by the two staged implementations ({len(cancels)} sites)',
           all(fn in (f, f2) for fn, _ in cancels), loc=f.loc(), construct=f'{D}:confine:daemon.task.cancel',
           detail=', '.join(f'{fn.short}:L{c.lineno}' for fn, c in cancels))
    for fn, gg in ((f, g), (f2, g2)):
        cn = gg.stmt_nodes(lambda x: any(x is c for ff, c in cancels if ff is fn))

        def is_cancel_flag(x: ast.AST) -> bool:
            if isinstance(x, ast.Call) and method_call(x, 'set') is not None:
                r = kwarg(x, 'reason', 0)
                return r is not None and (repo.resolve(fn.module, r) or '').endswith('DaemonStoppingReason.DAEMON_CANCELLED')
            return False
        flags = gg.stmt_nodes(is_cancel_flag)
        und = gg.dominated(cn, flags)
        ctx.ob('R9.4', f'{fn.name}: task.cancel() is dominated by stopper.set(DAEMON_CANCELLED) -- the stop flag precedes the cancellation',
               bool(cn) and not und, loc=fn.loc(cn[0].stmt) if cn else fn.loc(), construct=construct(fn, 'order:flag<cancel'))


# ====================================================================== R9.5 pause after spawn; killer's finally
def _forwarded_param(fn, call: ast.Call, kw: str) -> bool:
    v = kwarg(call, kw)
    return isinstance(v, ast.Name) and any(a.arg == v.id for a in fn.params())


def check_pausing_and_killer(ctx: Ctx) -> None:
    repo = ctx.repo
    f, g = cfg_of(ctx, f'{P}.process_spawning_cause')
    spawn = g.call_nodes(f'{D}.spawn_daemons')
    pause = g.call_nodes(f'{D}.pause_daemons')
    ctx.require_sites('R9.5', 'process_spawning_cause: spawn_daemons call', len(spawn), 1, f.loc())
    ctx.require_sites('R9.5', 'process_spawning_cause: pause_daemons call', len(pause), 1, f.loc())
    if spawn and pause:
        back = [n for n in spawn if n in g.reach(pause)]
        ctx.ob('R9.5', 'process_spawning_cause: pause_daemons is strictly after spawn_daemons (no path from the pause check back to a spawn)',
               not back, loc=f.loc(pause[0].stmt), construct=construct(f, 'order:spawn<pause'))
        esc = g.escaping_exits(spawn, pause, classes=('normal',))
        ctx.ob('R9.5', 'process_spawning_cause: every normal exit after spawn_daemons passes pause_daemons (late-spawned daemons are stopped while paused)',
               not esc, loc=f.loc(spawn[0].stmt), construct=construct(f, 'allexits:spawn->pause'),
               detail='; '.join(witness(g, spawn, e, pause) for e in esc[:2]))
        sc = [c for n in spawn for c in calls_in(n.stmt) if is_call_to(repo, f, c, f'{D}.spawn_daemons')]
        pc = [c for n in pause for c in calls_in(n.stmt) if is_call_to(repo, f, c, f'{D}.pause_daemons')]
        regs = {src(kwarg(c, 'daemons')) for c in sc + pc}
        ok = len(regs) == 1 and all(kwarg(c, 'daemons') is not None and _is_registry(repo, f, kwarg(c, 'daemons')) for c in sc + pc)
        ctx.ob('R9.5', 'process_spawning_cause: spawn_daemons and pause_daemons work on the same registry of the object', ok, loc=f.loc(pc[0]),
               construct=construct(f, 'config:same-registry'), detail=', '.join(sorted(regs)))
        ctx.ob('R9.5', 'process_spawning_cause: the operator-paused toggle is forwarded to pause_daemons',
               all(_forwarded_param(f, c, 'operator_paused') for c in pc), loc=f.loc(pc[0]), construct=construct(f, 'config:forward-operator_paused'))
    for caller, callee in ((f'{P}.process_resource_causes', f'{P}.process_spawning_cause'), (f'{P}.process_resource_event', f'{P}.process_resource_causes')):
        cf = repo.fn(caller)
        ctx.analysed(cf)
        cs = [c for c in calls_in(cf.node) if is_call_to(repo, cf, c, callee)]
        ctx.require_sites('R9.5', f'{cf.name}: call of {callee.rsplit(".", 1)[-1]}', len(cs), 1, cf.loc())
        ctx.ob('R9.5', f'{cf.name}: the operator-paused toggle is forwarded to {callee.rsplit(".", 1)[-1]}',
               bool(cs) and all(_forwarded_param(cf, c, 'operator_paused') for c in cs), loc=cf.loc(cs[0]) if cs else cf.loc(),
               construct=construct(cf, 'config:forward-operator_paused'))

    # pause_daemons: stop everything of this registry iff the operator is paused
    pf = repo.fn(f'{D}.pause_daemons')
    ctx.analysed(pf)
    reg_p = [a.arg for a in pf.params() if _is_registry(repo, pf, ast.Name(id=a.arg, ctx=ast.Load()))]
    tog_p = _param_of_type(repo, pf, 'kopf._cogs.aiokits.aiotoggles.ToggleSet')
    if len(reg_p) != 1 or tog_p is None:
        raise AnalysisError(f'{pf.loc()}: pause_daemons: expected one registry and one toggle-set parameter')

    def eff(it, p, call, names):
        if any(n.endswith('daemons.stop_daemons') for n in names):
            r, d = kwarg(call, 'reason'), kwarg(call, 'daemons')
            return f'stop:{it.ev(d, p).key if d is not None else "?"}:{(it.ev(r, p).key if r is not None else "default").rsplit(".", 1)[-1]}'
        return None
    paths = absint.analyse(repo, pf, absint.Config(effect=eff, record_writes=False),
                           env={reg_p[0]: absint.sym('REGISTRY'), tog_p: absint.sym('PAUSED')})
    table_check(ctx, 'R9.5', pf, paths, {'N': r'isnone\(PAUSED\)', 'ON': r'truthy\(PAUSED\.is_on\(\)\)'},
                lambda v: ('stop:REGISTRY:OPERATOR_PAUSING',) if (not v['N'] and v['ON']) else (),
                lambda p: tuple(p.labels('stop')) if p.status == 'return' else ('status', p.status),
                what='pause_daemons: all daemons of the registry are asked to stop (reason OPERATOR_PAUSING) iff the operator is paused')

    # daemon_killer: the `finally` stops every daemon of every memory, waits for the stoppers, then closes its scheduler
    kf, kg = cfg_of(ctx, f'{D}.daemon_killer')
    waits = kg.call_nodes('aiotasks.Scheduler.wait')
    closes = kg.call_nodes('aiotasks.Scheduler.close')
    ctx.require_sites('R9.5', 'daemon_killer: scheduler.wait()', len(waits), 1, kf.loc())
    ctx.require_sites('R9.5', 'daemon_killer: scheduler.close()', len(closes), 1, kf.loc())
    tries = [n for n in walk_no_defs(kf.node) if isinstance(n, ast.Try) and n.finalbody
             and any(is_call_to(repo, kf, c, 'aiotasks.Scheduler.close') for st in n.finalbody for c in calls_in(st))]
    ctx.ob('R9.5', 'daemon_killer: the scheduler of the stoppers is closed in the `finally` of the killing loop', len(tries) == 1, loc=kf.loc(),
           construct=construct(kf, 'sites:try-finally-close'), detail=f'found {len(tries)} try/finally statements closing the scheduler')
    where = kf.loc(tries[0]) if tries else kf.loc()
    starts = [n for n in kg.nodes if n.suspends and not n.in_finally]
    for what, through in (('waits for the stoppers', waits), ('closes its scheduler', closes)):
        esc = kg.escaping_exits(starts, through, edge_ok=_no_exc_from_finally)
        ctx.ob('R9.5', f'daemon_killer: every exit (cancellation, exception) {what} (a second cancellation inside the finally is not modelled)',
               not esc and bool(starts), loc=where, construct=construct(kf, f'allexits:{what.split()[0]}'),
               detail='; '.join(f'{e.label} via {witness(kg, starts, e, through, edge_ok=_no_exc_from_finally)}' for e in esc[:2]))
    und = kg.dominated(closes, waits)
    ctx.ob('R9.5', 'daemon_killer: closing the scheduler (cancels the stoppers) is dominated by waiting for them', not und, loc=where,
           construct=construct(kf, 'order:wait<close'))

    if len(tries) != 1:
        return

    def keff(it, p, call, names):
        if any(n.endswith('daemons.stop_daemon') for n in names):
            d, r = kwarg(call, 'daemon'), kwarg(call, 'reason')
            return f'stop:{it.ev(d, p).key if d is not None else "?"}:{(it.ev(r, p).key if r is not None else "?").rsplit(".", 1)[-1]}'
        if any(n.endswith('Scheduler.spawn') for n in names):
            return 'spawn' if isinstance(kf.module.parent.get(call), ast.Await) else 'spawn-not-awaited'
        if any(n.endswith('Scheduler.wait') for n in names):
            return 'wait'
        if any(n.endswith('Scheduler.close') for n in names):
            return 'close'
        return None
    kpaths = absint.analyse(repo, kf, absint.Config(effect=keff, record_writes=False), stmts=tries[0].finalbody)
    item = r'item\(item\([^()]+\.iter_all_daemon_memories\(\)\)\.running_daemons\.values\(\)\)'   # every daemon of every memory
    bad, full = [], 0
    for p in kpaths:
        labs = [e.label for e in p.trace]
        ne = [v for k, v in p.atoms.items() if k.startswith('nonempty(')]
        other = [k for k in p.atoms if not k.startswith('nonempty(')]
        want_stop = len(ne) == 2 and all(ne)
        stops = [x for x in labs if x.startswith('stop:')]
        ok = labs[-2:] == ['wait', 'close'] and p.status == 'run' and not other and 'spawn-not-awaited' not in labs
        if want_stop:
            full += 1
            ok = ok and len(stops) == 1 and re.fullmatch(rf'stop:{item}:OPERATOR_EXITING', stops[0]) is not None \
                and labs.index(stops[0]) < labs.index('spawn') < labs.index('wait')
        if not ok:
            bad.append(p)
    ctx.count('paths', len(kpaths))
    ctx.ob('R9.5', f'daemon_killer: the finally ({len(kpaths)} paths) schedules stop_daemon(reason=OPERATOR_EXITING) for every daemon of every '
           'memory unconditionally, then waits, then closes', not bad and full >= 1, loc=kf.loc(tries[0]), construct=construct(kf, 'table:finally'),
           detail='; '.join(p.describe()[:200] for p in bad[:2]))


# ====================================================================== R9.6 LOOPSTOP
def stopper_sleeps(repo, fn) -> list[tuple[ast.Call, str]]:
    """(call, origin source of the flag setter) for every `aiotime.sleep(..., wakeup=<S>.async_event)` in ``fn``."""
    out = []
    for c in calls_in(fn.node):
        if isinstance(c.func, (ast.Attribute, ast.Name)) and (getattr(c.func, 'attr', None) or getattr(c.func, 'id', None)) == 'sleep' \
                and is_call_to(repo, fn, c, 'aiotime.sleep'):
            w = kwarg(c, 'wakeup', 1)
            if isinstance(w, ast.Attribute) and w.attr == 'async_event':
                out.append((c, origin_src(fn, w.value)))
    return out


def check_loopstop(ctx: Ctx) -> None:
    repo = ctx.repo
    n_sleeps = 0
    loops_seen: set = set()
    for fn in repo.all_functions():
        sl = stopper_sleeps(repo, fn)
        if not sl:
            continue
        fn, g = cfg_of(ctx, fn)
        for call, setter in sl:
            n_sleeps += 1

            def unset(e: ast.AST, o: bool, _s=setter) -> bool:
                return o is False and _is_set_call(fn, e) == _s
            asserting = {b for b in g.nodes if b.kind == 'branch' and b.cond is not None and cond_implies(b.cond[0], b.cond[1], unset, fn)}
            for n in g.stmt_nodes(lambda x: x is call):
                loops = [fr.stmt for fr in n.frames if fr.kind == 'loop']
                if not loops:
                    continue
                loops_seen.update(id(x) for x in loops)
                cyc = n in g.reach([n], stop=lambda m: m in asserting)
                inner = loops[-1]
                ctx.ob('R9.6', f'{fn.name}: every cycle through the interruptible sleep `sleep({norm(call.args[0] if call.args else None, 40)}, wakeup=<stopper>)` '
                       f'passes a test requiring `{setter}` to be unset (a set stopper makes the sleep return without suspending: the loop must not spin)',
                       not cyc, loc=fn.loc(call), construct=construct(fn, f'loopstop:{norm(call.args[0] if call.args else None, 60)}'),
                       detail='' if not cyc else f'the loop at L{inner.lineno} `{norm(inner.test if isinstance(inner, ast.While) else inner.iter, 70)}` '
                                                  f'can iterate with the stopper set: {g.describe_path(g.path([n], lambda m: m is n, stop=lambda m: m in asserting))[:300]}')
    ctx.count('stopper_sleeps', n_sleeps)
    ctx.count('stopper_sleep_loops', len(loops_seen))
    ctx.require_sites('R9.6', 'interruptible sleeps on a stopper event (Appendix B: 8)', n_sleeps, 8)
    ctx.require_sites('R9.6', 'loops around interruptible sleeps on a stopper event (Appendix B: 4)', len(loops_seen), 4)


# ====================================================================== R9.7 DELETED => daemons asked to stop
def _bound_values(fn, name: str) -> list[ast.AST]:
    """Every expression a local name is bound to by an assignment (tuple assignments are matched element-wise)."""
    out: list[ast.AST] = []
    for n in walk_no_defs(fn.node):
        if isinstance(n, ast.Assign):
            for t in n.targets:
                if isinstance(t, ast.Name) and t.id == name:
                    out.append(n.value)
                elif isinstance(t, (ast.Tuple, ast.List)) and isinstance(n.value, (ast.Tuple, ast.List)) and len(t.elts) == len(n.value.elts):
                    out.extend(v for tt, v in zip(t.elts, n.value.elts) if isinstance(tt, ast.Name) and tt.id == name)
    return out


def check_deleted_event(ctx: Ctx) -> None:
    repo = ctx.repo
    # (a) TABLE: marked for deletion => stop_daemons(registry) with the RESOURCE_DELETED reason, nothing spawned
    f = repo.fn(f'{P}.process_spawning_cause')
    cause_p = _param_of_type(repo, f, 'kopf._core.intents.causes.SpawningCause')
    if cause_p is None:
        raise AnalysisError(f'{f.loc()}: process_spawning_cause has no SpawningCause parameter')
    sd = repo.fn(f'{D}.stop_daemons')
    defaults = absint._defaults(sd)
    default_reason = (repo.resolve(sd.module, defaults['reason']) or '').rsplit('.', 1)[-1] if 'reason' in defaults else '?'

    def eff(it, p, call, names):
        for n in names:
            if n.startswith(D + '.') and n.rsplit('.', 1)[-1] in ('stop_daemons', 'spawn_daemons', 'match_daemons', 'pause_daemons', 'stop_daemon'):
                d = kwarg(call, 'daemons')
                reg = d is not None and _is_registry(repo, it.f, d)
                lab = n.rsplit('.', 1)[-1].replace('_daemons', '')
                if lab == 'stop':
                    r = kwarg(call, 'reason')
                    lab += ':' + ((it.ev(r, p).key.rsplit('.', 1)[-1]) if r is not None else default_reason)
                return lab if reg else lab + ':not-the-registry'
        return None
    cfg = absint.Config(effect=eff, record_writes=False)
    paths = absint.analyse(repo, f, cfg, env={cause_p: absint.sym('CAUSE')})
    table_check(ctx, 'R9.7', f, paths, {'M': r'truthy\(.*finalizers\.is_deletion_ongoing\((body=)?CAUSE\.body\)\)'},
                lambda v: ('stop:RESOURCE_DELETED',) if v['M'] else ('spawn', 'match', 'pause'),
                lambda p: tuple(e.label for e in p.trace if e.label.split(':')[0] in ('stop', 'spawn', 'match', 'pause')) if p.status == 'return' else ('status', p.status),
                what='process_spawning_cause: an object marked for deletion has all its daemons asked to stop (RESOURCE_DELETED) and nothing spawned; '
                     'otherwise spawn, re-match, pause-check')

    # (c) the per-object record (with its registry) is dropped at exactly one place, and only for a DELETED event
    ef, eg = cfg_of(ctx, f'{P}.process_resource_event')
    forgets = sites_of(repo, 'inventory.ResourceMemories.forget')
    ctx.require_sites('R9.7', 'callers of memories.forget', len(forgets), 1)
    ctx.ob('R9.7', f'the per-object memory (owner record of the daemon registry) is forgotten only in process_resource_event ({len(forgets)} site)',
           bool(forgets) and all(fn is ef for fn, _ in forgets), loc=ef.loc(), construct=f'{P}:confine:memories.forget',
           detail=', '.join(f'{fn.short}:L{c.lineno}' for fn, c in forgets))
    fnodes = eg.stmt_nodes(lambda x: any(x is c for fn, c in forgets if fn is ef))

    def is_deleted_event(e: ast.AST, o: bool) -> bool:
        if not (isinstance(e, ast.Compare) and len(e.ops) == 1 and isinstance(e.ops[0], ast.Eq) and o is True):
            return False
        sides = [e.left, e.comparators[0]]
        consts = [x for x in sides if isinstance(x, ast.Constant) and x.value == 'DELETED']
        others = [x for x in sides if not isinstance(x, ast.Constant)]
        if len(consts) != 1 or len(others) != 1:
            return False
        cands = _bound_values(ef, others[0].id) if isinstance(others[0], ast.Name) else [others[0]]
        return bool(cands) and all(isinstance(c, ast.Subscript) and isinstance(c.slice, ast.Constant) and c.slice.value == 'type' for c in cands)
    for fnode in fnodes:
        ok = any(cond_implies(t, o, is_deleted_event, ef) for t, o, _ in dominating_conditions(eg, fnode))
        ctx.ob('R9.7', "process_resource_event: the memory is forgotten only under `<event type> == 'DELETED'` (never for a live object with running daemons)",
               ok, loc=ef.loc(fnode.stmt), construct=construct(ef, 'guard:forget-under-DELETED'))

    # (b) PAIR on the owner record (D4): what is forgotten has been asked to stop -- either right there, before the
    # record is dropped, or by the cause processing of that very DELETED event (interprocedural table, depth 2)
    def registry_stop(x: ast.AST) -> bool:
        if is_call_to(repo, ef, x, f'{D}.stop_daemons'):
            d = kwarg(x, 'daemons')
            return d is not None and _is_registry(repo, ef, d)
        return False
    stops = eg.stmt_nodes(registry_stop)
    stopped_first = bool(fnodes) and bool(stops) and not eg.dominated(fnodes, stops)
    cf = repo.fn(f'{P}.process_resource_causes')
    ctx.analysed(cf)
    top = [st for st in cf.node.body if any(is_call_to(repo, cf, c, f'{P}.process_spawning_cause') for c in calls_in(st))]  # type: ignore[attr-defined]
    witness_txt = ''
    n_paths = 0
    decided = stopped_first
    if not stopped_first:
        if len(top) != 1:
            ctx.require_sites('R9.7', 'process_resource_causes: call of process_spawning_cause', len(top), 1, cf.loc())
        else:
            call = [c for c in calls_in(top[0]) if is_call_to(repo, cf, c, f'{P}.process_spawning_cause')][0]
            cause_arg = kwarg(call, 'cause')
            body = absint._body(cf)
            prefix = body[:body.index(top[0]) + 1]
            cfg2 = absint.Config(effect=eff, inline={f'{P}.process_spawning_cause'}, record_writes=False)
            ipaths = absint.analyse(repo, cf, cfg2, stmts=prefix)
            n_paths = len(ipaths)
            bad = []
            for p in ipaths:
                if p.status not in ('run', 'return'):
                    continue
                if p.atom(r"eq\([^()]*\['type'\], 'DELETED'\)") is False:
                    continue                         # not a DELETED event
                k = p.env.get(cause_arg.id).key if isinstance(cause_arg, ast.Name) and cause_arg.id in p.env else None
                if k is not None and absint.entails(repo, cf, p, f'isnone({k})') is True:
                    continue                         # no spawning handlers for this resource
                if not any(e.label.startswith('stop:') and 'not-the-registry' not in e.label for e in p.trace):
                    bad.append(p)
            decided = not bad
            if bad:
                w = bad[0]
                witness_txt = (f'{len(bad)} of {len(ipaths)} paths of a DELETED event with a spawning cause never reach stop_daemons, e.g. '
                               f'[{"; ".join(f"{k[-70:]}={v}" for k, v in w.atoms.items())}] => {[e.label for e in w.trace if not e.label.startswith("enter")]}; '
                               'and process_resource_event forgets the memory without stopping its running daemons')
    ctx.count('paths', n_paths)
    ctx.ob('R9.7', "a DELETED event always has the daemons of the object asked to stop: the record dropped by memories.forget has its running daemons "
           "stopped first, or stop_daemons(<registry>) is reached on every path process_resource_causes -> process_spawning_cause of that event "
           "whenever spawning handlers exist (also without a deletion mark: object removed before the finalizer landed / finalizer force-removed)",
           decided, loc=ef.loc(fnodes[0].stmt) if fnodes else ef.loc(), construct=construct(ef, 'pair:forget-without-stop_daemons'), detail=witness_txt)


def check(ctx: Ctx) -> None:
    check_spawn_and_runner(ctx)
    check_staged_termination(ctx)
    check_pausing_and_killer(ctx)
    check_loopstop(ctx)
    check_deleted_event(ctx)
    from . import _stoppers
    _stoppers.check_flag_setter(ctx, 'R9.8')
    _stoppers.check_runner_exit_order(ctx, 'R9.9')
    _stoppers.check_iteration_snapshots(ctx, 'R9.10')


SPEC = PropSpec(
    id='C09',
    title='Daemon/timer lifecycle: one instance, started on match, stopped in stages',
    technique='static analysis: statement CFG with cancellation/exception edges (GUARD, ATOMIC, ALLEXITS/PAIR, ORDER, LOOPSTOP as a cycle cut), '
              'who-may-write/call (CONFINE), keyword facts (CONFIG), path-enumerated decision tables of the two staged-termination '
              'implementations over an ordering domain (TABLE, SIBLING), interprocedural table for the DELETED event (TABLE depth 2 / PAIR)',
    level_text='Static analysis of the current source: decides, on all CFG paths / all atom valuations, the structural clauses R9.1-R9.7: a runner task is '
               'created only under `handler.id not in daemons` with no suspension point up to the registration (R9.1); the registry entry is released only '
               'by its owner _runner, on every exit, after the guarded coroutine ended, and nobody else inserts/deletes (R9.2); `forever_stopped` grows only '
               'under `stopper.reason is None`, never shrinks, and every selection of spawning handlers excludes it (R9.3); the decision tables of '
               'stop_daemons (per daemon) and stop_daemon equal Appendix A.9 -- flag first, SIGNALLED while age < backoff, CANCELLED + task.cancel() while '
               'age < timeout + backoff, ABANDONED afterwards, timers only polled -- and task.cancel() has exactly these two sites (R9.4); pause_daemons '
               'follows spawn_daemons on every normal path and the killer\'s finally stops every daemon, waits, then closes (R9.5); every cycle through an '
               'interruptible sleep on a stopper event passes a test requiring the stopper to be unset (R9.6); an object marked for deletion gets '
               'stop_daemons, the memory is forgotten only for DELETED events (R9.7). The R9.7 clause "a DELETED event without a deletion mark still '
               'stops the daemons" FAILS on the current tree: known finding D4.',
    level_note='asyncio is cooperative (interleaving only at suspension points; the state of another task changes only across an await); a second '
               'cancellation arriving inside a running `finally` is not modelled; aiotime.sleep on a set event returns without suspending; DESIGN.md §3',
    design_ref='DESIGN.md §4 C09, Appendix A.9, Appendix B',
    explanation='GUARD+ATOMIC on spawn_daemons; PAIR/ALLEXITS/ORDER on _runner plus CONFINE of every registry mutation in the package (registries are '
                'recognised by their declared value type Daemon); GUARD/CONFIG/CONFINE for forever_stopped and the excluded= arguments; TABLE over one '
                'iteration of stop_daemons (9 boolean + 2 three-valued ordering atoms, versioned across awaits) and over stop_daemon, ORDER/CONFINE for '
                'task.cancel(); ORDER/ALLEXITS on process_spawning_cause and daemon_killer, TABLE for pause_daemons and the killer\'s finally; LOOPSTOP as '
                '"no CFG cycle through a stopper sleep avoids every branch asserting the stopper unset" over every such sleep of the package; TABLE for the '
                'deletion mark, GUARD/CONFINE for memories.forget, interprocedural TABLE (process_resource_causes with process_spawning_cause inlined) for D4.',
    not_decided='"at most one instance at any time" over all timings (follows from R9.1/R9.2 only with the asyncio trusted base); the reaction of user '
                'daemons to the flag/cancellation; all timing (ages, backoffs) as numbers; match_daemons\' selection of mismatching daemons.',
    check=check,
)
