"""
D8 (C18, also C08): `Patch.as_json_patch` applies the merge-style instructions with
`dicts.ensure`, which descends into the existing value without checking that it is a mapping.
A handler that sets a nested field under a parent that currently is a scalar, a list or null
(RFC 7386: the parent is replaced) makes the admission request (or the JSON-patching cycle) fail
with TypeError instead of producing a patch.
Run: /venv/bin/python D08_merge_patch_type_change_raises.py
"""
import copy
from kopf._cogs.structs import patches, bodies
import jsonpatch

def rfc7386(t, p):
    if not isinstance(p, dict): return p
    t = dict(t) if isinstance(t, dict) else {}
    for k, v in p.items():
        if v is None: t.pop(k, None)
        else: t[k] = rfc7386(t.get(k), v)
    return t

for body, patch, title in [
    ({'spec': {'a': 'x'}}, {'spec': {'a': {'b': 1}}}, 'scalar -> mapping'),
    ({'spec': {'a': [1, 2]}}, {'spec': {'a': {'b': 1}}}, 'list -> mapping'),
    ({'spec': {'a': None}}, {'spec': {'a': {'b': 1}}}, 'null -> mapping'),
    ({'spec': {'a': {'b': 1}}}, {'spec': {'a': 'x'}}, 'mapping -> scalar (control)'),
]:
    p = patches.Patch(copy.deepcopy(patch), body=bodies.Body(copy.deepcopy(body)))
    want = rfc7386(body, patch)
    try:
        got = jsonpatch.apply_patch(copy.deepcopy(body), p.as_json_patch())
        print(f'{title:28s}', 'OK  ' if got == want else 'DIFF', got)
    except Exception as e:
        print(f'{title:28s} RAISES {type(e).__name__}: {e}   (RFC 7386 result would be {want})')
