#!/bin/sh
# Development aid (not a check): run the repository's unedited test suite in parallel, one pytest process per
# tests/ sub-directory (pytest-xdist cannot be used: collection is not deterministic), and compare with the
# stable baseline in /root/.vp/BASELINE.json.   usage: tools/fast_suite.sh [tree-under-test, default /repo]
tree="${1:-/repo}"
out="$(mktemp -d /tmp/kopf-suite-XXXXXX)"
here="$(cd "$(dirname "$0")" && pwd)"
cd "$tree" || exit 2
cat "$here/suite_parts.txt" | xargs -P 16 -I{} sh -c 'n=$(echo "{}" | tr "/" "_"); PYTHONPATH="'"$tree"'" /venv/bin/python -m pytest -q -p no:cacheprovider --timeout=900 --continue-on-collection-errors --junitxml="'"$out"'/$n.xml" "{}" >"'"$out"'/$n.log" 2>&1'
/venv/bin/python "$here/compare_with_baseline.py" "$out"
rm -rf "$out"
