#!/bin/sh
# Development aid: independently confirm a seeded change: demo passes on the unchanged tree, fails with the change,
# and the unedited suite still passes with the change.  usage: tools/confirm_seed.sh <dir with patch.diff, demo.py>
d="$(cd "$1" && pwd)"
wt="$(mktemp -d /tmp/confirm-XXXXXX)"; rmdir "$wt"
git -C /repo worktree add --detach "$wt" HEAD >/dev/null 2>&1 || exit 2
cp /repo/kopf/_cogs/helpers/versions.py "$wt/kopf/_cogs/helpers/versions.py" 2>/dev/null
cd "$wt" || exit 2
PYTHONPATH="$wt" timeout 300 /venv/bin/python "$d/demo.py" >/tmp/confirm-$$-a.log 2>&1; a=$?
git apply "$d/patch.diff" || { echo "PATCH-DOES-NOT-APPLY"; git -C /repo worktree remove --force "$wt"; exit 2; }
/venv/bin/python -m compileall -q kopf >/dev/null 2>&1; c=$?
PYTHONPATH="$wt" timeout 300 /venv/bin/python "$d/demo.py" >/tmp/confirm-$$-b.log 2>&1; b=$?
suite="$(/verif/tools/fast_suite.sh "$wt" 2>&1 | tr '\n' ' ')"
echo "seed=$(basename "$d") compiles=$c demo_unchanged_exit=$a demo_changed_exit=$b suite: $suite"
echo "  changed-tree demo says: $(tail -2 /tmp/confirm-$$-b.log | tr '\n' ' ' | cut -c1-300)"
rm -f /tmp/confirm-$$-a.log /tmp/confirm-$$-b.log
cd /; git -C /repo worktree remove --force "$wt"
