"""
D5 (C08): merge-patch requests are addressed by namespace/name only and carry no uid or
resourceVersion precondition. A patch computed for an object (uid=OLD) that is deleted and
re-created under the same name while a handler is still running is therefore applied by any
API server to the new object (uid=NEW). The JSON-patch requests are protected by their
`test /metadata/resourceVersion` op; the merge-patch requests are not.

Shown by capturing the requests `patch_obj` emits for a patch computed on uid=OLD.
Run: /venv/bin/python D05_merge_patch_without_identity.py
"""
import asyncio, logging
from kopf._cogs.clients import patching, api
from kopf._cogs.structs import bodies, patches, references
from kopf._cogs.configs import configuration

requests = []
async def fake_patch(*, url, headers, payload, settings, logger):
    requests.append((headers['Content-Type'], url, payload))
    # The server now holds a re-created namesake: a different uid and resourceVersion.
    return {'metadata': {'name': 'x', 'namespace': 'ns', 'uid': 'NEW', 'resourceVersion': '900'}}
api.patch = fake_patch

async def main():
    resource = references.Resource('g', 'v1', 'plural', namespaced=True, subresources=frozenset({'status'}))
    old_body = bodies.Body({'metadata': {'name': 'x', 'namespace': 'ns', 'uid': 'OLD', 'resourceVersion': '100'}})
    patch = patches.Patch({'metadata': {'annotations': {'kopf.zalando.org/fn': '{"success":true}'}},
                           'status': {'fn': {'result': 'computed for uid=OLD'}}}, body=old_body)
    await patching.patch_obj(settings=configuration.OperatorSettings(), resource=resource,
                             namespace='ns', name='x', patch=patch, logger=logging.getLogger())
    for ctype, url, payload in requests:
        meta = payload.get('metadata', {}) if isinstance(payload, dict) else {}
        bound = 'uid' in meta or 'resourceVersion' in meta
        print(f'{ctype:32s} {url:45s} identity precondition in request: {bound}')
        print('   payload:', payload)
asyncio.run(main())
