"""Extension rule set "progress": the helpers of the handler-progress machinery that the properties C02, C11, C03 and C14 lean on but that no
designed rule instance examined (DESIGN.md §8: "a defect in a helper that no rule instance names is not seen").

progression.State / HandlerState (loading, activating, re-purposing, merging outcomes, storing, delays, extras), the time base,
subhandling (implicit execution, double-execution guard, id prefixes), invocation (kwargs plumbing, context variables),
execute_handlers_once (outcome bookkeeping), and the touch operation of the progress storages.

Every rule is a necessary structural condition of the named property clause; none decides values.  Sites are selected by role
(resolved callee, constructed class, written subscript, loop over a given collection), never by position or text.

R2.20 / R14.21  State.from_storage: every owned id is looked up; a record is loaded iff `is not None`, under its id; one accumulator, one time base.
R2.21 / R14.22  State.with_handlers: known handler -> same record, active; unknown -> from_scratch(purpose, basetime of the state); as_active changes only `active`.
R2.22 / R11.20  HandlerState.from_scratch: active, unfinished, undelayed, zero attempts, started = now.
R2.23 / R14.20  State.with_purpose: every given handler re-purposed unconditionally, state purpose := the new one; HandlerState.with_purpose changes only `purpose`;
                State.__init__ and the mapping protocol keep/expose everything.
R2.24 / R11.21 / R3.24  State.with_outcomes: all records kept; own outcome merged under own id; others unchanged; time base kept.
R2.25 / R3.20   HandlerState.with_outcome carries active, basetime, purpose; subrefs accumulate (union).
R2.26 / R3.21   State.store: full record written under own id iff as_in_storage() != _origin; flush after the loop.
R2.27           State.extras: a record is superseded iff purpose is not None and != the state's purpose; keys = those purposes.
R2.28 / R11.25  HandlerState.from_storage: active=False; started = stored value, now only when absent.
R2.29           subhandling_context: fresh registry and flag False per invocation; implicit execute iff not executed, inside the context, awaited.
R2.30           subhandling.execute: default arm returns when already executed, else marks executed and uses the own sub-registry; ad-hoc ids prefixed by the parent id.
R2.31           invocation.context: every variable set and its token kept; reset on all exits (normal, exception, cancellation).
R2.32           invocation.invoke: both branches call the function once with the caller's kwargs merged in.
R2.33 / R11.26  execute_handlers_once: every executed handler's outcome recorded under its own id in the one returned mapping.
R2.34           plumbing: extra_context=subhandling_context at both cycles and handed down; invoke inside both contexts; subrefs_var = outer + own; started/runtime.
R2.35           SmartProgressStorage: the written storage precedes the read-only one; MultiProgressStorage.fetch: first found wins.
R11.22 / R3.22  State.delays: exactly the active unfinished records; max(0, delayed - now) or 0.
R11.23          State.without_successes drops exactly the successes.
R11.24          time base: _get_basetime = wall clock - loop time; every "now" = basetime + loop time; new states take _get_basetime().
R11.27          TemporaryError keeps `delay`; subclasses forward it.
R3.23           touch of the concrete progress storages: write iff the value differs, at the probed location, with the marker where the class has one.
"""
from __future__ import annotations

import ast
from typing import Callable, Optional

from .. import absint
from ..core import Ctx
from ..rules import SKIP as SKIP_
from ..rules import calls_in, cfg_of, construct, is_call_to, kwarg, method_call, norm, table_check
from ..srcmodel import AnalysisError, dotted, src, walk_no_defs
from .C02 import _ctor_calls, follow, is_now_key, param

EXE = 'kopf._core.actions.execution'
PRG = 'kopf._core.actions.progression'
INV = 'kopf._core.actions.invocation'
SUBH = 'kopf._core.reactor.subhandling'
PROGRESS = 'kopf._cogs.configs.progress'
REG = 'kopf._core.intents.registries'


# ====================================================================== helpers
def _loops(f, pred: Callable[[ast.AST], bool]) -> list:
    return [n for n in walk_no_defs(f.node) if isinstance(n, (ast.For, ast.AsyncFor)) and pred(n)]


def _bind_targets(target: ast.AST) -> tuple[dict, list[str]]:
    """Environment binding the loop variables to canonical symbols (§0, §1, ...), so that the verdict does not depend on their names."""
    env, names = {}, []
    elts = target.elts if isinstance(target, (ast.Tuple, ast.List)) else [target]
    for i, t in enumerate(elts):
        if isinstance(t, ast.Name):
            env[t.id] = absint.sym(f'§{i}')
            names.append(t.id)
    return env, names


def _iteration(repo, f, loop, cfg: Optional[absint.Config] = None) -> list:
    env, _ = _bind_targets(loop.target)
    return absint.analyse(repo, f, cfg or absint.Config(), stmts=loop.body, env=env)


def _ids_of(f, it: ast.AST, coll: str) -> Optional[str]:
    """How a loop over `it` visits the ids of every element of parameter `coll`: '§0' when it iterates `{x.id for x in coll}` (no filter),
    '§0.id' when it iterates `coll` itself; None otherwise."""
    it = follow(f, it)
    if isinstance(it, ast.Call) and dotted(it.func) in ('list', 'set', 'tuple', 'sorted', 'frozenset') and len(it.args) == 1 and not it.keywords:
        it = follow(f, it.args[0])
    if isinstance(it, ast.Name) and it.id == coll:
        return '§0.id'
    if isinstance(it, (ast.SetComp, ast.ListComp, ast.GeneratorExp)) and len(it.generators) == 1:
        g = it.generators[0]
        if isinstance(g.target, ast.Name) and dotted(g.iter) == coll and not g.ifs and dotted(it.elt) == f'{g.target.id}.id':
            return '§0'
    return None


def _over_states(f, it: ast.AST, meth: Optional[str]) -> bool:
    """`self._states.items()` / `.values()` / `self._states` / `self` (the mapping protocol of State iterates the recorded ids)."""
    it = follow(f, it)
    if meth is not None:
        return isinstance(it, ast.Call) and method_call(it, meth) is not None and dotted(method_call(it, meth)) in ('self._states', 'self') and not it.args
    return dotted(it) in ('self._states', 'self')


def _kw(e: absint.Eff, name: str, pos: Optional[int] = None) -> Optional[str]:
    v = e.kw.get(name)
    if v is None and pos is not None:
        v = e.kw.get(f'#{pos}')
    return v.key if v is not None else None


def _truth_rows(repo, f, cond: ast.AST, env: dict) -> list[tuple[dict, bool]]:
    """(atom valuation, verdict) for every way the condition can be evaluated."""
    it = absint.Interp(repo, f, absint.Config())
    p0 = absint.Path()
    for a in f.params():
        p0.env[a.arg] = absint.sym(a.arg)
    p0.env.update(env)
    return [(dict(q.atoms), b) for q, b in it.truth(cond, p0)]


def _formula_check(ctx: Ctx, rule: str, f, cond: Optional[ast.AST], env: dict, atoms: dict[str, str], spec: Callable[[dict], bool], *,
                   what: str, key: str, loc_node: Optional[ast.AST] = None) -> None:
    """The boolean structure of `cond` equals `spec` over the named atoms (regexes over atom keys); an atom the specification does not know
    makes the formula different from the specification."""
    import itertools
    import re
    repo = ctx.repo
    if cond is None:
        ctx.ob(rule, what, False, loc=f.loc(loc_node), construct=construct(f, key), detail='no condition at all')
        return
    bad, n = [], 0
    for at, verdict in _truth_rows(repo, f, cond, env):
        fixed, unknown = {}, []
        for k, v in at.items():
            names = [nm for nm, rx in atoms.items() if re.search(rx, k)]
            if len(names) == 1:
                fixed[names[0]] = v
            else:
                unknown.append(k)
        if unknown:
            bad.append(f'consults `{unknown[0][:70]}`')
            continue
        free = [nm for nm in atoms if nm not in fixed]
        for combo in itertools.product((True, False), repeat=len(free)):
            val = dict(fixed, **dict(zip(free, combo)))
            n += 1
            if bool(spec(val)) != verdict:
                bad.append(f'{" ".join(f"{k}={int(v)}" for k, v in sorted(val.items()))} gives {verdict}')
    ctx.count('valuations', n)
    ctx.ob(rule, what, not bad and n > 0, loc=f.loc(loc_node or cond), construct=construct(f, key), detail='; '.join(dict.fromkeys(bad))[:300])


def _single_comp(f, e: Optional[ast.AST]) -> Optional[ast.AST]:
    """The single-generator comprehension an expression is (through list()/set()/... and single-assignment locals)."""
    e = follow(f, e)
    while isinstance(e, ast.Call) and dotted(e.func) in ('list', 'set', 'tuple', 'dict', 'sorted', 'frozenset') and len(e.args) == 1 and not e.keywords:
        e = follow(f, e.args[0])
    if isinstance(e, (ast.ListComp, ast.SetComp, ast.GeneratorExp, ast.DictComp)) and len(e.generators) == 1:
        return e
    return None


def _filter_of(comp: ast.AST) -> Optional[ast.AST]:
    ifs = comp.generators[0].ifs
    if not ifs:
        return None
    return ifs[0] if len(ifs) == 1 else ast.BoolOp(ast.And(), list(ifs))


def _returned(f) -> list[ast.Return]:
    return [n for n in walk_no_defs(f.node) if isinstance(n, ast.Return)]


# ====================================================================== State.from_storage
def check_state_from_storage(ctx: Ctx, rule: str) -> None:
    """Every record stored for an owned handler is loaded -- whatever it says -- under the id it was fetched with."""
    repo = ctx.repo
    f = repo.fn(f'{PRG}.State.from_storage')
    ctx.analysed(f)
    body, storage, handlers = param(f, 'body'), param(f, 'storage'), param(f, 'handlers')
    loops = _loops(f, lambda lp: any(method_call(c, 'fetch') is not None and dotted(method_call(c, 'fetch')) == storage for c in calls_in(lp)))
    ctx.require_sites(rule, 'State.from_storage: loop fetching the stored records', len(loops), 1, f.loc())
    ctors = [c for c in _ctor_calls(repo, f) if any(c is r.value for r in _returned(f))]
    ctx.require_sites(rule, 'State.from_storage: the returned state', len(ctors), 1, f.loc())
    if not loops or not ctors:
        return
    loop = loops[0]
    idk = _ids_of(f, loop.iter, handlers)
    ctx.ob(rule, 'State.from_storage visits the id of EVERY given (owned) handler, unfiltered -- a record that is not looked up reads as "never started" '
           'and its handler is invoked again', idk is not None, loc=f.loc(loop), construct=construct(f, 'flow:range=ids of handlers'),
           detail=f'the loop iterates `{norm(follow(f, loop.iter), 80)}`')
    if idk is None:
        return
    acc = ctors[0].args[0] if ctors[0].args else None
    accname = acc.id if isinstance(acc, ast.Name) else None

    def eff(it, p, call, names):
        r = method_call(call, 'fetch')
        if r is not None and dotted(r) == storage:
            return 'fetch'
        if any(n.endswith('progression.HandlerState.from_storage') for n in names):
            return 'parse'
        return None
    paths = _iteration(repo, f, loop, absint.Config(effect=eff))

    def observe(p):
        fetches, parses = p.effects('fetch'), p.effects('parse')
        sets = [e for e in p.trace if e.label.startswith('setitem:')]
        if p.status not in ('run', 'continue') or len(fetches) != 1:
            return ('status', p.status, len(fetches))
        fe = fetches[0]
        if _kw(fe, 'key', 0) != idk or _kw(fe, 'body', 1) != body:
            return ('fetch-args', fe.key)
        if not sets:
            return ('skip',)
        if len(sets) != 1 or len(parses) != 1:
            return ('#writes', len(sets), len(parses))
        s, pa = sets[0], parses[0]
        if s.label != f'setitem:{accname}' or s.kw['index'].key != idk or s.kw['value'].key != pa.key:
            return ('write', s.label, s.key)
        if _kw(pa, '__d', 0) != fe.key:
            return ('parsed-something-else', pa.key)
        return ('load',)
    table_check(ctx, rule, f, paths, {'ABSENT': (r'^isnone\(' + storage + r'\.fetch\(', f'isnone({storage}.fetch(key={idk}, body={body}))')},
                lambda v: ('skip',) if v['ABSENT'] else ('load',), observe,
                what='State.from_storage, one handler id: the record fetched for this id from this body is loaded under this id iff the storage returned one '
                     '(`is not None`), whatever it contains -- finished, failed and delayed records alike')
    # the state returned is built from the accumulated records, with the time base the records were parsed with
    inits = [n for n in walk_no_defs(f.node) if isinstance(n, (ast.Assign, ast.AnnAssign)) and n.value is not None
             and any(isinstance(t, ast.Name) and t.id == accname for t in (n.targets if isinstance(n, ast.Assign) else [n.target]))]
    in_loop = [n for n in inits if any(n is x for s in loop.body for x in walk_no_defs(s))]
    ctx.ob(rule, 'State.from_storage returns the state made of all records loaded (one accumulator, initialised once, outside the loop)',
           accname is not None and len(inits) == 1 and not in_loop, loc=f.loc(ctors[0]), construct=construct(f, 'flow:returned=accumulated'),
           detail=f'returned `{norm(ctors[0], 70)}`; accumulator bound {len(inits)} time(s), {len(in_loop)} inside the loop')
    bt = kwarg(ctors[0], 'basetime')
    parse_calls = [c for c in calls_in(loop) if is_call_to(repo, f, c, f'{PRG}.HandlerState.from_storage')]
    same = bt is not None and bool(parse_calls) and all(kwarg(c, 'basetime') is not None and src(follow(f, kwarg(c, 'basetime'))) == src(follow(f, bt)) for c in parse_calls)
    ctx.ob(rule, 'State.from_storage: the handler records share the time base of the state ("now" is computed the same way for sleeping, runtime and delays)',
           same, loc=f.loc(ctors[0]), construct=construct(f, 'flow:one basetime'))


# ====================================================================== State.with_handlers / HandlerState.from_scratch / as_active
def _acc_of(repo, f) -> tuple[Optional[ast.Call], Optional[str], Optional[ast.AST]]:
    """(returned constructor call, name of the dict it is given, the expression that dict was initialised with)."""
    ctors = [c for c in _ctor_calls(repo, f) if any(c is r.value for r in _returned(f))]
    if len(ctors) != 1:
        return None, None, None
    a = ctors[0].args[0] if ctors[0].args else None
    if not isinstance(a, ast.Name):
        return ctors[0], None, None
    inits = [n.value for n in walk_no_defs(f.node) if isinstance(n, (ast.Assign, ast.AnnAssign)) and n.value is not None
             and any(isinstance(t, ast.Name) and t.id == a.id for t in (n.targets if isinstance(n, ast.Assign) else [n.target]))]
    return ctors[0], a.id, inits[0] if len(inits) == 1 else None


def _copies_all_states(e: Optional[ast.AST]) -> bool:
    """dict(self) / dict(self._states) / {**self._states} / self._states.copy(): every recorded state, passive ones included."""
    if isinstance(e, ast.Call) and dotted(e.func) == 'dict' and len(e.args) == 1 and not e.keywords:
        return dotted(e.args[0]) in ('self', 'self._states')
    if isinstance(e, ast.Call) and method_call(e, 'copy') is not None:
        return dotted(method_call(e, 'copy')) == 'self._states'
    if isinstance(e, ast.Dict) and len(e.keys) == 1 and e.keys[0] is None:
        return dotted(e.values[0]) in ('self', 'self._states')
    return False


def _derived_state_frame(ctx: Ctx, rule: str, f, *, purpose_from: str) -> tuple[Optional[str], list]:
    """Common frame of with_handlers/with_purpose: copy all states, loop over the given handlers, return cls(copy, basetime=self.basetime, purpose=...)."""
    repo = ctx.repo
    handlers = param(f, 'handlers')
    ctor, acc, init = _acc_of(repo, f)
    ctx.ob(rule, f'{f.short} starts from a copy of ALL recorded states (handlers not selected now keep their records: they are purged with the cycle, '
           'and count as "superseded" only while they really carry another purpose)', acc is not None and _copies_all_states(init), loc=f.loc(init or f.node),
           construct=construct(f, 'flow:copy of all states'), detail=f'initialised with `{norm(init, 60)}`')
    ok = ctor is not None and dotted(kwarg(ctor, 'basetime')) == 'self.basetime' and dotted(kwarg(ctor, 'purpose')) == purpose_from
    ctx.ob(rule, f'{f.short} returns a state over that copy with the same time base and purpose={purpose_from}', ok and acc is not None,
           loc=f.loc(ctor or f.node), construct=construct(f, 'flow:returned state'), detail=norm(ctor, 90))
    loops = _loops(f, lambda lp: dotted(lp.iter) == handlers)
    ctx.require_sites(rule, f'{f.short}: loop over the given handlers', len(loops), 1, f.loc())
    return acc, loops


def check_state_with_handlers(ctx: Ctx, rule: str) -> None:
    repo = ctx.repo
    f = repo.fn(f'{PRG}.State.with_handlers')
    ctx.analysed(f)
    acc, loops = _derived_state_frame(ctx, rule, f, purpose_from='self.purpose')
    if acc is None or not loops:
        return

    def eff(it, p, call, names):
        if any(n.endswith('progression.HandlerState.as_active') for n in names):
            return 'activate'
        if any(n.endswith('progression.HandlerState.from_scratch') for n in names):
            return 'fresh'
        return None
    paths = _iteration(repo, f, loops[0], absint.Config(effect=eff))

    def observe(p):
        sets = [e for e in p.trace if e.label.startswith('setitem:')]
        if p.status not in ('run', 'continue') or len(sets) != 1:
            return ('status', p.status, len(sets))
        s = sets[0]
        if s.label != f'setitem:{acc}' or s.kw['index'].key != '§0.id':
            return ('writes', s.label, s.kw['index'].key)
        act, fresh = p.effects('activate'), p.effects('fresh')
        if len(act) == 1 and not fresh and s.kw['value'].key == act[0].key and act[0].key == f'{acc}[§0.id].as_active()':
            return ('keep+activate',)
        if len(fresh) == 1 and not act and s.kw['value'].key == fresh[0].key and _kw(fresh[0], 'basetime') == 'self.basetime' \
                and _kw(fresh[0], 'purpose') == 'self.purpose':
            return ('fresh',)
        return ('value', s.kw['value'].key)
    table_check(ctx, rule, f, paths, {'KNOWN': r'^in\(§0\.id, ' + acc + r'\)$'}, lambda v: ('keep+activate',) if v['KNOWN'] else ('fresh',), observe,
                what='State.with_handlers, one selected handler: a handler that has a record keeps it and is only marked active (a finished handler stays '
                     'finished, attempts and delay are kept); a handler without a record starts from scratch with the purpose and time base of the state')
    a = repo.fn(f'{PRG}.HandlerState.as_active')
    ctx.analysed(a)
    reps = [c for c in calls_in(a.node) if (repo.resolve(a.module, c.func) or '') == 'dataclasses.replace' and any(c is r.value for r in _returned(a))]
    ok = len(reps) == 1 and len(reps[0].args) == 1 and dotted(reps[0].args[0]) == 'self' and [k.arg for k in reps[0].keywords] == ['active'] \
        and isinstance(reps[0].keywords[0].value, ast.Constant) and reps[0].keywords[0].value.value is True
    ctx.ob(rule, 'HandlerState.as_active is the same record with active=True and nothing else changed (the cycle is not closed before every selected '
           'handler has finished: State.done looks at the active records)', ok, loc=a.loc(), construct=construct(a, 'flow:replace(active=True) only'),
           detail=norm(reps[0], 80) if reps else 'no dataclasses.replace(self, ...) returned')


def check_handler_from_scratch(ctx: Ctx, rule: str) -> None:
    """A handler without a record starts unfinished, undelayed, with zero attempts, active, first start = now."""
    repo = ctx.repo
    f = repo.fn(f'{PRG}.HandlerState.from_scratch')
    ctx.analysed(f)
    ctors = [c for c in _ctor_calls(repo, f) if any(c is r.value for r in _returned(f))]
    ctx.require_sites(rule, 'HandlerState.from_scratch: the returned record', len(ctors), 1, f.loc())
    hs = repo.cls(f'{PRG}.HandlerState')
    blank = {'retries': 0, 'success': False, 'failure': False, 'delayed': None, 'stopped': None}
    for c in ctors:
        it = absint.Interp(repo, f, absint.Config())
        p0 = absint.Path()
        for a in f.params():
            p0.env[a.arg] = absint.sym(a.arg)
        starts = it.run_block([s for s in absint._body(f) if not any(c is x for x in ast.walk(s))], [p0])
        for fld, want in blank.items():
            v = kwarg(c, fld)
            d = hs.field_defaults.get(fld)
            e = v if v is not None else d
            ok = isinstance(e, ast.Constant) and e.value == want and type(e.value) is type(want)
            ctx.ob(rule, f'HandlerState.from_scratch: a fresh record has {fld}={want!r} (not finished, not delayed, no attempts counted)', ok, loc=f.loc(c),
                   construct=construct(f, f'config:{fld}'), detail=f'{fld} = {norm(e)}' + ('' if v is not None else ' (class default)'))
        act = kwarg(c, 'active')
        ctx.ob(rule, 'HandlerState.from_scratch: a fresh record is active (it takes part in State.done and State.delays of this cycle)',
               isinstance(act, ast.Constant) and act.value is True, loc=f.loc(c), construct=construct(f, 'config:active'), detail=norm(act))
        keys = {it.ev(kwarg(c, 'started'), q).key for q in starts} if kwarg(c, 'started') is not None else set()
        ctx.ob(rule, 'HandlerState.from_scratch: started = now = basetime + loop time (the timeout is counted from this moment)',
               len(keys) == 1 and all(is_now_key(k) and k.startswith('(basetime Add ') for k in keys), loc=f.loc(c), construct=construct(f, 'flow:started=now'),
               detail='; '.join(sorted(keys))[:120])
        ok = dotted(kwarg(c, 'basetime')) == 'basetime' and dotted(kwarg(c, 'purpose')) == 'purpose'
        ctx.ob(rule, 'HandlerState.from_scratch: the record carries the time base and the purpose it was given', ok, loc=f.loc(c),
               construct=construct(f, 'flow:basetime,purpose'))


# ====================================================================== State.with_purpose / HandlerState.with_purpose
def check_state_with_purpose(ctx: Ctx, rule: str) -> None:
    repo = ctx.repo
    f = repo.fn(f'{PRG}.State.with_purpose')
    ctx.analysed(f)
    purpose = param(f, 'purpose')
    acc, loops = _derived_state_frame(ctx, rule, f, purpose_from=purpose)
    if acc is None or not loops:
        return

    def eff(it, p, call, names):
        if any(n.endswith('progression.HandlerState.with_purpose') for n in names):
            return 'repurpose'
        return None
    paths = _iteration(repo, f, loops[0], absint.Config(effect=eff))

    def observe(p):
        sets = [e for e in p.trace if e.label.startswith('setitem:')]
        rp = p.effects('repurpose')
        if p.status not in ('run', 'continue') or len(sets) != 1 or len(rp) != 1:
            return ('status', p.status, len(sets), len(rp))
        s = sets[0]
        if s.label != f'setitem:{acc}' or s.kw['index'].key != '§0.id' or s.kw['value'].key != rp[0].key:
            return ('writes', s.label, s.key)
        if rp[0].key != f'{acc}[§0.id].with_purpose({purpose})' and rp[0].key != f'{acc}[§0.id].with_purpose(purpose={purpose})':
            return ('value', rp[0].key)
        return ('repurposed',)
    table_check(ctx, rule, f, paths, {}, lambda v: ('repurposed',), observe,
                what='State.with_purpose, one given handler: its own record is replaced by the same record with the new purpose, unconditionally '
                     '(finished ones too: a record left with the old purpose makes the whole state "superseded" and purged, and its handler runs again)')
    _check_state_init(ctx, rule)
    h = repo.fn(f'{PRG}.HandlerState.with_purpose')
    ctx.analysed(h)
    hp = param(h, 'purpose')
    reps = [c for c in calls_in(h.node) if (repo.resolve(h.module, c.func) or '') == 'dataclasses.replace' and any(c is r.value for r in _returned(h))]
    ok = len(reps) == 1 and len(reps[0].args) == 1 and dotted(reps[0].args[0]) == 'self' and [k.arg for k in reps[0].keywords] == ['purpose'] \
        and dotted(reps[0].keywords[0].value) == hp
    ctx.ob(rule, 'HandlerState.with_purpose is the same record with the given purpose and nothing else changed (success, attempts, delay survive '
           're-purposing)', ok, loc=h.loc(), construct=construct(h, 'flow:replace(purpose=) only'),
           detail=norm(reps[0], 80) if reps else 'no dataclasses.replace(self, ...) returned')


def _check_state_init(ctx: Ctx, rule: str) -> None:
    """State.__init__ keeps what it is given: the purpose, the time base, (a copy of) the records."""
    repo = ctx.repo
    f = repo.fn(f'{PRG}.State.__init__')
    ctx.analysed(f)
    pos = list(f.node.args.posonlyargs) + list(f.node.args.args)
    srcp = pos[1].arg if len(pos) > 1 else None
    writes = {}
    for n in walk_no_defs(f.node):
        if isinstance(n, ast.Assign) and len(n.targets) == 1 and isinstance(n.targets[0], ast.Attribute) and dotted(n.targets[0].value) == 'self':
            writes.setdefault(n.targets[0].attr, []).append(n.value)
    for fld in ('purpose', 'basetime'):
        vs = writes.get(fld, [])
        ctx.ob(rule, f'State.__init__ keeps the {fld} it is given (`self.{fld} = {fld}`, one unconditional assignment)', len(vs) == 1 and dotted(vs[0]) == param(f, fld)
               and not _enclosing(f, vs[0], (ast.If, ast.For, ast.While, ast.Try)), loc=f.loc(), construct=construct(f, f'config:self.{fld}'),
               detail='; '.join(norm(v) for v in vs))
    vs = writes.get('_states', [])
    ok = len(vs) == 1 and ((isinstance(vs[0], ast.Call) and dotted(vs[0].func) == 'dict' and len(vs[0].args) == 1 and dotted(vs[0].args[0]) == srcp)
                           or dotted(vs[0]) == srcp)
    ctx.ob(rule, 'State.__init__ keeps all the records it is given', ok, loc=f.loc(), construct=construct(f, 'config:self._states'), detail='; '.join(norm(v) for v in vs))
    # the mapping protocol (`dict(self)`, `for key in state`, `state[id]`, `id in state`) ranges over ALL records
    for meth, want in (('__iter__', 'iter(self._states)'), ('__getitem__', None), ('__len__', 'len(self._states)')):
        m = repo.fn(f'{PRG}.State.{meth}')
        ctx.analysed(m)
        rets = _returned(m)
        if meth == '__getitem__':
            item = [a.arg for a in m.params()][-1]
            ok = len(rets) == 1 and isinstance(rets[0].value, ast.Subscript) and dotted(rets[0].value.value) == 'self._states' and dotted(rets[0].value.slice) == item
        else:
            v = rets[0].value if len(rets) == 1 else None
            ok = isinstance(v, ast.Call) and dotted(v.func) == meth.strip('_') and len(v.args) == 1 and dotted(v.args[0]) == 'self._states' and not v.keywords
        ctx.ob(rule, f'State.{meth} exposes every recorded state, active or not (copies of the state, the sub-handler references and the merge of outcomes range over it)',
               ok, loc=m.loc(), construct=construct(m, 'flow:all records'), detail=norm(rets[0].value) if rets else '')


# ====================================================================== State.with_outcomes / HandlerState.with_outcome (carried fields)
def check_state_with_outcomes(ctx: Ctx, rule: str) -> None:
    repo = ctx.repo
    f = repo.fn(f'{PRG}.State.with_outcomes')
    ctx.analysed(f)
    outcomes = param(f, 'outcomes')
    ctors = [c for c in _ctor_calls(repo, f) if any(c is r.value for r in _returned(f))]
    ctx.require_sites(rule, 'State.with_outcomes: the returned state', len(ctors), 1, f.loc())
    for c in ctors:
        comp = _single_comp(f, c.args[0] if c.args else None)
        if not isinstance(comp, ast.DictComp):
            ctx.ob(rule, 'State.with_outcomes builds the new state as one mapping over the recorded states', False, loc=f.loc(c),
                   construct=construct(f, 'flow:range=all states'), detail=f'unsupported shape `{norm(c.args[0] if c.args else None, 80)}`')
            continue
        g = comp.generators[0]
        env, names = _bind_targets(g.target)
        ok = _over_states(f, g.iter, 'items') and len(names) == 2 and not g.ifs
        ctx.ob(rule, 'State.with_outcomes keeps EVERY recorded state, unfiltered (handlers without an outcome in this cycle stay in the state: '
               'State.done must still wait for them, their delays still count, the final purge still removes them)', ok, loc=f.loc(comp),
               construct=construct(f, 'flow:range=all states'), detail=f'over `{norm(g.iter, 50)}`' + (f' if {norm(_filter_of(comp), 60)}' if g.ifs else ''))
        if len(names) != 2:
            continue
        it = absint.Interp(repo, f, absint.Config())
        p0 = absint.Path()
        for a in f.params():
            p0.env[a.arg] = absint.sym(a.arg)
        p0.env.update(env)
        kkey = it.ev(comp.key, p0).key
        rows = [(q.atoms, v.key) for q, v in it.fork_value(comp.value, p0)]
        bad = []
        seen = set()
        for at, vk in rows:
            others = [k for k in at if k != f'in(§0, {outcomes})']
            has = at.get(f'in(§0, {outcomes})')
            if others or has is None:
                bad.append(f'the choice consults `{(others or ["nothing"])[0][:60]}`')
            elif has and vk != f'§1.with_outcome({outcomes}[§0])':
                bad.append(f'a handler with an outcome becomes `{vk[:60]}`')
            elif not has and vk != '§1':
                bad.append(f'a handler without an outcome becomes `{vk[:60]}`')
            seen.add(has)
        ctx.ob(rule, 'State.with_outcomes: under its own id, a state with an outcome becomes `state.with_outcome(outcomes[id])` (its own outcome), '
               'a state without one is carried over unchanged', not bad and kkey == '§0' and seen == {True, False}, loc=f.loc(comp.value),
               construct=construct(f, 'table:merge per id'), detail='; '.join(dict.fromkeys(bad)) or f'key `{kkey}`')
        ctx.ob(rule, 'State.with_outcomes keeps the time base of the state (delays and "now" of the merged state are computed like those of the records)',
               dotted(kwarg(c, 'basetime')) == 'self.basetime', loc=f.loc(c), construct=construct(f, 'flow:basetime carried'))


def check_with_outcome_carry(ctx: Ctx, rule: str) -> None:
    repo = ctx.repo
    f = repo.fn(f'{PRG}.HandlerState.with_outcome')
    ctx.analysed(f)
    outcome = param(f, 'outcome')
    ctors = _ctor_calls(repo, f)
    ctx.require_sites(rule, 'HandlerState.with_outcome: construction of the new record', len(ctors), 1, f.loc())
    for c in ctors:
        for fld, why in (('active', 'State.done and State.delays keep looking at the handler after its attempt'),
                         ('basetime', '"now" stays the same clock'),
                         ('purpose', 'the record keeps telling which cause it served: a later cause with another reason supersedes it')):
            v = kwarg(c, fld)
            ctx.ob(rule, f'HandlerState.with_outcome carries `{fld}` over unchanged ({why})', v is not None and dotted(v) == f'self.{fld}', loc=f.loc(c),
                   construct=construct(f, f'flow:{fld} carried'), detail=norm(v))
        v = kwarg(c, 'subrefs')
        parts = set()
        unions = False
        if v is not None:
            for n in ast.walk(v):
                if isinstance(n, ast.Attribute) and n.attr == 'subrefs' and dotted(n.value) in ('self', outcome):
                    parts.add(dotted(n.value))
                if isinstance(n, ast.BinOp) and isinstance(n.op, (ast.BitOr, ast.Add)):
                    unions = True
                if isinstance(n, ast.Call) and isinstance(n.func, ast.Attribute) and n.func.attr in ('union', 'chain'):
                    unions = True
                if isinstance(n, (ast.List, ast.Set, ast.Tuple)) and sum(isinstance(x, ast.Starred) for x in n.elts) >= 2:
                    unions = True
            bad_ops = [n for n in ast.walk(v) if isinstance(n, ast.BinOp) and isinstance(n.op, (ast.BitAnd, ast.Sub, ast.BitXor))]
            unions = unions and not bad_ops
        ctx.ob(rule, 'HandlerState.with_outcome: the sub-handler references accumulate -- the union of those recorded so far and those of this attempt '
               '(the final purge removes the records of all sub-handlers ever started under this handler)', parts == {'self', outcome} and unions,
               loc=f.loc(c), construct=construct(f, 'flow:subrefs union'), detail=norm(v, 90))


# ====================================================================== State.store
def check_state_store(ctx: Ctx, rule: str) -> None:
    repo = ctx.repo
    f = repo.fn(f'{PRG}.State.store')
    ctx.analysed(f)
    body, patch, storage = param(f, 'body'), param(f, 'patch'), param(f, 'storage')
    loops = _loops(f, lambda lp: any(method_call(c, 'store') is not None and dotted(method_call(c, 'store')) == storage for c in calls_in(lp)))
    ctx.require_sites(rule, 'State.store: loop writing the records', len(loops), 1, f.loc())
    if not loops:
        return
    loop = loops[0]
    env, names = _bind_targets(loop.target)
    ctx.ob(rule, 'State.store visits EVERY recorded state (`self._states.items()`), unfiltered', _over_states(f, loop.iter, 'items') and len(names) == 2,
           loc=f.loc(loop), construct=construct(f, 'flow:range=all states'), detail=f'over `{norm(loop.iter, 60)}`')
    if len(names) != 2:
        return

    def eff(it, p, call, names_):
        r = method_call(call, 'store')
        if r is not None and dotted(r) == storage:
            return 'store'
        return None
    paths = _iteration(repo, f, loop, absint.Config(effect=eff))

    def observe(p):
        st = p.effects('store')
        if p.status not in ('run', 'continue'):
            return ('status', p.status)
        if not st:
            return ('skip',)
        if len(st) != 1:
            return ('#stores', len(st))
        e = st[0]
        got = (_kw(e, 'key'), _kw(e, 'record'), _kw(e, 'body'), _kw(e, 'patch'))
        if got != ('§0', '§1.for_storage()', body, patch):
            return ('store-args', got)
        return ('store',)
    same = r'^eq\((?=.*§1\._origin)(?=.*§1\.as_in_storage\(\))'
    table_check(ctx, rule, f, paths, {'SAME': same}, lambda v: ('skip',) if v['SAME'] else ('store',), observe,
                what='State.store, one recorded state: the full record of this state is written under its own id into the given patch iff what would be '
                     'stored differs from what was loaded (`as_in_storage() != _origin`) -- every change is persisted, an unchanged record causes no write')
    after = [c for s in f.node.body if s is not loop and not any(s is x for x in ast.walk(loop)) for c in calls_in(s)
             if method_call(c, 'flush') is not None and dotted(method_call(c, 'flush')) == storage]
    ctx.ob(rule, 'State.store flushes the storage after the loop (storages that buffer their writes persist them here)', bool(after), loc=f.loc(),
           construct=construct(f, 'allexits:flush'))


# ====================================================================== State.delays
def check_state_delays(ctx: Ctx, rule: str) -> None:
    repo = ctx.repo
    f = repo.fn(f'{PRG}.State.delays')
    ctx.analysed(f)
    rets = _returned(f)
    comp = _single_comp(f, rets[0].value) if len(rets) == 1 else None
    if comp is None or isinstance(comp, ast.DictComp):
        ctx.ob(rule, 'State.delays is one collection built over the recorded states', False, loc=f.loc(), construct=construct(f, 'flow:range=all states'),
               detail='unsupported shape: expected a single `return [<delay> for <state> in self._states.values() if ...]`')
        return
    g = comp.generators[0]
    env, names = _bind_targets(g.target)
    ctx.ob(rule, 'State.delays ranges over every recorded state (`self._states.values()`)', _over_states(f, g.iter, 'values') and len(names) == 1,
           loc=f.loc(g.iter), construct=construct(f, 'flow:range=all states'), detail=norm(g.iter, 60))
    _formula_check(ctx, rule, f, _filter_of(comp), env, {'ACTIVE': r'^truthy\(§0\.active\)$', 'FINISHED': r'^truthy\(§0\.finished\)$'},
                   lambda v: v['ACTIVE'] and not v['FINISHED'], key='formula:active and not finished', loc_node=comp,
                   what='State.delays has one entry for exactly the active, unfinished handlers: a finished handler asks for no further cycle (else the '
                        'framework keeps touching the object forever), and every unfinished one does -- also one that was never attempted or has no delay '
                        '(else nothing re-triggers the cycle it still needs)')
    it = absint.Interp(repo, f, absint.Config())
    p0 = absint.Path()
    for a in f.params():
        p0.env[a.arg] = absint.sym(a.arg)
    starts = it.run_block([s for s in absint._body(f) if s is not rets[0]], [p0])
    bad, seen = [], set()
    for q0 in starts:
        q0.env.update(env)
        for q, v in it.fork_value(comp.elt, q0):
            others = [k for k in q.atoms if k not in ('truthy(§0.delayed)', 'isnone(§0.delayed)')]
            t, n = q.atoms.get('truthy(§0.delayed)'), q.atoms.get('isnone(§0.delayed)')
            is_set = t if t is not None else (not n if n is not None else None)
            if others or is_set is None:
                bad.append(f'the entry depends on `{(others or ["nothing"])[0][:60]}`')
                continue
            seen.add(is_set)
            if not is_set:
                if not (v.kind == 'const' and v.data == 0 and not isinstance(v.data, bool)):
                    bad.append(f'an undelayed unfinished handler gives `{v.key[:50]}`, not 0 (due now)')
                continue
            k = v.key
            m_ok = False
            if k.startswith('max(') and k.endswith(')'):
                inner = k[4:-1]
                for zero in ('0.0', '0'):
                    for cand in (inner[len(zero) + 2:] if inner.startswith(zero + ', ') else None, inner[:-len(zero) - 2] if inner.endswith(', ' + zero) else None):
                        if cand and cand.startswith('(§0.delayed Sub ') and cand.endswith(').total_seconds()'):
                            now = cand[len('(§0.delayed Sub '):-len(').total_seconds()')]
                            m_ok = m_ok or (is_now_key(now) and now.startswith('(self.basetime Add '))
            if not m_ok:
                bad.append(f'a delayed handler gives `{k[:110]}`')
    ctx.ob(rule, 'State.delays: the entry of a delayed handler is the time left, max(0, (delayed - now) seconds) with now = basetime + loop time; of an '
           'undelayed one 0 -- the cycle is re-triggered when the delay is over, not sooner and not never', not bad and seen == {True, False}, loc=f.loc(comp.elt),
           construct=construct(f, 'formula:max(0, delayed-now) | 0'), detail='; '.join(dict.fromkeys(bad))[:300])


# ====================================================================== State.extras
def check_state_extras(ctx: Ctx, rule: str) -> None:
    repo = ctx.repo
    f = repo.fn(f'{PRG}.State.extras')
    ctx.analysed(f)
    rets = _returned(f)
    outer = _single_comp(f, rets[0].value) if len(rets) == 1 else None
    inner = _single_comp(f, outer.generators[0].iter) if isinstance(outer, ast.DictComp) else None
    if inner is None or isinstance(inner, ast.DictComp):
        ctx.ob(rule, 'State.extras maps each superseded purpose to its counters', False, loc=f.loc(), construct=construct(f, 'formula:other purposes'),
               detail='unsupported shape: expected `{p: ... for p in {s.purpose for s in self._states.values() if ...}}`')
        return
    keyed = isinstance(outer.generators[0].target, ast.Name) and dotted(outer.key) == outer.generators[0].target.id and not outer.generators[0].ifs
    ctx.ob(rule, 'State.extras has one key per superseded purpose found (the caller purges when the mapping is non-empty)', keyed, loc=f.loc(outer),
           construct=construct(f, 'flow:keys=purposes'))
    g = inner.generators[0]
    env, names = _bind_targets(g.target)
    ctx.ob(rule, 'State.extras looks at the purpose of every recorded state', _over_states(f, g.iter, 'values') and len(names) == 1
           and dotted(inner.elt) == f'{names[0]}.purpose' if names else False, loc=f.loc(inner), construct=construct(f, 'flow:range=all states'))
    _formula_check(ctx, rule, f, _filter_of(inner), env,
                   {'NONE': r'^isnone\(§0\.purpose\)$', 'SAME': r'^eq\((§0\.purpose, self\.purpose|self\.purpose, §0\.purpose)\)$'},
                   lambda v: not v['NONE'] and not v['SAME'], key='formula:other purposes', loc_node=inner,
                   what='State.extras: a record counts as superseded iff it carries a purpose (not None) that differs from the purpose of the state -- records '
                        'of the current purpose are never "extras" (the caller purges ALL records, finished ones included, whenever extras is non-empty)')


# ====================================================================== State.without_successes
def check_without_successes(ctx: Ctx, rule: str) -> None:
    repo = ctx.repo
    f = repo.fn(f'{PRG}.State.without_successes')
    ctx.analysed(f)
    ctors = [c for c in _ctor_calls(repo, f) if any(c is r.value for r in _returned(f))]
    ctx.require_sites(rule, 'State.without_successes: the returned state', len(ctors), 1, f.loc())
    for c in ctors:
        comp = _single_comp(f, c.args[0] if c.args else None)
        if not isinstance(comp, ast.DictComp):
            ctx.ob(rule, 'State.without_successes filters the recorded states', False, loc=f.loc(c), construct=construct(f, 'formula:not success'),
                   detail='unsupported shape')
            continue
        g = comp.generators[0]
        env, names = _bind_targets(g.target)
        ok = _over_states(f, g.iter, 'items') and len(names) == 2 and dotted(comp.key) == names[0] and dotted(comp.value) == names[1]
        ctx.ob(rule, 'State.without_successes carries the kept records over unchanged, under their own ids', ok, loc=f.loc(comp),
               construct=construct(f, 'flow:records unchanged'))
        _formula_check(ctx, rule, f, _filter_of(comp), env, {'S': r'^truthy\(§1\.success\)$'}, lambda v: not v['S'], key='formula:not success', loc_node=comp,
                       what='State.without_successes drops exactly the succeeded records: a permanently failed handler keeps its record (and is therefore '
                            'not attempted again), an unfinished one keeps its attempts and delay')
        ctx.ob(rule, 'State.without_successes keeps the time base', dotted(kwarg(c, 'basetime')) == 'self.basetime', loc=f.loc(c),
               construct=construct(f, 'flow:basetime carried'))


# ====================================================================== the time base
def check_time_base(ctx: Ctx, rule: str) -> None:
    """basetime := wall clock - loop time (once per state); now := basetime + loop time (everywhere)."""
    repo = ctx.repo
    b = repo.fn(f'{PRG}._get_basetime')
    ctx.analysed(b)
    keys = {p.retval.key if p.retval is not None else None for p in absint.analyse(repo, b, absint.Config())}
    tail = ' Sub datetime.timedelta(seconds=asyncio.get_running_loop().time()))'
    ok = len(keys) == 1 and all(k is not None and k.endswith(tail) and k.startswith(('(datetime.datetime.now(', '(datetime.datetime.utcnow(')) for k in keys)
    ctx.ob(rule, '_get_basetime == wall clock MINUS the loop time (the moment the loop clock was zero), so that basetime + loop time is the present',
           ok, loc=b.loc(), construct=construct(b, 'formula:utcnow-looptime'), detail='; '.join(str(k)[:140] for k in keys))
    n = 0
    for f in repo.functions_in(PRG):
        for node in walk_no_defs(f.node):
            if not (isinstance(node, ast.BinOp) and isinstance(node.op, (ast.Add, ast.Sub))):
                continue
            sides = [node.left, node.right]
            base = [x for x in sides if (dotted(x) or '').split('.')[-1] == 'basetime']
            delta = [x for x in sides if isinstance(x, ast.Call) and (repo.resolve(f.module, x.func) or '') == 'datetime.timedelta']
            if not base or not delta:
                continue
            n += 1
            ctx.analysed(f)
            secs = follow(f, kwarg(delta[0], 'seconds'))
            recv = follow(f, method_call(secs, 'time')) if secs is not None else None
            loop_ok = isinstance(recv, ast.Call) and (repo.resolve(f.module, recv.func) or '') == 'asyncio.get_running_loop'
            ctx.ob(rule, f'{f.qualname.split("progression.")[-1]}: "now" is basetime PLUS timedelta(seconds=<running loop>.time()) (the inverse of _get_basetime; a present that lies in the '
                   'future wakes delayed handlers too soon, one in the past never)', isinstance(node.op, ast.Add) and loop_ok and len(delta[0].keywords) == 1
                   and not delta[0].args, loc=f.loc(node), construct=construct(f, 'formula:now=basetime+looptime'), detail=norm(node, 100))
    ctx.require_sites(rule, 'progression: computations of "now" from a basetime', n, 1)     # 6 today; 1 if a helper is extracted
    for ref in ('State.from_scratch', 'State.from_storage'):
        f = repo.fn(f'{PRG}.{ref}')
        ctx.analysed(f)
        ctors = [c for c in _ctor_calls(repo, f) if any(c is r.value for r in _returned(f))]
        ok = bool(ctors) and all(is_call_to(repo, f, follow(f, kwarg(c, 'basetime')), f'{PRG}._get_basetime') for c in ctors)
        ctx.ob(rule, f'{ref}: the time base of a new state is `_get_basetime()`', ok, loc=f.loc(), construct=construct(f, 'flow:basetime=_get_basetime()'))


# ====================================================================== HandlerState.from_storage (what R2.4/R2.5 leave open)
def check_handler_from_storage(ctx: Ctx, rule: str) -> None:
    repo = ctx.repo
    f = repo.fn(f'{PRG}.HandlerState.from_storage')
    ctx.analysed(f)
    ctors = [c for c in _ctor_calls(repo, f) if any(c is r.value for r in _returned(f))]
    ctx.require_sites(rule, 'HandlerState.from_storage: the returned record', len(ctors), 1, f.loc())
    pos = list(f.node.args.posonlyargs) + list(f.node.args.args)
    rec = pos[1].arg if len(pos) > 1 else None
    if rec is None:
        raise AnalysisError(f'{f.loc()}: HandlerState.from_storage has no record parameter')
    for c in ctors:
        act = kwarg(c, 'active')
        ctx.ob(rule, 'HandlerState.from_storage: a record read from the object is passive until its handler is selected again (State.with_handlers): the '
               'cycle does not wait for, nor sleep for, handlers that are not part of it', isinstance(act, ast.Constant) and act.value is False, loc=f.loc(c),
               construct=construct(f, 'config:active=False'), detail=norm(act))
        ctx.ob(rule, 'HandlerState.from_storage: the record gets the time base it is given', dotted(kwarg(c, 'basetime')) == 'basetime', loc=f.loc(c),
               construct=construct(f, 'flow:basetime'))
        it = absint.Interp(repo, f, absint.Config())
        p0 = absint.Path()
        for a in f.params():
            p0.env[a.arg] = absint.sym(a.arg)
        starts = it.run_block([s for s in absint._body(f) if not any(c is x for x in ast.walk(s))], [p0])
        st = kwarg(c, 'started')
        vals = set()
        for q0 in starts:
            for q, v in (it.fork_value(st, q0) if st is not None else []):
                vals.add(v.key)
        stored = {k for k in vals if k.endswith(f"parse_iso8601({rec}.get('started'))") or k.endswith(f"parse_iso8601({rec}['started'])")}
        fallback = {k for k in vals - stored if is_now_key(k)}
        ctx.ob(rule, 'HandlerState.from_storage: `started` is the stored first start (parsed), "now" only when none is stored -- the timeout keeps being '
               'measured from the first attempt across cycles and restarts', bool(stored) and vals == stored | fallback, loc=f.loc(c),
               construct=construct(f, 'flow:started=stored|now'), detail='; '.join(sorted(vals))[:200])


# ====================================================================== subhandling: implicit execution, double-execution guard, id prefix
def _context_pairs(repo, f, call: ast.Call) -> dict[str, ast.AST]:
    """resolved context variable -> value expression, of an `invocation.context([(var, value), ...])` call."""
    out: dict[str, ast.AST] = {}
    arg = follow(f, call.args[0]) if call.args else None
    if isinstance(arg, (ast.List, ast.Tuple)):
        for e in arg.elts:
            if isinstance(e, ast.Tuple) and len(e.elts) == 2:
                out[repo.resolve(f.module, e.elts[0]) or src(e.elts[0])] = e.elts[1]
    return out


def _enclosing(f, node: ast.AST, kinds: tuple) -> list:
    out, n = [], node
    while n is not None and n is not f.node:
        n = f.module.parent.get(n)
        if isinstance(n, kinds):
            out.append(n)
    return out


def check_subhandling_context(ctx: Ctx, rule: str) -> None:
    repo = ctx.repo
    f = repo.fn(f'{SUBH}.subhandling_context')
    ctx.analysed(f)
    flag, reg = f'{SUBH}.subexecuted_var', f'{SUBH}.subregistry_var'
    cms = [c for c in calls_in(f.node) if is_call_to(repo, f, c, f'{INV}.context')]
    ctx.require_sites(rule, 'subhandling_context: context variables set for the invocation', len(cms), 1, f.loc())
    for c in cms:
        pairs = _context_pairs(repo, f, c)
        v = pairs.get(flag)
        ctx.ob(rule, 'subhandling_context: every handler invocation starts with "sub-handlers not executed yet" (subexecuted_var := False) -- a flag inherited '
               'from the parent or a previous handler would suppress the execution of this handler\'s sub-handlers', isinstance(v, ast.Constant) and v.value is False,
               loc=f.loc(c), construct=construct(f, 'config:subexecuted_var=False'), detail=norm(v))
        r = pairs.get(reg)
        ok = isinstance(r, ast.Call) and not r.args and not r.keywords and (repo.resolve(f.module, r.func) or '').endswith('registries.ChangingRegistry')
        ctx.ob(rule, 'subhandling_context: every handler invocation gets a fresh, empty sub-registry (sub-handlers declared by one handler are not executed '
               'under another)', ok, loc=f.loc(c), construct=construct(f, 'config:subregistry_var=fresh'), detail=norm(r))

    def eff(it, p, call, names):
        if any(n == f'{SUBH}.execute' for n in names):
            return 'execute'
        return None
    paths = absint.analyse(repo, f, absint.Config(effect=eff))

    def observe(p):
        labs = [l for l in p.labels() if l in ('yield', 'execute')]
        return (tuple(labs), 'run' if p.status in ('run', 'return') else p.status)
    table_check(ctx, rule, f, paths, {'DONE': r'^truthy\(.*subexecuted_var\.get\(\)\)$'},
                lambda v: (('yield',), 'run') if v['DONE'] else (('yield', 'execute'), 'run'), observe,
                what='subhandling_context: after the handler returned normally its sub-handlers are executed implicitly (`await execute()`) iff the handler did '
                     'not execute them itself -- one way or another they run, exactly once per invocation')
    ex = [c for c in calls_in(f.node) if is_call_to(repo, f, c, f'{SUBH}.execute')]
    ys = [n for n in walk_no_defs(f.node) if isinstance(n, ast.Yield)]
    inside = all(any(any(is_call_to(repo, f, it.context_expr, f'{INV}.context') for it in w.items) for w in _enclosing(f, n, (ast.With, ast.AsyncWith)))
                 for n in ex + ys) and bool(ex) and bool(ys)
    awaited = all(isinstance(f.module.parent.get(c), ast.Await) for c in ex)
    ctx.ob(rule, 'subhandling_context: the handler and the implicit execution both run inside the block that sets the two variables, and the implicit execution is '
           'awaited (its HandlerChildrenRetry reaches the parent\'s outcome)', inside and awaited, loc=f.loc(), construct=construct(f, 'flow:execute inside context'))


def check_execute_guard(ctx: Ctx, rule: str) -> None:
    """kopf.execute() without arguments: at most once per handler invocation, over the handler's own sub-registry."""
    repo = ctx.repo
    f = repo.fn(f'{SUBH}.execute')
    ctx.analysed(f)
    flag = f'{SUBH}.subexecuted_var'

    def is_flag_set(c: ast.Call) -> bool:
        r = method_call(c, 'set')
        return r is not None and (repo.resolve(f.module, r) or '') == flag
    chains = [s for s in absint._body(f) if isinstance(s, (ast.If, ast.Match)) and any(is_flag_set(c) for c in calls_in(s))]
    ctx.require_sites(rule, 'subhandling.execute: the selection of the registry, with the arm that marks the sub-handlers as executed', len(chains), 1, f.loc())
    if not chains:
        return
    sel = [c for c in calls_in(f.node) if method_call(c, 'get_handlers') is not None and kwarg(c, 'cause') is not None]
    regname = dotted(method_call(sel[0], 'get_handlers')) if len(sel) == 1 else None
    ctx.ob(rule, 'subhandling.execute: the handlers to execute are selected from one registry variable', regname is not None and '.' not in (regname or '.'),
           loc=f.loc(), construct=construct(f, 'flow:registry variable'))
    if regname is None:
        return

    def eff(it, p, call, names):
        if is_flag_set(call):
            return 'mark:' + (it.ev(call.args[0], p).key if call.args else '?')
        return None
    paths = [p for p in absint.analyse(repo, f, absint.Config(effect=eff), stmts=[chains[0]]) if not (p.status == 'raise' and p.exc in ('TypeError', 'ValueError'))]

    def observe(p):
        marks = p.labels('mark:')
        r = p.env.get(regname)
        return (p.status, tuple(marks), r.key.split('subhandling.')[-1] if r is not None and p.status == 'run' else None)

    def spec(v):
        if not (v['NF'] and v['NH'] and v['NR']):
            return SKIP_
        if v['DONE']:
            return ('return', (), None)
        return ('run', ('mark:True',), 'subregistry_var.get()')
    table_check(ctx, rule, f, paths, {'NF': r'^isnone\(fns\)$', 'NH': r'^isnone\(handlers\)$', 'NR': r'^isnone\(registry\)$',
                                      'DONE': r'^truthy\(.*subexecuted_var\.get\(\)\)$'}, spec, observe,
                what='subhandling.execute with no explicit handlers: if the sub-handlers of this invocation were already executed it returns at once; otherwise it '
                     'marks them executed (subexecuted_var.set(True)) and takes the handler\'s own sub-registry -- a second, implicit pass over a body that '
                     'does not yet show the first pass\'s progress would invoke succeeded sub-handlers again')
    # ids of ad-hoc sub-handlers are prefixed with the parent's id
    gen = [c for c in calls_in(f.node) if is_call_to(repo, f, c, f'{REG}.generate_id')]
    ctx.require_sites(rule, 'subhandling.execute: ids generated for ad-hoc sub-handlers', len(gen), 2, f.loc())
    for c in gen:
        pv = follow(f, kwarg(c, 'prefix'))
        src_ok = False
        for n in (ast.walk(pv) if pv is not None else []):
            if isinstance(n, ast.Attribute) and n.attr == 'id':
                o = follow(f, n.value)
                src_ok = src_ok or (isinstance(o, ast.Call) and (repo.resolve(f.module, o.func) or '').endswith('execution.handler_var.get'))
        ctx.ob(rule, 'subhandling.execute: the id of an ad-hoc sub-handler is prefixed with the id of the handler being invoked (handler_var): its progress record '
               'is its own, not shared with a same-named function under another parent', src_ok, loc=f.loc(c), construct=construct(f, 'config:generate_id(prefix=parent id)'),
               detail=f'prefix={norm(pv, 70)}')


# ====================================================================== invocation.context: set and always reset
def check_invocation_context(ctx: Ctx, rule: str) -> None:
    repo = ctx.repo
    f, g = cfg_of(ctx, f'{INV}.context')
    values = param(f, 'values')
    set_loops = _loops(f, lambda lp: dotted(lp.iter) == values)
    ctx.require_sites(rule, 'invocation.context: loop setting the variables', len(set_loops), 1, f.loc())
    yields = [n for n in g.nodes if n.stmt is not None and n.kind in ('stmt', 'yield') and isinstance(n.stmt, ast.Expr) and isinstance(n.stmt.value, ast.Yield)]
    ctx.require_sites(rule, 'invocation.context: the yield to the managed block', len(yields), 1, f.loc())
    if not set_loops or not yields:
        return
    loop = set_loops[0]
    env, names = _bind_targets(loop.target)
    appends = [c for c in calls_in(loop) if method_call(c, 'append') is not None]
    tokens = dotted(method_call(appends[0], 'append')) if appends else None

    def eff(it, p, call, nms):
        r = method_call(call, 'set')
        if r is not None and it.ev(r, p).key == '§0':
            return 'set'
        r = method_call(call, 'append')
        if r is not None and dotted(r) == tokens:
            return 'keep'
        return None
    paths = absint.analyse(repo, f, absint.Config(effect=eff), stmts=loop.body, env=env)

    def observe(p):
        sets, keeps = p.effects('set'), p.effects('keep')
        if p.status not in ('run', 'continue') or len(sets) != 1 or len(keeps) != 1:
            return ('status', p.status, len(sets), len(keeps))
        if _kw(sets[0], '#0') != '§1':
            return ('set-arg', sets[0].key)
        kept = _kw(keeps[0], '#0') or ''
        if sets[0].key not in kept or '§0' not in kept.replace(sets[0].key, ''):
            return ('kept', kept)
        return ('set+kept',)
    table_check(ctx, rule, f, paths, {}, lambda v: ('set+kept',), observe,
                what='invocation.context, one (variable, value) pair: the variable is set to the value and the token is kept together with the variable, unconditionally')
    # the reset loop: over the kept tokens, each variable reset with its own token
    resets = []
    for lp in _loops(f, lambda lp: tokens is not None and tokens in {dotted(n) for n in ast.walk(lp.iter)}):
        e2, n2 = _bind_targets(lp.target)
        for c in calls_in(lp):
            r = method_call(c, 'reset')
            if r is not None and len(n2) == 2 and dotted(r) == n2[0] and len(c.args) == 1 and dotted(c.args[0]) == n2[1] \
                    and not any(isinstance(x, (ast.If, ast.Break, ast.Continue, ast.Return)) for s in lp.body for x in walk_no_defs(s)):
                resets.append(lp)
    ctx.require_sites(rule, 'invocation.context: loop resetting every kept (variable, token) pair, unconditionally', len(resets), 1, f.loc())
    reset_nodes = [n for n in g.nodes if n.kind == 'loop' and any(n.stmt is lp for lp in resets)]
    esc = g.escaping_exits(yields, reset_nodes, classes=('normal', 'exc', 'cancel'))
    ctx.ob(rule, 'invocation.context: on EVERY exit of the managed block -- normal, a handler\'s exception (the usual way a handler fails), cancellation -- the '
           'variables are reset: a "sub-handlers executed" flag or a sub-registry must not leak from a sub-handler into its parent or into the next handler',
           not esc and bool(reset_nodes), loc=f.loc(), construct=construct(f, 'allexits:reset'),
           detail='; '.join(f'{e.label} exit without the reset' for e in esc[:2]))
    und = g.dominated(yields, [n for n in g.nodes if n.kind == 'loop' and n.stmt is loop])
    ctx.ob(rule, 'invocation.context: the variables are set before the managed block runs', not und, loc=f.loc(), construct=construct(f, 'order:set<yield'))


# ====================================================================== invocation.invoke: the explicit kwargs reach the function
def check_invoke_kwargs(ctx: Ctx, rule: str) -> None:
    import re
    repo = ctx.repo
    f = repo.fn(f'{INV}.invoke')
    ctx.analysed(f)
    fn, kwargs = param(f, 'fn'), param(f, 'kwargs')

    def eff(it, p, call, names):
        if isinstance(call.func, ast.Name) and call.func.id == fn:
            return 'user-call'
        if (repo.resolve(f.module, call.func) or '') == 'functools.partial' and call.args and dotted(call.args[0]) == fn:
            return 'user-call'
        return None
    paths = absint.analyse(repo, f, absint.Config(effect=eff))
    ctx.count('paths', len(paths))
    rx = re.compile(r'(?<![\w.])' + re.escape(kwargs) + r'(?!\w)')
    bad, rows = [], set()
    for p in paths:
        given = p.atoms.get(f'isnone({kwargs})')
        calls = p.effects('user-call')
        if p.status == 'raise' and not calls:
            continue
        is_async = p.atom(r'^truthy\(.*is_async_fn\(')
        rows.add(is_async)
        if len(calls) != 1:
            bad.append(f'{len(calls)} invocations of the function on a path')
            continue
        star = calls[0].kw.get('**')
        if given is False and (star is None or not rx.search(star.key)):
            bad.append(f'{"async" if is_async else "sync"} function: called with `{star.key[:90] if star is not None else "no **kwargs"}` -- the kwargs given by the caller are not in it')
    ctx.ob(rule, f'invocation.invoke ({len(paths)} paths): the function -- awaited directly when async, wrapped for the executor when sync -- is called exactly once with '
           'the kwargs its caller supplied (retry=, started=, runtime=, param=) merged in; neither branch drops them', not bad and rows >= {True, False},
           loc=f.loc(), construct=construct(f, 'flow:kwargs reach fn'), detail='; '.join(dict.fromkeys(bad))[:300])


# ====================================================================== execute_handlers_once: outcome bookkeeping; the plumbing down to the handler
def check_outcome_bookkeeping(ctx: Ctx, rule: str) -> None:
    repo = ctx.repo
    f = repo.fn(f'{EXE}.execute_handlers_once')
    ctx.analysed(f)
    loops = _loops(f, lambda lp: any(is_call_to(repo, f, c, f'{EXE}.execute_handler_once') for c in calls_in(lp)))
    ctx.require_sites(rule, 'execute_handlers_once: loop executing the planned handlers', len(loops), 1, f.loc())
    rets = _returned(f)
    acc = rets[-1].value.id if rets and isinstance(rets[-1].value, ast.Name) else None
    if not loops:
        return
    loop = loops[0]

    def eff(it, p, call, names):
        if any(n == f'{EXE}.execute_handler_once' for n in names):
            return 'exec'
        return None
    paths = _iteration(repo, f, loop, absint.Config(effect=eff))

    def observe(p):
        ex = p.effects('exec')
        sets = [e for e in p.trace if e.label.startswith('setitem:')]
        if p.status not in ('run', 'continue') or len(ex) != 1 or len(sets) != 1:
            return ('status', p.status, len(ex), len(sets))
        s = sets[0]
        if s.label != f'setitem:{acc}' or s.kw['index'].key != '§0.id' or s.kw['value'].key != ex[0].key or _kw(ex[0], 'handler') != '§0':
            return ('recorded', s.label, s.key[:80])
        return ('recorded under its id',)
    table_check(ctx, rule, f, paths, {}, lambda v: ('recorded under its id',), observe,
                what='execute_handlers_once, one planned handler: the outcome of its execution is recorded under its own id in the returned mapping, unconditionally '
                     '(an outcome that is lost is an attempt that was made but never counted, a success that is never recorded)')
    inits = [n for n in walk_no_defs(f.node) if isinstance(n, (ast.Assign, ast.AnnAssign)) and n.value is not None
             and any(isinstance(t, ast.Name) and t.id == acc for t in (n.targets if isinstance(n, ast.Assign) else [n.target]))]
    in_loop = [n for n in inits if any(n is x for s in loop.body for x in walk_no_defs(s))]
    empty = len(inits) == 1 and ((isinstance(inits[0].value, ast.Dict) and not inits[0].value.keys) or (isinstance(inits[0].value, ast.Call)
                                 and dotted(inits[0].value.func) == 'dict' and not inits[0].value.args and not inits[0].value.keywords))
    every = all(isinstance(r.value, ast.Name) and r.value.id == acc for r in rets) and bool(rets)
    ctx.ob(rule, 'execute_handlers_once returns that one mapping: created empty before the loop, never rebound inside it, returned on every return',
           acc is not None and empty and not in_loop and every, loc=f.loc(rets[-1]) if rets else f.loc(), construct=construct(f, 'flow:returned=accumulated outcomes'),
           detail=f'bound {len(inits)} time(s), {len(in_loop)} inside the loop')


def check_handler_plumbing(ctx: Ctx, rule: str) -> None:
    """From the cycle down to the user function: the sub-handling context, the references container, started/runtime."""
    repo = ctx.repo
    # 1. both handling cycles ask for the sub-handling context
    for ref in ('kopf._core.reactor.processing.process_changing_cause', f'{SUBH}.execute'):
        f = repo.fn(ref)
        ctx.analysed(f)
        for c in [c for c in calls_in(f.node) if is_call_to(repo, f, c, f'{EXE}.execute_handlers_once')]:
            v = kwarg(c, 'extra_context')
            ctx.ob(rule, f'{f.name}: change handlers are executed with extra_context=subhandling_context (their sub-handlers are executed, and keep the parent '
                   'unfinished until all of them finished)', v is not None and (repo.resolve(f.module, v) or '') == f'{SUBH}.subhandling_context', loc=f.loc(c),
                   construct=construct(f, 'config:extra_context=subhandling_context'), detail=norm(v))
    # 2. handed down unchanged
    for ref, callee in ((f'{EXE}.execute_handlers_once', f'{EXE}.execute_handler_once'), (f'{EXE}.execute_handler_once', f'{EXE}.invoke_handler')):
        f = repo.fn(ref)
        ctx.analysed(f)
        sites = [c for c in calls_in(f.node) if is_call_to(repo, f, c, callee)]
        ctx.require_sites(rule, f'{f.name}: call of {callee.rsplit(".", 1)[-1]}', len(sites), 1, f.loc())
        for c in sites:
            ctx.ob(rule, f'{f.name} hands its extra_context down to {callee.rsplit(".", 1)[-1]}', dotted(kwarg(c, 'extra_context')) == param(f, 'extra_context'),
                   loc=f.loc(c), construct=construct(f, 'flow:extra_context passed down'))
    f = repo.fn(f'{EXE}.execute_handler_once')
    state = param(f, 'state')
    for c in [c for c in calls_in(f.node) if is_call_to(repo, f, c, f'{EXE}.invoke_handler')]:
        for kw_, attr in (('started', 'started'), ('runtime', 'runtime')):
            v = follow(f, kwarg(c, kw_))
            ctx.ob(rule, f'execute_handler_once: the handler is told {kw_} = the recorded `{state}.{attr}`', v is not None and dotted(v) == f'{state}.{attr}',
                   loc=f.loc(c), construct=construct(f, f'flow:{kw_}=state.{attr}'), detail=norm(v))
        sv = follow(f, kwarg(c, 'subrefs'))
        fresh = isinstance(sv, ast.Call) and dotted(sv.func) == 'set' and not sv.args
        ctx.ob(rule, 'execute_handler_once: every invocation gets its own, initially empty container of sub-handler references', fresh, loc=f.loc(c),
               construct=construct(f, 'flow:subrefs=fresh set'), detail=norm(sv))
    # 3. invoke_handler: context variables, extra context around the call, kwargs of the user function
    g = repo.fn(f'{EXE}.invoke_handler')
    ctx.analysed(g)
    inv = [c for c in calls_in(g.node) if is_call_to(repo, g, c, f'{INV}.invoke')]
    cms = [c for c in calls_in(g.node) if is_call_to(repo, g, c, f'{INV}.context')]
    ctx.require_sites(rule, 'invoke_handler: invocation of the user function', len(inv), 1, g.loc())
    ctx.require_sites(rule, 'invoke_handler: context variables for the invocation', len(cms), 1, g.loc())
    for c in cms:
        pairs = _context_pairs(repo, g, c)
        sr = pairs.get(f'{EXE}.subrefs_var')
        mentions_outer = sr is not None and any(isinstance(n, ast.Call) and method_call(n, 'get') is not None
                                                and (repo.resolve(g.module, method_call(n, 'get')) or '') == f'{EXE}.subrefs_var' for n in ast.walk(sr))
        mentions_own = sr is not None and any(isinstance(n, ast.Name) and n.id == param(g, 'subrefs') for n in ast.walk(sr))
        ctx.ob(rule, 'invoke_handler: subrefs_var := the enclosing containers PLUS this handler\'s own (a sub-sub-handler is referenced by every ancestor, so that '
               'the top-level purge removes its record)', mentions_outer and mentions_own, loc=g.loc(c), construct=construct(g, 'flow:subrefs_var=outer+own'), detail=norm(sr, 80))
        hv = pairs.get(f'{EXE}.handler_var')
        ctx.ob(rule, 'invoke_handler: handler_var := the handler being invoked (the prefix of its sub-handlers\' ids)', dotted(hv) == param(g, 'handler'), loc=g.loc(c),
               construct=construct(g, 'flow:handler_var=handler'), detail=norm(hv))
    for c in inv:
        withs = _enclosing(g, c, (ast.With, ast.AsyncWith))
        in_ctx = any(any(is_call_to(repo, g, it.context_expr, f'{INV}.context') for it in w.items) for w in withs)
        in_extra = any(any(isinstance(it.context_expr, ast.Call) and dotted(it.context_expr.func) == param(g, 'extra_context') for it in w.items) for w in withs)
        ctx.ob(rule, 'invoke_handler: the user function runs inside the context variables and inside `extra_context()` (whose exit executes the sub-handlers)',
               in_ctx and in_extra, loc=g.loc(c), construct=construct(g, 'flow:invoke inside contexts'))
        kws = follow(g, kwarg(c, 'kwargs'))
        for name in ('started', 'runtime'):
            v = None
            if isinstance(kws, ast.Call) and dotted(kws.func) == 'dict':
                v = kwarg(kws, name)
            elif isinstance(kws, ast.Dict):
                v = next((vv for k, vv in zip(kws.keys, kws.values) if isinstance(k, ast.Constant) and k.value == name), None)
            ctx.ob(rule, f'invoke_handler: the `{name}` kwarg of the user function is the value it was given', v is not None and dotted(follow(g, v)) == param(g, name),
                   loc=g.loc(c), construct=construct(g, f'flow:kwargs.{name}'), detail=norm(v))


# ====================================================================== TemporaryError carries the requested delay
def check_temporary_error_delay(ctx: Ctx, rule: str) -> None:
    repo = ctx.repo
    cq = f'{EXE}.TemporaryError'
    f = repo.fn(f'{cq}.__init__')
    ctx.analysed(f)
    delay = param(f, 'delay')
    ws = [n for n in walk_no_defs(f.node) if isinstance(n, (ast.Assign, ast.AnnAssign)) and any(
        isinstance(t, ast.Attribute) and t.attr == 'delay' and dotted(t.value) == 'self' for t in (n.targets if isinstance(n, ast.Assign) else [n.target]))]
    ok = len(ws) == 1 and dotted(ws[0].value) == delay and not _enclosing(f, ws[0], (ast.If, ast.For, ast.While, ast.Try))
    ctx.ob(rule, 'TemporaryError keeps the delay its raiser asked for, unaltered (`self.delay = delay`): execute_handler_once reads `e.delay` into the outcome, and the '
           'handler is not retried sooner', ok, loc=f.loc(ws[0]) if ws else f.loc(), construct=construct(f, 'config:self.delay=delay'),
           detail='; '.join(norm(w.value) for w in ws) or 'no assignment of self.delay')
    subs = [c for c in repo.subclasses(cq) if c != cq and c in repo.classes]
    def forwards(c: str) -> bool:
        init = repo.classes[c].methods.get('__init__')
        if init is None:
            return True
        sup = [x for x in calls_in(init.node) if isinstance(x.func, ast.Attribute) and x.func.attr == '__init__' and isinstance(x.func.value, ast.Call)
               and dotted(x.func.value.func) == 'super']
        names = {a.arg for a in init.params()}
        return len(sup) == 1 and 'delay' in names and dotted(kwarg(sup[0], 'delay', 1)) == 'delay' and not _enclosing(init, sup[0], (ast.If, ast.Try, ast.For, ast.While))
    over = [c for c in subs if 'delay' in repo.classes[c].methods or not forwards(c)]
    ctx.ob(rule, f'no subclass of TemporaryError in the package ({", ".join(c.rsplit(".", 1)[-1] for c in subs) or "none"}) redefines `delay` or has a constructor that does not forward it '
           '(HandlerChildrenRetry(delay=state.delay) carries the earliest delay of the sub-handlers)', not over and bool(subs), loc=f.module.relpath(),
           construct=f'{cq}:config:subclasses keep delay', detail=', '.join(over))


# ====================================================================== progress storages: touch; the order inside the smart storage
def _is_noop(m) -> bool:
    body = [s for s in m.node.body if not (isinstance(s, ast.Expr) and isinstance(s.value, ast.Constant))]
    return all(isinstance(s, ast.Pass) for s in body)


def check_touch(ctx: Ctx, rule: str) -> None:
    repo = ctx.repo
    n = 0
    for f in repo.functions_in(PROGRESS):
        if f.name != 'touch' or f.cls is None or _is_noop(f):
            continue
        body = [s for s in f.node.body if not (isinstance(s, ast.Expr) and isinstance(s.value, ast.Constant))]
        if len(body) == 1 and isinstance(body[0], ast.Raise):
            continue                                                # abstract
        writes = [c for c in calls_in(f.node) if is_call_to(repo, f, c, 'dicts.ensure')]
        if not writes:
            continue                                                # a dispatcher (MultiProgressStorage): R16.2
        n += 1
        ctx.analysed(f)
        bodyp, patch, value = param(f, 'body'), param(f, 'patch'), param(f, 'value')
        marks = repo.find_method(f.cls.qualname, '_store_marker') is not None
        loops = _loops(f, lambda lp: any(c in calls_in(lp) for c in writes))

        def eff(it, p, call, names):
            if any(x.endswith('dicts.resolve') for x in names):
                return 'probe'
            if any(x.endswith('dicts.ensure') for x in names):
                return 'write'
            if any(x.endswith('._store_marker') for x in names):
                return 'mark'
            return None
        cfg = absint.Config(effect=eff)
        paths = _iteration(repo, f, loops[0], cfg) if loops else absint.analyse(repo, f, cfg)

        def observe(p, _marks=marks, _b=bodyp, _p=patch, _v=value):
            probes, ws, ms = p.effects('probe'), p.effects('write'), p.effects('mark')
            if p.status not in ('run', 'continue', 'return') or len(probes) != 1 or _kw(probes[0], '#0') != _b:
                return ('probe', p.status, len(probes))
            if not ws:
                return ('skip',) if not ms else ('mark-without-write',)
            if len(ws) != 1 or _kw(ws[0], '#0') != _p or _kw(ws[0], '#1') != _kw(probes[0], '#1') or _kw(ws[0], '#2') != _v:
                return ('write', ws[0].key[:100])
            if _marks and not (len(ms) == 1 and _kw(ms[0], 'patch') == _p and _kw(ms[0], 'prefix') == 'self.prefix' and _kw(ms[0], 'body') == _b):
                return ('unmarked-write',)
            return ('write+mark',) if _marks else ('write',)
        table_check(ctx, rule, f, paths, {'SAME': r'^eq\((?=.*dicts\.resolve\()(?=.*(?<![\w.])' + value + r'(?!\w))'},
                    lambda v, _m=marks: ('skip',) if v['SAME'] else (('write+mark',) if _m else ('write',)), observe,
                    what=f'{f.cls.node.name}.touch: the given value is written at the touch location of the patch iff the object does not hold exactly that value '
                         'there (the dummy change that re-triggers a cycle after a delay IS made; cleaning an absent dummy causes no request)'
                         + ('; the write is accompanied by the prefix marker (the dummy stays invisible to change detection)' if marks else ''))
    ctx.require_sites(rule, 'progress storages: concrete touch implementations that write', n, 2)


def check_smart_order(ctx: Ctx, rule: str) -> None:
    repo = ctx.repo
    init = repo.fn(f'{PROGRESS}.SmartProgressStorage.__init__')
    ctx.analysed(init)
    sup = [c for c in calls_in(init.node) if isinstance(c.func, ast.Attribute) and c.func.attr == '__init__' and isinstance(c.func.value, ast.Call)
           and dotted(c.func.value.func) == 'super']
    ctx.require_sites(rule, 'SmartProgressStorage.__init__: the list of storages handed to MultiProgressStorage', len(sup), 1, init.loc())
    for c in sup:
        lst = follow(init, c.args[0] if c.args else kwarg(c, 'storages'))
        elts = lst.elts if isinstance(lst, (ast.List, ast.Tuple)) else []
        kinds = []
        for e in elts:
            cn = repo.resolve(init.module, e.func) if isinstance(e, ast.Call) else None
            m = repo.find_method(cn, 'store') if cn and cn in repo.classes else None
            kinds.append((cn, None if m is None else not _is_noop(m)))
            if isinstance(e, ast.Call):
                wrong = [k.arg for k in e.keywords if k.arg and dotted(k.value) != k.arg]
                ctx.ob(rule, f'SmartProgressStorage: {str(cn).rsplit(".", 1)[-1]} is configured with the parameters of the same names', not wrong and not e.args, loc=init.loc(e),
                       construct=f'{init.qualname}:config:{str(cn).rsplit(".", 1)[-1]}', detail=', '.join(wrong))
        writers = [i for i, (_, w) in enumerate(kinds) if w]
        readers = [i for i, (_, w) in enumerate(kinds) if w is False]
        ok = bool(writers) and all(w is not None for _, w in kinds) and (not readers or max(writers) < min(readers))
        ctx.ob(rule, 'SmartProgressStorage: the storage that is written comes before the read-only legacy one -- MultiProgressStorage.fetch returns the first record '
               'found, so a stale record in a location that is no longer written never shadows the live progress', ok, loc=init.loc(c),
               construct=f'{init.qualname}:order:writing storage first', detail=', '.join(f'{str(cn).rsplit(".", 1)[-1]}({"writes" if w else "read-only"})' for cn, w in kinds))
    fe = repo.fn(f'{PROGRESS}.MultiProgressStorage.fetch')
    ctx.analysed(fe)
    loops = _loops(fe, lambda lp: dotted(lp.iter) == 'self.storages')
    first = bool(loops) and any(isinstance(x, ast.Return) and x.value is not None and not (isinstance(x.value, ast.Constant) and x.value.value is None)
                                for s in loops[0].body for x in walk_no_defs(s))
    ctx.ob(rule, 'MultiProgressStorage.fetch walks `self.storages` in order and returns from inside the loop (first record found wins)', first, loc=fe.loc(),
           construct=construct(fe, 'order:first found wins'))


EXTRA: dict = {
    'C02': [(check_state_from_storage, 'R2.20'), (check_state_with_handlers, 'R2.21'), (check_handler_from_scratch, 'R2.22'),
            (check_state_with_purpose, 'R2.23'), (check_state_with_outcomes, 'R2.24'), (check_with_outcome_carry, 'R2.25'),
            (check_state_store, 'R2.26'), (check_state_extras, 'R2.27'), (check_handler_from_storage, 'R2.28'),
            (check_subhandling_context, 'R2.29'), (check_execute_guard, 'R2.30'), (check_invocation_context, 'R2.31'),
            (check_invoke_kwargs, 'R2.32'), (check_outcome_bookkeeping, 'R2.33'), (check_handler_plumbing, 'R2.34'),
            (check_smart_order, 'R2.35')],
    'C11': [(check_handler_from_scratch, 'R11.20'), (check_state_with_outcomes, 'R11.21'), (check_state_delays, 'R11.22'),
            (check_without_successes, 'R11.23'), (check_time_base, 'R11.24'), (check_handler_from_storage, 'R11.25'),
            (check_outcome_bookkeeping, 'R11.26'), (check_temporary_error_delay, 'R11.27')],
    'C03': [(check_with_outcome_carry, 'R3.20'), (check_state_store, 'R3.21'), (check_state_delays, 'R3.22'),
            (check_touch, 'R3.23'), (check_state_with_outcomes, 'R3.24')],
    'C14': [(check_state_with_purpose, 'R14.20'), (check_state_from_storage, 'R14.21'), (check_state_with_handlers, 'R14.22')],
}
