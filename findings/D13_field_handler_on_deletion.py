"""
D13 (C05): `@kopf.on.field` handlers -- update handlers per docs/filters.rst ("the update handlers
(specifically, @kopf.on.update and @kopf.on.field)") and docs/handlers.rst ("the field handler is effective
only when the object is updated") -- carry `reason=None`, so ChangingRegistry.iter_handlers yields them for
ANY cause whose field differs from the last-handled state, including a DELETE cause: an object that is
edited while it is terminating (or deleted before its update cycle finished) gets its field-update handler
invoked on an object marked for deletion, together with the deletion handlers.
(24 tests in tests/registries pin the present behaviour, so this is recorded, not repaired.)
Run: /venv/bin/python D13_field_handler_on_deletion.py
"""
import kopf, logging
from kopf._core.intents import registries, causes
from kopf._cogs.structs import bodies, patches, references, diffs
from kopf._core.engines.indexing import OperatorIndexers
registry = registries.OperatorRegistry()
@kopf.on.field('g', 'v1', 'plural', registry=registry, field='spec.field')
def field_changed(**_): pass
@kopf.on.update('g', 'v1', 'plural', registry=registry)
def updated(**_): pass
@kopf.on.delete('g', 'v1', 'plural', registry=registry)
def deleted(**_): pass
resource = references.Resource('g', 'v1', 'plural')
old = {'spec': {'field': 'a'}}; new = {'spec': {'field': 'b'}}
raw = {'metadata': {'name': 'x', 'deletionTimestamp': '2020-01-01T00:00:00Z', 'finalizers': ['kopf.zalando.org/KopfFinalizerMarker']}, **new}
c = causes.detect_changing_cause(finalizer='kopf.zalando.org/KopfFinalizerMarker', raw_event={'type': 'MODIFIED', 'object': raw},
    body=bodies.Body(raw), old=old, new=new, diff=diffs.diff(old, new), initial=False,
    resource=resource, indices=OperatorIndexers().indices, logger=logging.getLogger(), patch=patches.Patch(), memo=None)
print('cause:', c.reason, '| object marked for deletion:', c.deleted)
print('handlers selected:', [h.id for h in registry._changing.get_handlers(c)])
