"""C17 -- in-memory indices mirror the cluster; handling waits for the initial index (DESIGN.md §4, R17.1-R17.4)."""
from __future__ import annotations

import ast
from typing import Any, Optional

from .. import absint
from ..core import Ctx, PropSpec
from ..rules import calls_in, cfg_of, cond_implies, construct, dominating_conditions, is_call_to, kwarg, method_call, norm, origin, table_check, witness
from ..srcmodel import AnalysisError, FuncInfo, dotted, src, walk_no_defs
from .C13 import both, cleanup_is_total, nonnull_edges, param

IDX = 'kopf._core.engines.indexing'
GATE = ('operator_indexed', 'resource_indexed')


# ====================================================================== R17.1 what an event does to the indices
def _loop_over(f: FuncInfo, recv: str, meths=('items',)) -> list[ast.For]:
    out = []
    for n in walk_no_defs(f.node):
        if isinstance(n, ast.For) and isinstance(n.iter, ast.Call) and isinstance(n.iter.func, ast.Attribute) and n.iter.func.attr in meths \
                and dotted(n.iter.func.value) == recv:
            out.append(n)
    return out


def _bind_targets(loop: ast.For, syms: list[str]) -> dict:
    tgt = loop.target.elts if isinstance(loop.target, (ast.Tuple, ast.List)) else [loop.target]
    if len(tgt) != len(syms) or not all(isinstance(t, ast.Name) for t in tgt):
        raise AnalysisError(f'unsupported loop target `{src(loop.target)}`')
    return {t.id: absint.sym(s) for t, s in zip(tgt, syms)}


def check_replace(ctx: Ctx) -> None:
    repo = ctx.repo
    R = 'R17.1'
    f = repo.fn(f'{IDX}.OperatorIndexers.replace')
    ctx.analysed(f)
    param(f, 'outcomes'), param(f, 'body')
    # the key addresses the object of this event
    keyvars = {n.targets[0].id for n in walk_no_defs(f.node) if isinstance(n, ast.Assign) and len(n.targets) == 1 and isinstance(n.targets[0], ast.Name)
               and isinstance(n.value, ast.Call) and method_call(n.value, 'make_key') is not None and n.value.args and dotted(n.value.args[0]) == 'body'}
    ctx.ob(R, 'OperatorIndexers.replace: the storage key is made from the body of the event (make_key(body))', len(keyvars) == 1, loc=f.loc(),
           construct=construct(f, 'flow:key=make_key(body)'))
    keyvar = next(iter(keyvars), 'key')

    def eff(it, p, call, names):
        if isinstance(call.func, ast.Attribute) and call.func.attr in ('discard', 'replace', '_discard', '_replace', 'pop', 'clear', '__delitem__', '__setitem__'):
            return 'index:' + call.func.attr
        return None

    def obs(p, recv_ok):
        out = []
        for e in p.trace:
            if not e.label.startswith('index:'):
                continue
            call = e.node
            k = e.kw.get('#0')
            out.append((e.label[6:], bool(recv_ok(call.func.value)), k is not None and k.key == keyvar,
                        e.kw['#1'].key if '#1' in e.kw else None))
        if p.status not in ('run', 'continue'):
            out.append(('status', p.status))
        return tuple(out)

    # loop A: per outcome
    la = _loop_over(f, 'outcomes')
    ctx.require_sites(R, 'OperatorIndexers.replace: loop over the outcomes of the indexing handlers', len(la), 1, f.loc())
    for lp in la[:1]:
        env = _bind_targets(lp, ['id', 'outcome'])
        idname = [k for k, v in env.items() if v.key == 'id'][0]
        paths = absint.analyse(repo, f, absint.Config(effect=eff, record_writes=True), stmts=lp.body, env=env)

        def recv_a(r: ast.AST) -> bool:
            return isinstance(r, ast.Subscript) and dotted(r.value) == 'self' and isinstance(r.slice, ast.Name) and r.slice.id == idname

        def spec_a(v):
            if not v['EXCNONE']:
                return (('discard', True, True, None),)
            if not v['RESNONE']:
                return (('replace', True, True, 'outcome.result'),)
            return ()
        table_check(ctx, R, f, paths, {'EXCNONE': r'^isnone\(outcome\.exception\)$', 'RESNONE': r'^isnone\(outcome\.result\)$'}, spec_a,
                    lambda p: obs(p, recv_a),
                    what='OperatorIndexers.replace, per executed handler (A.6): exception => discard the object\'s values; result not None => replace them '
                         'with the result; result None (also: ignored error) => untouched')
    # loop B: per indexer, purge for handlers that were not selected
    lb = _loop_over(f, 'self')
    ctx.require_sites(R, 'OperatorIndexers.replace: loop over all indexers (purge of the not selected ones)', len(lb), 1, f.loc())
    for lp in lb[:1]:
        env = _bind_targets(lp, ['id', 'indexer'])
        ixname = [k for k, v in env.items() if v.key == 'indexer'][0]
        paths = absint.analyse(repo, f, absint.Config(effect=eff, record_writes=True), stmts=lp.body, env=env)

        def recv_b(r: ast.AST) -> bool:
            return isinstance(r, ast.Name) and r.id == ixname

        def spec_b(v):
            return () if v['IN'] else (('discard', True, True, None),)
        table_check(ctx, R, f, paths, {'IN': r'^in\(id, outcomes\)$'}, spec_b, lambda p: obs(p, recv_b),
                    what='OperatorIndexers.replace, per indexer (A.6): a handler that was not selected for this object (no outcome) => discard the object\'s values; '
                         'otherwise untouched here')
    # nothing else in the function touches an index
    others = [c for c in calls_in(f.node) if isinstance(c.func, ast.Attribute) and c.func.attr in ('discard', 'replace', '_discard', '_replace', 'clear', 'pop')
              and not any(c in list(ast.walk(lp)) for lp in la[:1] + lb[:1])]
    ctx.ob(R, 'OperatorIndexers.replace: the indices are touched only inside the two per-handler loops', not others, loc=f.loc(others[0]) if others else f.loc(),
           construct=construct(f, 'confine:index writes in loops'), detail='; '.join(norm(c) for c in others[:3]))

    # OperatorIndexers.discard: all values of the object, from every indexer, unconditionally
    d = repo.fn(f'{IDX}.OperatorIndexers.discard')
    ctx.analysed(d)
    loops = _loop_over(d, 'self', ('items', 'values'))
    ok = False
    for lp in loops:
        names = [t.id for t in (lp.target.elts if isinstance(lp.target, ast.Tuple) else [lp.target]) if isinstance(t, ast.Name)]
        calls = [c for c in calls_in(lp) if method_call(c, 'discard') is not None and isinstance(c.func.value, ast.Name) and c.func.value.id in names]
        cond = any(isinstance(x, (ast.If, ast.Continue, ast.Break, ast.Return, ast.Try)) for s in lp.body for x in walk_no_defs(s))
        keyed = all(len(c.args) == 1 and isinstance(origin(d, c.args[0]), ast.Call) and method_call(origin(d, c.args[0]), 'make_key') is not None for c in calls)
        ok = ok or (bool(calls) and not cond and keyed)
    ctx.ob(R, 'OperatorIndexers.discard: the object is discarded from every indexer, unconditionally, under make_key(body)', ok, loc=d.loc(),
           construct=construct(d, 'flow:discard from all'))
    # OperatorIndexer.replace/discard forward to the index with the same key
    for meth, inner, nargs in (('discard', '_discard', 1), ('replace', '_replace', 2)):
        m = repo.fn(f'{IDX}.OperatorIndexer.{meth}')
        ctx.analysed(m)
        cs = [c for c in calls_in(m.node) if method_call(c, inner) is not None and dotted(method_call(c, inner)) == 'self.index']
        ok = len(cs) == 1 and len(cs[0].args) == nargs and dotted(cs[0].args[0]) == 'key'
        ctx.ob(R, f'OperatorIndexer.{meth}: forwards to its index ({inner}) with the same key', ok, loc=m.loc(), construct=construct(m, f'flow:{inner}(key)'))


def check_index_resource(ctx: Ctx) -> None:
    repo = ctx.repo
    R = 'R17.1'
    f = repo.fn(f'{IDX}.index_resource')
    ctx.analysed(f)
    for n in ('indexers', 'registry', 'raw_event', 'body'):
        param(f, n)

    def eff(it, p, call, names):
        r = None
        if isinstance(call.func, ast.Attribute):
            r = dotted(call.func.value)
        for n in names:
            if n.endswith('indexing.OperatorIndexers.discard') and r == 'indexers':
                return 'discard'
            if n.endswith('indexing.OperatorIndexers.replace') and r == 'indexers':
                return 'replace'
            if n.endswith('execution.execute_handlers_once'):
                return 'execute'
        if r == 'indexers' and isinstance(call.func, ast.Attribute) and call.func.attr not in ('make_key',):
            return 'indexers.' + call.func.attr
        return None
    paths = absint.analyse(repo, f, absint.Config(effect=eff, record_writes=False))

    def observe(p):
        out = []
        ex_key = None
        for e in p.trace:
            if e.label == 'execute':
                ex_key = e.key
                h = e.kw.get('handlers')
                de = e.kw.get('default_errors')
                out.append(('execute', h is not None and '._indexing.get_handlers(' in h.key, de is not None and de.key.endswith('ErrorsMode.IGNORED')))
            elif e.label == 'discard':
                b = e.kw.get('body') or e.kw.get('#0')
                out.append(('discard', b is not None and b.key == 'body'))
            elif e.label == 'replace':
                b = e.kw.get('body') or e.kw.get('#0')
                o = e.kw.get('outcomes') or e.kw.get('#1')
                out.append(('replace', b is not None and b.key == 'body', o is not None and o.key == ex_key))
            elif e.label.startswith('indexers.'):
                out.append((e.label,))
        if p.status not in ('run', 'return'):
            out.append(('status', p.status))
        return tuple(out)

    def spec(v):
        if not v['HAS']:
            return ()
        if v['DEL']:
            return (('discard', True),)
        return (('execute', True, True), ('replace', True, True))
    table_check(ctx, R, f, paths, {'HAS': r'^truthy\(registry\._indexing\.has_handlers\(', 'DEL': r"^eq\(raw_event\['type'\], 'DELETED'\)$"}, spec, observe,
                what='index_resource (A.6): no index handlers for the resource => nothing; DELETED => discard the object; otherwise the selected index handlers '
                     'run once (errors mode IGNORED) and their outcomes are applied with replace()')


# ====================================================================== R17.2 who may write the indices
MUTATORS = {
    'Store': ('_discard', '_replace'),
    'Index': ('_discard', '_replace'),
    'OperatorIndexer': ('discard', 'replace'),
    'OperatorIndexers': ('discard', 'replace'),
}
READONLY_DUNDERS = {'__init__', '__len__', '__iter__', '__getitem__', '__contains__', '__repr__', '__bool__', '__eq__', '__hash__'}


def check_confine(ctx: Ctx) -> None:
    repo = ctx.repo
    R = 'R17.2'
    idx_mod = repo.module(IDX)
    # one pass over the package: calls by method name, resolved only for those (typed receivers exactly, untyped ones by name)
    wanted = {m for ms in MUTATORS.values() for m in ms}
    cand = []
    for fn in repo.all_functions():
        for c in calls_in(fn.node):
            if isinstance(c.func, ast.Attribute) and c.func.attr in wanted:
                cand.append((fn, c, repo.callees(fn, c)))
    n_sites = 0
    for cls, meths in MUTATORS.items():
        for meth in meths:
            target = repo.fn(f'{IDX}.{cls}.{meth}').qualname
            private = meth.startswith('_')
            sites = [(fn, c) for fn, c, cal in cand if target in cal or ('?' + target in cal and (private or fn.module is idx_mod))]
            n_sites += len(sites)
            bad = [(fn, c) for fn, c in sites if fn.module is not idx_mod]
            ctx.ob(R, f'{cls}.{meth} (index mutator) is called only from engines/indexing.py ({len(sites)} call sites'
                   + ('; untyped receivers counted by method name' if private else '; untyped receivers counted inside indexing.py') + ')', not bad,
                   loc=bad[0][0].loc(bad[0][1]) if bad else idx_mod.relpath(), construct=f'{IDX}:confine:{cls}.{meth}',
                   detail='; '.join(f'{fn.short}:{norm(c, 60)}' for fn, c in bad[:4]))
    ctx.require_sites(R, 'call sites of the index mutators', n_sites, 9)
    # holders of a read-write indexer outside indexing.py use it only to read `.indices`, to pass it on, or to pre-create (ensure)
    rw = {f'{IDX}.OperatorIndexers', f'{IDX}.OperatorIndexer', f'{IDX}.Index', f'{IDX}.Store'}
    allowed_attrs = {'indices', 'ensure', 'make_key'}
    holders = 0
    for fn in repo.all_functions():
        if fn.module is idx_mod:
            continue
        types = repo.local_types(fn)
        names = {n for n, t in types.items() if t in rw}
        if not names:
            continue
        holders += 1
        bad = []
        for x in walk_no_defs(fn.node):
            if isinstance(x, ast.Attribute) and isinstance(x.value, ast.Name) and x.value.id in names and x.attr not in allowed_attrs:
                bad.append(x)
            if isinstance(x, (ast.Subscript,)) and isinstance(x.value, ast.Name) and x.value.id in names and isinstance(x.ctx, (ast.Store, ast.Del)):
                bad.append(x)
        ctx.ob(R, f'{fn.short}: holds the read-write indexers but only reads `.indices` / passes them on / pre-creates empty indices', not bad,
               loc=fn.loc(bad[0]) if bad else fn.loc(), construct=construct(fn, 'confine:indexers read-only use'), detail='; '.join(norm(b, 50) for b in bad[:3]))
    ctx.require_sites(R, 'functions outside indexing.py that hold the read-write indexers', holders, 3)
    # whatever reaches a cause (and thereby the handlers' kwargs) is the read-only view
    n_ind = 0
    for fn in repo.all_functions():
        types = None
        for c in calls_in(fn.node):
            v = kwarg(c, 'indices')
            if v is None:
                continue
            n_ind += 1
            types = types if types is not None else repo.local_types(fn)
            t = repo.type_of(fn, v)
            is_rw = t in rw
            ok = not is_rw and (t is None or t.endswith('.OperatorIndices') or t.endswith('ephemera.Indices') or t.endswith('.Indices'))
            ctx.ob(R, f'{fn.short}: `indices=` receives the read-only view (never the indexers)', ok, loc=fn.loc(c), construct=construct(fn, f'flow:indices={norm(v, 40)}'),
                   detail=f'type {t}')
    ctx.require_sites(R, '`indices=` arguments (causes, activities, admission)', n_ind, 8)
    view = repo.cls(f'{IDX}.OperatorIndices')
    extra = sorted(set(view.methods) - READONLY_DUNDERS)
    ctx.ob(R, 'OperatorIndices (what handlers get) offers only the read-only mapping protocol', not extra, loc=view.module.relpath(),
           construct=f'{IDX}.OperatorIndices:confine:read-only methods', detail=', '.join(extra))
    st = repo.fn('running.spawn_tasks')
    ens = [c for c in calls_in(st.node) if method_call(c, 'ensure') is not None and is_call_to(repo, st, c, f'{IDX}.OperatorIndexers.ensure')]
    ctx.ob(R, 'spawn_tasks: empty indices are pre-created for all index handlers (handlers may look them up from the start)', len(ens) == 1, loc=st.loc(),
           construct=construct(st, 'config:indexers.ensure'))


# ====================================================================== R17.3 the start-up gate
def _is_drop(repo, f, x: ast.AST, setname: str, toggle: Optional[str] = None) -> bool:
    r = method_call(x, 'drop_toggle')
    if r is None or dotted(r) is None or not (dotted(r) == setname or dotted(r).endswith('.' + setname)):
        return False
    if not is_call_to(repo, f, x, 'aiotoggles.ToggleSet.drop_toggle'):
        return False
    return toggle is None or (len(x.args) == 1 and dotted(x.args[0]) == toggle)


def _is_make(repo, f, x: ast.AST, setname: str) -> bool:
    r = method_call(x, 'make_toggle')
    return r is not None and dotted(r) is not None and (dotted(r) == setname or dotted(r).endswith('.' + setname)) \
        and is_call_to(repo, f, x, 'aiotoggles.ToggleSet.make_toggle')


def check_gate(ctx: Ctx) -> None:
    repo = ctx.repo
    R = 'R17.3'
    f, g = cfg_of(ctx, 'processing.process_resource_event')
    for n in GATE:
        param(f, n)
    causes = g.call_nodes('processing.process_resource_causes')
    index = g.call_nodes(f'{IDX}.index_resource')
    drops = g.stmt_nodes(lambda x: _is_drop(repo, f, x, 'operator_indexed', 'resource_indexed'))
    waits = g.stmt_nodes(lambda x: isinstance(x, ast.Call) and method_call(x, 'wait_for') is not None and dotted(method_call(x, 'wait_for')) == 'operator_indexed'
                         and is_call_to(repo, f, x, 'aiotoggles.ToggleSet.wait_for') and len(x.args) == 1 and isinstance(x.args[0], ast.Constant) and x.args[0].value is True)
    ctx.require_sites(R, 'process_resource_event: handling of the causes', len(causes), 1, f.loc())
    ctx.require_sites(R, 'process_resource_event: indexing of the event', len(index), 1, f.loc())
    ctx.require_sites(R, 'process_resource_event: drop of the own readiness toggle', len(drops), 1, f.loc())
    ctx.require_sites(R, 'process_resource_event: wait for the whole operator to be indexed', len(waits), 1, f.loc())
    nn_both = nonnull_edges(g, *GATE)
    nn_set = nonnull_edges(g, 'operator_indexed')
    ctx.ob(R, 'process_resource_event: handlers/daemons/timers (process_resource_causes) start only after operator_indexed.wait_for(True) (whenever the gate exists)',
           bool(waits) and not g.dominated(causes, waits, edge_ok=nn_set), loc=f.loc(causes[0].stmt) if causes else f.loc(),
           construct=construct(f, 'dom:wait_for(True)<process_resource_causes'))
    ctx.ob(R, 'process_resource_event: the own toggle is dropped before waiting for the others (no self-deadlock)',
           bool(drops) and not g.dominated(waits, drops, edge_ok=nn_both) and not any(w in g.reach([d]) and d in g.reach([w]) for w in waits for d in drops),
           loc=f.loc(), construct=construct(f, 'dom:drop_toggle(own)<wait_for(True)'))
    ctx.ob(R, 'process_resource_event: the own toggle is dropped only after the event was indexed (index_resource returned normally)',
           bool(index) and not g.dominated(drops, index, edge_ok=nn_both)
           and not any(d in g.reach([t for k, t in i.exc_edges.items()]) for i in index for d in drops),
           loc=f.loc(), construct=construct(f, 'dom:index_resource<drop_toggle(own)'))

    # watcher: per-kind toggle dropped inside the stream loop only at LISTED; per-object toggle made before the worker is spawned and handed to it
    w, wg = cfg_of(ctx, 'queueing.watcher')
    for n in GATE:
        param(w, n)
    loops = [n for n in walk_no_defs(w.node) if isinstance(n, ast.AsyncFor)]
    if len(loops) != 1:
        raise AnalysisError(f'{w.loc()}: expected one `async for` over the watch stream in watcher')
    loop = loops[0]
    var = loop.target.id if isinstance(loop.target, ast.Name) else None
    from ..rules import loop_nodes
    inside = loop_nodes(wg, loop)
    wdrops = wg.stmt_nodes(lambda x: _is_drop(repo, w, x, 'operator_indexed', 'resource_indexed'))
    in_loop = [d for d in wdrops if d in inside]
    ctx.require_sites(R, 'watcher: drop of the per-kind toggle inside the stream loop', len(in_loop), 1, w.loc())

    def is_listed(e: ast.AST, o: bool) -> bool:
        return isinstance(e, ast.Compare) and len(e.ops) == 1 and isinstance(e.ops[0], (ast.Is, ast.Eq)) and o is True and dotted(e.left) == var \
            and (repo.resolve(w.module, e.comparators[0]) or '').endswith('watching.Bookmark.LISTED')
    for d in in_loop:
        conds = dominating_conditions(wg, d)
        ctx.ob(R, 'watcher: while streaming, the per-kind toggle is dropped only at the end of the initial listing (Bookmark.LISTED)',
               any(cond_implies(t, o, is_listed) and b in inside for t, o, b in conds), loc=w.loc(d.stmt), construct=construct(w, 'guard:drop at LISTED'))
    spawn = [n for n in wg.stmt_nodes(lambda x: isinstance(x, ast.Call) and is_call_to(repo, w, x, 'queueing.worker'))]
    makes = wg.stmt_nodes(lambda x: _is_make(repo, w, x, 'operator_indexed'))
    ctx.require_sites(R, 'watcher: creation of the per-object toggle', len(makes), 1, w.loc())
    ctx.require_sites(R, 'watcher: creation of the worker', len(spawn), 1, w.loc())
    for sn in spawn:
        call = [c for c in calls_in(sn.stmt) if is_call_to(repo, w, c, 'queueing.worker')][0]
        tv = kwarg(call, 'resource_indexed')
        sv = kwarg(call, 'operator_indexed')
        defs = [n for n in walk_no_defs(w.node) if isinstance(tv, ast.Name) and isinstance(n, (ast.Assign, ast.AnnAssign))
                and any(isinstance(t, ast.Name) and t.id == tv.id for t in (n.targets if isinstance(n, ast.Assign) else [n.target]))]
        vals = [n.value for n in defs]
        from_make = [v for v in vals if isinstance(v, ast.Await) and isinstance(v.value, ast.Call) and _is_make(repo, w, v.value, 'operator_indexed')]
        rest = [v for v in vals if v not in from_make]
        ok = isinstance(tv, ast.Name) and len(from_make) == 1 and all(isinstance(v, ast.Constant) and v.value is None for v in rest) and dotted(sv) == 'operator_indexed'
        ctx.ob(R, 'watcher: the worker owns a per-object toggle made on operator_indexed for it (or none), together with the set', ok, loc=w.loc(call),
               construct=construct(w, 'flow:make_toggle->worker(resource_indexed=)'), detail=f'resource_indexed={norm(tv)}')
        head = [n for n in wg.nodes if n.kind == 'loop' and n.stmt is loop]
        before = all(sn in wg.reach([m], stop=lambda n: n in head) for m in makes) and not any(m in wg.reach([sn], stop=lambda n: n in head) for m in makes)
        ctx.ob(R, 'watcher: the per-object toggle is made strictly before its worker is spawned (the processor cannot be late)', before and bool(makes), loc=w.loc(sn.stmt),
               construct=construct(w, 'order:make_toggle<spawn(worker)'))
    # the gate itself: all toggles must be gone/on
    orch = repo.fn('orchestration.orchestrator')
    ctx.analysed(orch)
    ens = [c for c in calls_in(orch.node) if is_call_to(repo, orch, c, 'orchestration.Ensemble')]
    ctx.require_sites(R, 'orchestrator: Ensemble construction', len(ens), 1, orch.loc())
    for c in ens:
        v = kwarg(c, 'operator_indexed')
        ok = isinstance(v, ast.Call) and is_call_to(repo, orch, v, 'aiotoggles.ToggleSet') and len(v.args) == 1 and dotted(v.args[0]) == 'all'
        ctx.ob(R, 'orchestrator: operator_indexed is a ToggleSet(all): ready only when every readiness toggle is gone', ok, loc=orch.loc(c),
               construct=construct(orch, 'config:operator_indexed=ToggleSet(all)'), detail=norm(v))
    # readiness toggles start "off" (blocking)
    n_mk = 0
    for fn in repo.all_functions():
        for c in calls_in(fn.node):
            if _is_make(repo, fn, c, 'operator_indexed'):
                n_mk += 1
                ctx.ob(R, f'{fn.short}: a readiness toggle is created in the blocking state (no initial value)', not c.args and kwarg(c, '__val') is None, loc=fn.loc(c),
                       construct=construct(fn, f'config:make_toggle(off):{norm(kwarg(c, "name"), 30)}'))
    ctx.require_sites(R, 'make_toggle on operator_indexed', n_mk, 3)

    # spawn_missing_watchers: a global blocker is held across the creation of the per-kind toggles (NORMAL exits only: DESIGN §6.3)
    s, sg = cfg_of(ctx, 'orchestration.spawn_missing_watchers')
    smakes = sg.stmt_nodes(lambda x: _is_make(repo, s, x, 'operator_indexed'))
    sdrops = sg.stmt_nodes(lambda x: _is_drop(repo, s, x, 'operator_indexed'))
    dropped = {dotted(c.args[0]) for n in sdrops for c in calls_in(n.stmt) if _is_drop(repo, s, c, 'operator_indexed') and c.args}

    def target_of(n) -> Optional[str]:
        st = n.stmt
        if isinstance(st, ast.Assign) and len(st.targets) == 1 and isinstance(st.targets[0], ast.Name):
            return st.targets[0].id
        if isinstance(st, ast.AnnAssign) and isinstance(st.target, ast.Name):
            return st.target.id
        return None
    blocker = [m for m in smakes if target_of(m) in dropped]
    perkind = [m for m in smakes if m not in blocker]
    ctx.require_sites(R, 'spawn_missing_watchers: the global blocker toggle', len(blocker), 1, s.loc())
    ctx.require_sites(R, 'spawn_missing_watchers: the per-kind toggles', len(perkind), 1, s.loc())
    ctx.ob(R, 'spawn_missing_watchers: every per-kind toggle is created while the global blocker is held (made before, dropped after)',
           bool(blocker) and not sg.dominated(perkind, blocker) and not any(m in sg.reach(sdrops) for m in perkind), loc=s.loc(),
           construct=construct(s, 'dom:blocker<per-kind toggles<drop'))
    esc = sg.escaping_exits(blocker, sdrops, classes=('normal',))
    ctx.ob(R, 'spawn_missing_watchers: the global blocker is dropped on every normal exit', not esc and bool(sdrops), loc=s.loc(),
           construct=construct(s, 'pair:blocker (normal exits)'), detail='; '.join(witness(sg, blocker, e, sdrops) for e in esc[:1]))
    for m in perkind:
        tv = target_of(m)
        ws = [c for c in ast.walk(s.node) if isinstance(c, ast.Call) and is_call_to(repo, s, c, 'queueing.watcher')]
        ok = bool(ws) and all(dotted(kwarg(c, 'resource_indexed')) == tv and (dotted(kwarg(c, 'operator_indexed')) or '').endswith('operator_indexed') for c in ws)
        ctx.ob(R, 'spawn_missing_watchers: the per-kind toggle and the set are handed to the watcher of that kind (its owner)', ok, loc=s.loc(m.stmt),
               construct=construct(s, 'flow:per-kind toggle->watcher'))


# ====================================================================== R17.4 toggles are released on all exits of their owner
def check_release(ctx: Ctx, ref: str, what: str) -> None:
    repo = ctx.repo
    R = 'R17.4'
    f, g = cfg_of(ctx, ref)
    for n in GATE:
        param(f, n)
    rel = g.stmt_nodes(lambda x: _is_drop(repo, f, x, 'operator_indexed', 'resource_indexed'))
    ctx.require_sites(R, f'{f.name}: release of its readiness toggle', len(rel), 1, f.loc())
    # the protected block: the try whose finally releases
    tries = [t for t in walk_no_defs(f.node) if isinstance(t, ast.Try) and any(_is_drop(repo, f, c, 'operator_indexed', 'resource_indexed') for s in t.finalbody for c in calls_in(s))]
    ctx.ob(R, f'{f.name}: the {what} toggle is released in a `finally` (exceptions and cancellation included)', len(tries) >= 1, loc=f.loc(),
           construct=construct(f, 'pair:release in finally'))
    if not tries:
        return
    t = tries[0]
    first = t.body[0]
    while isinstance(first, ast.Try):          # a nested try (e.g. the `except Exception: log; raise` layer): its first statement is the entry
        first = first.body[0]
    starts = [n for n in g.nodes if n.stmt is first and not n.in_finally and n.kind not in ('branch', 'join')]
    if not starts:
        raise AnalysisError(f'{f.loc(t)}: cannot locate the entry of the protected block of {f.short}')
    ek = both(nonnull_edges(g, *GATE), cleanup_is_total)
    esc = g.escaping_exits(starts, rel, edge_ok=ek)
    ctx.ob(R, f'{f.name}: once its work has begun, EVERY exit (normal, exception, cancellation) passes operator_indexed.drop_toggle(resource_indexed) [{what} toggle]',
           not esc, loc=f.loc(), construct=construct(f, 'pair:drop_toggle on all exits'),
           detail='; '.join(f'{e.label} exit via {witness(g, starts, e, rel, edge_ok=ek)}' for e in esc[:2]))
    pre = g.reach([g.entry], stop=lambda n: n in set(starts))
    susp = [n for n in pre if n.suspends and n not in starts and not n.in_finally and not any(n in g.reach([s]) for s in starts)]
    ctx.ob(R, f'{f.name}: nothing can suspend (be cancelled) before the protected block is entered', not susp, loc=f.loc(susp[0].stmt) if susp else f.loc(),
           construct=construct(f, 'atomic:entry->try'), detail='; '.join(n.label[:50] for n in susp[:3]))
    # the nullness assumption is flow-insensitive: the handles may only be forgotten when the gate is already open
    for n in walk_no_defs(f.node):
        tg = n.targets if isinstance(n, ast.Assign) else [n.target] if isinstance(n, (ast.AnnAssign, ast.AugAssign)) else []
        for x in tg:
            if isinstance(x, ast.Name) and x.id in GATE:
                node = [m for m in g.nodes if m.stmt is n and m.kind == 'stmt']
                val = getattr(n, 'value', None)

                def is_open(e: ast.AST, o: bool) -> bool:
                    r = method_call(e, 'is_on')
                    return r is not None and dotted(r) == 'operator_indexed' and o is True
                ok = isinstance(val, ast.Constant) and val.value is None and x.id == 'operator_indexed' \
                    and all(any(cond_implies(tt, o, is_open) for tt, o, _ in dominating_conditions(g, m)) for m in node) and bool(node)
                ctx.ob(R, f'{f.name}: the toggle set is forgotten (`{x.id} = None`) only when it is already fully on (then the own toggle is not in it any more)', ok,
                       loc=f.loc(n), construct=construct(f, f'guard:forget {x.id}'), detail=norm(n))


def check(ctx: Ctx) -> None:
    check_replace(ctx)
    check_index_resource(ctx)
    check_confine(ctx)
    check_gate(ctx)
    check_release(ctx, 'queueing.worker', 'per-object')
    check_release(ctx, 'queueing.watcher', 'per-kind')
    from . import _extra
    _extra.check_index_alias(ctx, 'R17.5')


SPEC = PropSpec(
    id='C17',
    title='In-memory indices mirror the cluster; handling waits for the initial index',
    technique='static analysis: decision tables of the index update by path enumeration (TABLE), who-may-call/who-may-hold the index mutators (CONFINE), '
              'dominance of the start-up gate under "None for tests" nullness assumptions (DOM), release of readiness toggles on all exits of their owner on the '
              'CFG with cancellation/exception edges (PAIR)',
    level_text='Static analysis of the current source: decides (R17.1) the per-handler table of OperatorIndexers.replace (exception => discard, result => replace, '
               'None => keep, not selected => discard) and of index_resource (DELETED => discard; otherwise run the selected handlers once in IGNORED mode and apply); '
               '(R17.2) that the index/store mutators are called only inside engines/indexing.py and that everything handed to causes/handlers is the read-only view; '
               '(R17.3) that process_resource_causes is dominated by index_resource -> drop of the own toggle -> operator_indexed.wait_for(True), the per-kind toggle is '
               'dropped in the stream only at LISTED, per-object toggles are made before their worker, a global blocker spans the creation of the per-kind toggles, the '
               'set is ToggleSet(all); (R17.4) that worker and watcher drop their toggle on every exit. Equality of the index contents with a reference map over '
               'histories is NOT decided.',
    level_note='values are opaque; Index._replace/_discard internals (forward/reverse map consistency) are not analysed; optional parameters are taken as not None '
               '("None for tests"); a failing clean-up statement inside a finally is outside the PAIR clause; DESIGN.md §3',
    design_ref='DESIGN.md §4 C17, Appendix A.6',
    explanation='TABLE over one iteration of each loop of OperatorIndexers.replace and over index_resource; CONFINE over the package (call sites, typed holders, '
                '`indices=` arguments, methods of the view); DOM/ORDER/GUARD on process_resource_event, queueing.watcher, orchestration.spawn_missing_watchers; PAIR on '
                'queueing.worker and queueing.watcher.',
    not_decided='index contents vs. a reference model over histories (key collisions, re-keying); the hand-over window between make_toggle and the start of the worker '
                'when the watcher is cancelled with a saturated scheduler.',
    check=check,
)
