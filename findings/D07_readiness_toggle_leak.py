"""
D7 (C17/C12): the per-object readiness toggle that queueing.watcher creates for a first-seen
object is dropped only on the success path of process_resource_event (after index_resource).
If that first processing fails before the drop (here: a filter callback of an index handler
raises for object "a"; the error is swallowed by the per-object throttler as designed), the
toggle stays in operator_indexed; the worker of "a" retires without dropping it; and every
other object waits at `operator_indexed.wait_for(True)` forever. (The per-kind toggle leaks the
same way when a watcher is terminated before its LISTED bookmark.)

The real queueing.worker and the real processing.process_resource_event are driven here exactly
as queueing.watcher does for two first-seen objects "a" and "b".
Run: /venv/bin/python D07_readiness_toggle_leak.py
"""
import asyncio, functools, logging
import kopf
from kopf._core.reactor import processing, inventory, queueing
from kopf._core.engines import indexing
from kopf._core.intents import registries
from kopf._core.actions import lifecycles
from kopf._cogs.structs import references, ephemera
from kopf._cogs.configs import configuration
from kopf._cogs.aiokits import aiotoggles
logging.disable(logging.CRITICAL)
registry = registries.OperatorRegistry()
calls = []

def flaky_when(name, **_):
    if name == 'a':
        raise RuntimeError("unexpected error in a filter callback for object a")
    return True

@kopf.index('g', 'v1', 'plural', registry=registry, when=flaky_when)
def idx(name, **_): return {name: 1}

@kopf.on.create('g', 'v1', 'plural', registry=registry)
def created(name, **_): calls.append(name)

def body(n):
    return {'apiVersion': 'g/v1', 'kind': 'K', 'spec': {},
            'metadata': {'name': n, 'namespace': 'ns', 'uid': 'u' + n, 'resourceVersion': '1'}}

async def main():
    settings = configuration.OperatorSettings()
    settings.queueing.error_delays = [0.01]; settings.queueing.idle_timeout = 0.2
    resource = references.Resource('g', 'v1', 'plural', namespaced=True)
    indexers = indexing.OperatorIndexers(); indexers.ensure(registry._indexing.get_all_handlers())
    operator_indexed = aiotoggles.ToggleSet(all)
    processor = functools.partial(processing.process_resource_event,
        lifecycle=lifecycles.all_at_once, registry=registry, settings=settings,
        memories=inventory.ResourceMemories(), memobase=ephemera.Memo(), resource=resource,
        indexers=indexers, event_queue=asyncio.Queue())
    streams = {}; signaller = asyncio.Condition(); workers = {}
    for n in ('a', 'b'):   # as queueing.watcher does for every first-seen object during the initial listing
        key = (resource, queueing.ObjectUid('u' + n))
        toggle = await operator_indexed.make_toggle(name=n)
        streams[key] = queueing.Stream(backlog=asyncio.Queue(), pressure=asyncio.Event())
        await streams[key].backlog.put({'type': None, 'object': body(n)})
        workers[n] = asyncio.create_task(queueing.worker(signaller=signaller, settings=settings, processor=processor,
            resource_indexed=toggle, operator_indexed=operator_indexed, streams=streams, key=key))
    await asyncio.sleep(3)
    print('worker of a retired:', workers['a'].done(), '| readiness toggles still held:', [t.name for t in operator_indexed])
    if calls == ['b']:
        print('object b was handled; create handler calls:', calls)
    else:
        print('object b is STUCK behind the readiness gate (worker of b done: %s); create handler calls: %s' % (workers['b'].done(), calls))
    for w in workers.values(): w.cancel()
asyncio.run(main())
