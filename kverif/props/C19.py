"""C19 -- watch coverage and continuity under reconnects, 410s, pauses and cluster changes (DESIGN.md §4, R19.1-R19.4)."""
from __future__ import annotations

import ast
import re
from typing import Optional

from .. import absint
from ..core import Ctx, PropSpec
from ..rules import (calls_in, cfg_of, cond_implies, construct, dominating_conditions, is_call_to, kwarg,
                     method_call, norm, origin, table_check)
from ..srcmodel import AnalysisError, dotted, src, walk_no_defs

W = 'kopf._cogs.clients.watching'
F = 'kopf._cogs.clients.fetching'
API = 'kopf._cogs.clients.api'
ERR = 'kopf._cogs.clients.errors'
O = 'kopf._core.reactor.orchestration'
Q = 'kopf._core.reactor.queueing'
OBS = 'kopf._core.reactor.observation'
TASK_MAPS = ('watcher_tasks', 'peering_tasks', 'pinging_tasks')
SUPPORTED = ('ADDED', 'MODIFIED', 'DELETED', 'BOOKMARK')
LISTED = f'{W}.Bookmark.LISTED'


def short(c: Optional[str]) -> str:
    return (c or '?').rsplit('.', 1)[-1]


def _within(f, node: ast.AST, container: ast.AST) -> bool:
    p = node
    while p is not None and p is not f.node:
        if p is container:
            return True
        p = f.module.parent.get(p)
    return False


def _enclosing(f, node: ast.AST, kinds) -> list:
    out = []
    p = f.module.parent.get(node)
    while p is not None and p is not f.node:
        if isinstance(p, kinds):
            out.append(p)
        p = f.module.parent.get(p)
    return out


_index_cache: dict = {}


def call_index(ctx: Ctx) -> dict:
    """callee -> [(function, call)] over the whole package, computed once per run (Repo.call_sites_of rescans the
    package on every query)."""
    key = id(ctx.repo)
    if key not in _index_cache:
        idx: dict = {}
        for fn in ctx.repo.all_functions():
            for c in ctx.repo.calls_in(fn):
                for cal in ctx.repo.callees(fn, c):
                    idx.setdefault(cal.lstrip('?'), []).append((fn, c))
        _index_cache.clear()
        _index_cache[key] = idx
    return _index_cache[key]


def confine(ctx: Ctx, rule: str, target: str, allowed: list, *, what: str, minimum: int = 1) -> list:
    """CONFINE: every call site of ``target`` (over-approximate resolution) lies in one of the allowed functions."""
    sites = call_index(ctx).get(ctx.repo._qual(target), [])
    ctx.require_sites(rule, what, len(sites), minimum)
    allowed_q = [ctx.repo._qual(a) for a in allowed]
    for fn, c in sites:
        ok = any(fn.qualname == a or fn.qualname.startswith(a + '.') for a in allowed_q)
        ctx.ob(rule, f'{what}: the call in {fn.short}', ok, loc=fn.loc(c), construct=f'{fn.qualname}:call:{target}')
    return sites


def _param(f, name: str) -> str:
    if not any(a.arg == name for a in f.params()):
        raise AnalysisError(f'{f.loc()}: {f.short} has no `{name}` parameter')
    return name


# ====================================================================================== R19.1 one watcher per key
def _map_store(node: ast.AST) -> Optional[tuple[str, str, ast.AST]]:
    """(map attribute, key source, value) of `<x>.<tasks map>[key] = value`."""
    if isinstance(node, ast.Assign):
        for t in node.targets:
            if isinstance(t, ast.Subscript) and isinstance(t.value, ast.Attribute) and t.value.attr in TASK_MAPS:
                return t.value.attr, src(t.slice), node.value
    return None


def check_orchestration(ctx: Ctx) -> None:
    repo = ctx.repo
    n_spawn = 0
    for fname, coros in (('spawn_missing_watchers', (f'{Q}.watcher',)), ('spawn_missing_peerings', (f'{Q}.watcher', 'kopf._core.engines.peering.keepalive'))):
        f, g = cfg_of(ctx, f'{O}.{fname}')
        stores = [(n, _map_store(n.stmt)) for n in g.stmt_nodes(lambda x: _map_store(x) is not None, kinds={'stmt'}) if _map_store(n.stmt)]
        ctx.require_sites('R19.1', f'{fname}: task stored into the ensemble', len(stores), 1 if fname.endswith('watchers') else 2, f.loc())
        # which (map, key) pairs are tested by a dominating `key not in <map>`
        guards: dict = {}
        for n, (m, k, v) in stores:
            conds = dominating_conditions(g, n)

            def absent(e: ast.AST, o: bool, _k=k) -> Optional[str]:
                if isinstance(e, ast.Compare) and len(e.ops) == 1 and isinstance(e.ops[0], ast.In) and o is False and src(e.left) == _k \
                        and isinstance(e.comparators[0], ast.Attribute) and e.comparators[0].attr in TASK_MAPS:
                    return e.comparators[0].attr
                return None
            found = set()
            for t, o, bn in conds:
                hit: list = []
                cond_implies(t, o, lambda e, oo: bool(hit.append(absent(e, oo)) or hit[-1]))
                found |= {(h, bn.id) for h in hit if h}
            guards[n] = found
        for n, (m, k, v) in stores:
            own = any(gm == m for gm, _ in guards[n])
            # sibling maps filled together under one and the same test (keep-alive + observer of one peering)
            co = any(any(gm == m2 and (gm, b) in guards[n] for gm, b in guards[n2]) for n2, (m2, _, _) in stores if n2 is not n and m2 != m)
            ctx.ob('R19.1', f'{fname}: a task is stored into ensemble.{m}[{k}] only under `{k} not in ensemble.<tasks>` (the same key, the same or a jointly-filled map)',
                   own or co, loc=f.loc(n.stmt), construct=construct(f, f'guard:{m}'), detail='' if own or co else 'no dominating absence test for this key')
        # CONFINE: streaming coroutines are created only as the stored value of such a guarded store
        for c in calls_in(f.node):
            if is_call_to(repo, f, c, *coros):
                n_spawn += 1
                holder = [n for n, (m, k, v) in stores if any(x is c for x in ast.walk(origin(f, v)))]
                ctx.ob('R19.1', f'{fname}: `{norm(c.func)}(...)` is created only as the task stored under its ensemble key', bool(holder), loc=f.loc(c),
                       construct=construct(f, f'confine:spawn:{short(sorted(repo.callee_names(f, c))[0])}'))
    ctx.count('spawn_sites', n_spawn)
    # no other function of the orchestration creates watchers
    for fn, c in call_index(ctx).get(f'{Q}.watcher', []):
        if fn.module.name == O:
            ctx.ob('R19.1', f'orchestration: queueing.watcher is spawned only by spawn_missing_watchers/spawn_missing_peerings (found in {fn.name})',
                   fn.name in ('spawn_missing_watchers', 'spawn_missing_peerings'), loc=fn.loc(c), construct=f'{fn.qualname}:confine:watcher')

    # ORDER: terminate_redundancies precedes the spawns
    f, g = cfg_of(ctx, f'{O}.adjust_tasks')
    term = g.call_nodes(f'{O}.terminate_redundancies')
    ctx.require_sites('R19.1', 'adjust_tasks: termination of redundant tasks', len(term), 1, f.loc())
    for callee in ('spawn_missing_peerings', 'spawn_missing_watchers'):
        sp = g.call_nodes(f'{O}.{callee}')
        ctx.require_sites('R19.1', f'adjust_tasks: {callee}', len(sp), 1, f.loc())
        nd = g.dominated(sp, term)
        ctx.ob('R19.1', f'adjust_tasks: terminate_redundancies precedes {callee} on every path (stop first, start later)', bool(sp) and not nd,
               loc=f.loc(sp[0].stmt) if sp else f.loc(), construct=construct(f, f'order:terminate<{callee}'))
    confine(ctx, 'R19.1', f'{O}.adjust_tasks', [f'{O}.orchestrator'], what='adjust_tasks has a single caller (the orchestrator loop)')

    # ORDER: keys are deleted only after their tasks were stopped
    f, g = cfg_of(ctx, f'{O}.terminate_redundancies')
    dels = g.call_nodes(f'{O}.Ensemble.del_keys')
    stops = g.call_nodes('kopf._cogs.aiokits.aiotasks.stop')
    ctx.require_sites('R19.1', 'terminate_redundancies: deletion of the redundant keys', len(dels), 1, f.loc())
    for d in dels:
        nd = g.dominated([d], stops)
        dc = [c for c in calls_in(d.stmt) if is_call_to(repo, f, c, f'{O}.Ensemble.del_keys')][0]
        keys = src(dc.args[0]) if dc.args else src(kwarg(dc, 'keys'))
        same = False
        for sn in stops:
            for sc in calls_in(sn.stmt):
                if is_call_to(repo, f, sc, 'kopf._cogs.aiokits.aiotasks.stop') and sc.args:
                    tasks = origin(f, sc.args[0])
                    if isinstance(tasks, ast.Call) and is_call_to(repo, f, tasks, f'{O}.Ensemble.get_tasks') and tasks.args and src(tasks.args[0]) == keys:
                        same = isinstance(f.module.parent.get(sc), ast.Await)
        ctx.ob('R19.1', 'terminate_redundancies: the keys are deleted only after `await aiotasks.stop(...)` of exactly the tasks of those keys',
               bool(stops) and not nd and same, loc=f.loc(d.stmt), construct=construct(f, 'order:stop<del_keys'),
               detail='' if same else 'the stopped tasks are not ensemble.get_tasks(<the deleted keys>)')
    confine(ctx, 'R19.1', f'{O}.Ensemble.del_keys', [f'{O}.terminate_redundancies'], what='Ensemble.del_keys is called only by terminate_redundancies')
    # nobody else removes entries of the task maps
    rogue = []
    for fn in repo.all_functions():
        if fn.cls is not None and fn.cls.qualname == f'{O}.Ensemble':
            continue
        for n in walk_no_defs(fn.node):
            if isinstance(n, ast.Delete) and any(isinstance(t, ast.Subscript) and isinstance(t.value, ast.Attribute) and t.value.attr in TASK_MAPS for t in n.targets):
                rogue.append((fn, n))
            elif isinstance(n, ast.Call) and isinstance(n.func, ast.Attribute) and n.func.attr in ('pop', 'popitem', 'clear') \
                    and isinstance(n.func.value, ast.Attribute) and n.func.value.attr in TASK_MAPS:
                rogue.append((fn, n))
    ctx.ob('R19.1', 'the ensemble task maps lose entries only through Ensemble.del_keys', not rogue, loc=rogue[0][0].loc(rogue[0][1]) if rogue else '',
           construct=f'{O}:confine:task-map-removal', detail='; '.join(f'{fn.short}:L{n.lineno}' for fn, n in rogue[:3]))


# ====================================================================================== R19.2 / R19.4 the stream arm
def _stream_loop(ctx: Ctx, f):
    """(watch_objs call, the loop iterating its result, the enclosing `while`) of continuous_watch."""
    repo = ctx.repo
    wcalls = [c for c in calls_in(f.node) if is_call_to(repo, f, c, f'{W}.watch_objs')]
    if len(wcalls) != 1:
        raise AnalysisError(f'{f.loc()}: expected exactly one call of watch_objs in {f.short}, found {len(wcalls)}')
    loops = [n for n in walk_no_defs(f.node) if isinstance(n, (ast.AsyncFor, ast.For))
             and any(x is wcalls[0] for x in ast.walk(origin(f, n.iter)))]
    if len(loops) != 1 or not isinstance(loops[0].target, ast.Name):
        raise AnalysisError(f'{f.loc()}: expected exactly one loop over the watch_objs stream in {f.short}')
    return wcalls[0], loops[0]


def check_stream(ctx: Ctx) -> None:
    repo = ctx.repo
    f, g = cfg_of(ctx, f'{W}.continuous_watch')
    wcall, loop = _stream_loop(ctx, f)
    ev = loop.target.id
    since = kwarg(wcall, 'since')
    if not isinstance(since, ast.Name):
        ctx.ob('R19.4', 'continuous_watch: watch_objs(since=) is the tracked resource version', False, loc=f.loc(wcall), construct=construct(f, 'flow:since='), detail=norm(since))
        return
    rv = since.id
    paths = absint.analyse(repo, f, absint.Config(), stmts=loop.body, env={ev: absint.sym(ev), rv: absint.sym(rv)})
    kinds_rx = '|'.join(('ERROR',) + SUPPORTED)
    tkeys = {m.group(1) for p in paths for k in p.atoms for m in [re.match(rf"^eq\((.*), '(?:{kinds_rx})'\)$", k)] if m}
    if len(tkeys) != 1:
        raise AnalysisError(f'{f.loc(loop)}: the stream arm does not dispatch on one event-type expression ({sorted(tkeys)})')
    tkey = tkeys.pop()
    atoms = {'ERR': (rf"^eq\({re.escape(tkey)}, 'ERROR'\)$", f"eq({tkey}, 'ERROR')"),
             'GONE': r"^eq\(.*\['code'\], 410\)$"}
    for t in SUPPORTED:
        atoms[t] = (rf"^eq\({re.escape(tkey)}, '{t}'\)$", f"eq({tkey}, '{t}')")
    prov = re.compile(r"^(typing\.cast\([^,]*, )?" + re.escape(ev) + r"\['object'\]\)?(\.get\('metadata'(, \{\})?\)|\['metadata'\])"
                      r"(\.get\('resourceVersion', " + re.escape(rv) + r"\)|\['resourceVersion'\])$")

    def is_event(key: str) -> bool:
        return key == ev or bool(re.fullmatch(r'typing\.cast\([^,]*, ' + re.escape(ev) + r'\)', key))

    def observe(p: absint.Path):
        ys = p.effects('yield')
        if p.status == 'return':
            return ('re-list', len(ys))
        if p.status == 'raise':
            return ('raise ' + short(p.exc), len(ys))
        if not ys:
            return ('skip', 0)
        return ('deliver', len(ys), all(is_event(e.kw['value'].key) for e in ys))

    def spec(v):
        if v['ERR']:
            return ('re-list', 0) if v['GONE'] else ('raise WatchingError', 0)
        if sum(1 for t in SUPPORTED if v[t]) > 1:
            from ..rules import SKIP
            return SKIP
        if any(v[t] for t in SUPPORTED):
            return ('deliver', 1, True)
        return ('skip', 0)
    table_check(ctx, 'R19.2', f, paths, atoms, spec, observe,
                what='continuous_watch, one event of the stream: ERROR with code 410 => return (re-list); any other ERROR => raise WatchingError; '
                     'ADDED/MODIFIED/DELETED/BOOKMARK => yielded once, unchanged; only non-ERROR unknown types are skipped')

    # ---- R19.4: the tracked version after one event
    bad = []
    n_upd = 0
    for p in paths:
        cur = p.env.get(rv)
        delivered = bool(p.effects('yield'))
        if cur is not None and cur.key == rv and not delivered:
            continue
        if cur is not None and prov.match(cur.key):
            n_upd += 1
            continue
        bad.append(f'after [{", ".join(f"{k[-20:]}={v}" for k, v in p.atoms.items())}] {rv} = `{cur.key[:90] if cur else None}`')
    ctx.require_sites('R19.4', 'continuous_watch: delivered event kinds that advance the tracked resource version (incl. BOOKMARK)', n_upd, len(SUPPORTED), f.loc(loop))
    ctx.ob('R19.4', f'continuous_watch: for every delivered event `{rv}` becomes the event\'s metadata.resourceVersion (falling back to the previous '
           f'value only), and nothing else is ever assigned to it in the stream arm', not bad, loc=f.loc(loop), construct=construct(f, 'flow:version<-event'),
           detail='; '.join(bad[:2]))
    # assigned before the yield
    inloop = [n for n in g.nodes if any(fr.kind == 'loop' and fr.stmt is loop for fr in n.frames)]
    ynodes = [n for n in inloop if n.kind == 'stmt' and any(isinstance(x, ast.Yield) for x in walk_no_defs(n.stmt))]
    anodes = [n for n in inloop if n.kind == 'stmt' and any(isinstance(x, ast.Name) and x.id == rv and isinstance(x.ctx, ast.Store) for x in walk_no_defs(n.stmt))]
    heads = [n for n in g.nodes if n.kind == 'loop' and n.stmt is loop]
    early = [y for y in ynodes if y in g.reach(heads, stop=lambda n: n in set(anodes) or (n.kind == 'loop' and n.stmt is loop))]
    ctx.require_sites('R19.4', 'continuous_watch: yield of a watch event', len(ynodes), 1, f.loc(loop))
    ctx.ob('R19.4', f'continuous_watch: `{rv}` is advanced before the event is handed to the consumer (no yield is reachable in the arm without passing the assignment)',
           bool(anodes) and not early, loc=f.loc(early[0].stmt) if early else f.loc(loop), construct=construct(f, 'order:version<yield'))

    # ---- whole function: listing failures, and what `since=` is at the watch call
    lcalls = [c for c in calls_in(f.node) if is_call_to(repo, f, c, f'{F}.list_objs')]
    ctx.require_sites('R19.3', 'continuous_watch: the initial listing', len(lcalls), 1, f.loc())
    lf = repo.fn(f'{F}.list_objs')
    ctx.analysed(lf)
    idx = None
    for p in absint.analyse(repo, lf, absint.Config()):
        if p.status == 'return' and p.retval is not None and p.retval.kind == 'tuple':
            hits = [i for i, e in enumerate(p.retval.data) if "'resourceVersion'" in e.key and "'metadata'" in e.key and f'{API}.get(' in e.key]
            if len(hits) == 1 and idx in (None, hits[0]):
                idx = hits[0]
            else:
                idx = -1
    ctx.ob('R19.4', 'list_objs returns the metadata.resourceVersion of the very list response', idx is not None and idx >= 0, loc=lf.loc(),
           construct=construct(lf, 'flow:list-version'))
    conn = ['aiohttp.ClientConnectionError', 'aiohttp.ServerDisconnectedError', 'aiohttp.ClientPayloadError', 'asyncio.TimeoutError']
    fatal = [f'{ERR}.APIServerError', f'{ERR}.APIForbiddenError', f'{ERR}.APITooManyRequestsError', f'{ERR}.APINotFoundError', 'Exception']

    def eff(it, p, call, names):
        return 'watch' if f'{W}.watch_objs' in names else None
    whole = absint.analyse(repo, f, absint.Config(effect=eff, raising={f'{F}.list_objs': conn + fatal}))
    ctx.count('paths', len(whole))
    for c in conn + fatal:
        ps = [p for p in whole if any(e.label == 'raised:' + c for e in p.trace)]
        went_on = [p for p in ps if p.effects('watch') or p.status not in ('return', 'raise')]
        relist = all(p.status == 'return' and not [e for e in p.effects('yield') if e.key == LISTED] for p in ps)
        if c in conn:
            ctx.ob('R19.2', f'continuous_watch: a {short(c)} while listing ends the stream quietly (=> re-list by infinite_watch), no LISTED mark, no watch',
                   bool(ps) and relist and not went_on, loc=f.loc(lcalls[0]) if lcalls else f.loc(), construct=construct(f, f'table:listing:{c}'))
        else:
            ctx.ob('R19.2', f'continuous_watch: after a failed listing ({short(c)}) nothing is watched (no stream from an unknown version)',
                   bool(ps) and not went_on, loc=f.loc(lcalls[0]) if lcalls else f.loc(), construct=construct(f, f'table:listing:{c}'))
    okp = [p for p in whole if not any(e.label.startswith('raised:') for e in p.trace)]
    watches = [(p, e) for p in okp for e in p.effects('watch')]
    want = re.compile(re.escape(f'{F}.list_objs(') + r'.*\)\[' + str(idx) + r'\]$')
    wrong = [e.kw['since'].key if e.kw.get('since') is not None else None for p, e in watches if e.kw.get('since') is None or not want.match(e.kw['since'].key)]
    ctx.require_sites('R19.4', 'continuous_watch: paths that reach the watch call', len(watches), 1, f.loc(wcall))
    ctx.ob('R19.4', 'continuous_watch: the first watch starts at since= the version returned by the listing of the same run', not wrong and idx is not None and idx >= 0,
           loc=f.loc(wcall), construct=construct(f, 'flow:since<-listing'), detail='; '.join(str(w)[:80] for w in wrong[:2]))
    finals = []
    for p in okp:
        cur = p.env.get(rv)
        if cur is None or not p.effects('watch'):
            continue
        if want.match(cur.key) or prov.match(cur.key) or re.fullmatch(re.escape(rv) + r'@loop\d+', cur.key):
            continue
        finals.append(cur.key)
    ctx.ob('R19.4', f'continuous_watch: between two watch calls `{rv}` holds only the listing\'s version or a version taken from a delivered event', not finals,
           loc=f.loc(), construct=construct(f, 'flow:version-sources'), detail='; '.join(k[:80] for k in finals[:2]))
    listed = [p for p in okp if p.effects('watch')]
    ctx.ob('R19.3', 'continuous_watch: every path to the watch call lists first (and marks LISTED)', bool(listed) and all(
        any(e.key == LISTED for e in p.trace[:p.trace.index(p.effects('watch')[0])] if e.label == 'yield') for p in listed), loc=f.loc(wcall),
        construct=construct(f, 'order:list<watch'))

    # watch_objs hands `since` to the API as the resourceVersion query parameter
    wf = repo.fn(f'{W}.watch_objs')
    ctx.analysed(wf)
    _param(wf, 'since')

    def eff2(it, p, call, names):
        return 'stream' if f'{API}.stream' in names else None
    wpaths = absint.analyse(repo, wf, absint.Config(effect=eff2))
    badw = []
    nstream = 0
    for p in wpaths:
        for e in p.effects('stream'):
            nstream += 1
            if p.atom(r'^isnone\(since\)$') is not False:
                continue
            before = p.trace[:p.trace.index(e)]
            sets = [x for x in before if x.label.startswith('setitem:') and x.kw['index'].key == "'resourceVersion'" and x.kw['value'].key == 'since']
            url = e.kw.get('url')
            if not sets or url is None or not any(f'params={x.label[len("setitem:"):]}' in url.key for x in sets):
                badw.append(f'url={url.key[:70] if url else None}')
    ctx.require_sites('R19.4', 'watch_objs: the streaming request', nstream, 1, wf.loc())
    ctx.ob('R19.4', 'watch_objs: a given `since` is sent as the resourceVersion parameter of the watch request', not badw, loc=wf.loc(),
           construct=construct(wf, 'flow:since->resourceVersion'), detail='; '.join(badw[:1]))


# ====================================================================================== R19.3 the pause gate
def check_pause_gate(ctx: Ctx) -> None:
    repo = ctx.repo
    # who may list / watch
    confine(ctx, 'R19.3', f'{W}.watch_objs', [f'{W}.continuous_watch'], what='watch_objs is called only by continuous_watch')
    confine(ctx, 'R19.3', f'{API}.stream', [f'{W}.watch_objs'], what='api.stream is called only by watch_objs')
    confine(ctx, 'R19.3', f'{W}.continuous_watch', [f'{W}.infinite_watch'], what='continuous_watch is called only by infinite_watch')
    confine(ctx, 'R19.3', f'{W}.infinite_watch', [f'{Q}.watcher'], what='infinite_watch is called only by queueing.watcher')
    # the one-off listing of namespaces by namespace_observer is outside the subject (served resources), DESIGN §6.3
    confine(ctx, 'R19.3', f'{F}.list_objs', [f'{W}.continuous_watch', f'{OBS}.namespace_observer'],
                  what='objects are listed only by continuous_watch (and the one-off namespace listing of the observer)')

    # infinite_watch: the stream is created and consumed inside `async with streaming_block(...)`
    f, g = cfg_of(ctx, f'{W}.infinite_watch')
    paused = _param(f, 'operator_paused')
    blocks = [n for n in walk_no_defs(f.node) if isinstance(n, ast.AsyncWith) and any(is_call_to(repo, f, it.context_expr, f'{W}.streaming_block') for it in n.items)]
    ctx.require_sites('R19.3', 'infinite_watch: `async with streaming_block(...)`', len(blocks), 1, f.loc())
    cw = [c for c in calls_in(f.node) if is_call_to(repo, f, c, f'{W}.continuous_watch')]
    ctx.require_sites('R19.3', 'infinite_watch: creation of the continuous stream', len(cw), 1, f.loc())
    for c in cw:
        encl = [b for b in blocks if _within(f, c, b)]
        ctx.ob('R19.3', 'infinite_watch: the list+watch stream is created inside `async with streaming_block(...)` (after the pause gate)', bool(encl), loc=f.loc(c),
               construct=construct(f, 'confine:stream-in-block'))
        loops = [n for n in walk_no_defs(f.node) if isinstance(n, (ast.AsyncFor, ast.For)) and any(x is c for x in ast.walk(origin(f, n.iter)))]
        ctx.ob('R19.3', 'infinite_watch: the stream is consumed inside the same `async with streaming_block(...)`', bool(loops) and bool(encl) and all(_within(f, lp, encl[0]) for lp in loops),
               loc=f.loc(loops[0]) if loops else f.loc(c), construct=construct(f, 'confine:iteration-in-block'))
        if encl:
            item = [it for it in encl[0].items if is_call_to(repo, f, it.context_expr, f'{W}.streaming_block')][0]
            asvar = item.optional_vars.id if isinstance(item.optional_vars, ast.Name) else None
            ctx.ob('R19.3', 'infinite_watch: the stream gets the pause waiter produced by the streaming block', asvar is not None and dotted(kwarg(c, 'operator_pause_waiter')) == asvar,
                   loc=f.loc(c), construct=construct(f, 'config:operator_pause_waiter='))
            ctx.ob('R19.3', 'infinite_watch: streaming_block receives the operator\'s pause toggles', dotted(kwarg(item.context_expr, 'operator_paused')) == paused,
                   loc=f.loc(item.context_expr), construct=construct(f, 'config:streaming_block(operator_paused=)'))

    # streaming_block: when paused, wait for the un-pause before yielding; yield a waiter of the next pause
    sb = repo.fn(f'{W}.streaming_block')
    ctx.analysed(sb)
    sp = _param(sb, 'operator_paused')

    def eff(it, p, call, names):
        r = method_call(call, 'wait_for')
        if r is not None and dotted(r) == sp and len(call.args) == 1 and isinstance(call.args[0], ast.Constant):
            return f'wait_for({call.args[0].value})'
        return None
    paths = absint.analyse(repo, sb, absint.Config(effect=eff))
    ctx.count('paths', len(paths))
    bad = []
    rows = set()
    for p in paths:
        ys = p.effects('yield')
        none = p.atom(rf'^isnone\({re.escape(sp)}\)$')
        on = p.atom(rf'^truthy\({re.escape(sp)}\.is_on\(\)\)$')
        if len(ys) != 1 or none is None:
            bad.append(f'{len(ys)} yields / the toggles are not tested: {p.describe()[:120]}')
            continue
        before = [e.label for e in p.trace[:p.trace.index(ys[0])]]
        val = ys[0].kw['value'].key
        if none:
            rows.add('untoggled')
            continue
        rows.add('paused' if on else 'running')
        if on is None:
            bad.append('the pause state is not tested before the block is entered')
        elif on and before.count('wait_for(False)') != 1:
            bad.append('paused, but the block is entered without awaiting wait_for(False)')
        if not (val.startswith('asyncio.create_task(') and f'{sp}.wait_for(True)' in val):
            bad.append(f'the yielded waiter `{val[:60]}` is not a task of {sp}.wait_for(True)')
    ctx.ob('R19.3', f'streaming_block ({len(paths)} paths): while paused the block is entered only after `await {sp}.wait_for(False)`; the block gets a task that '
           f'completes at the next pause', not bad and {'paused', 'running'} <= rows, loc=sb.loc(), construct=construct(sb, 'table:pause-gate'), detail='; '.join(bad[:2]))

    # continuous_watch: the watch loop ends when the pause waiter is done; the waiter is the stopper of the request
    f, g = cfg_of(ctx, f'{W}.continuous_watch')
    waiter = _param(f, 'operator_pause_waiter')
    wcall, loop = _stream_loop(ctx, f)

    def waiter_pending(e: ast.AST, o: bool) -> bool:
        r = method_call(e, 'done')
        return r is not None and dotted(r) == waiter and o is False
    whiles = [w for w in _enclosing(f, wcall, ast.While)]
    ok = any(cond_implies(w.test, True, waiter_pending) for w in whiles)
    ctx.ob('R19.3', 'continuous_watch: a new watch request is made only while the pause waiter is not done (a pause ends the stream => fresh listing on resume)',
           ok, loc=f.loc(whiles[0]) if whiles else f.loc(wcall), construct=construct(f, 'guard:watch-while-not-paused'))
    ctx.ob('R19.3', 'continuous_watch: watch_objs gets the pause waiter', dotted(kwarg(wcall, 'operator_pause_waiter')) == waiter, loc=f.loc(wcall),
           construct=construct(f, 'config:watch_objs(operator_pause_waiter=)'))
    wf = repo.fn(f'{W}.watch_objs')
    w2 = _param(wf, 'operator_pause_waiter')
    sc = [c for c in calls_in(wf.node) if is_call_to(repo, wf, c, f'{API}.stream')]
    ctx.ob('R19.3', 'watch_objs: the pause waiter is the stopper of the streaming request (a pause closes the connection)',
           bool(sc) and all(dotted(kwarg(c, 'stopper')) == w2 for c in sc), loc=wf.loc(sc[0]) if sc else wf.loc(), construct=construct(wf, 'config:stream(stopper=)'))

    # the chain of the toggles: ensemble -> watcher -> infinite_watch
    so = repo.fn(f'{O}.spawn_missing_watchers')
    ens = _param(so, 'ensemble')
    ws = [c for c in calls_in(so.node) if is_call_to(repo, so, c, f'{Q}.watcher')]
    ctx.require_sites('R19.3', 'spawn_missing_watchers: watcher creation', len(ws), 1, so.loc())
    for c in ws:
        ctx.ob('R19.3', 'spawn_missing_watchers: watchers of served resources get operator_paused=ensemble.operator_paused', dotted(kwarg(c, 'operator_paused')) == f'{ens}.operator_paused',
               loc=so.loc(c), construct=construct(so, 'config:watcher(operator_paused=)'), detail=norm(kwarg(c, 'operator_paused')))
    qw = repo.fn(f'{Q}.watcher')
    qp = _param(qw, 'operator_paused')
    iw = [c for c in calls_in(qw.node) if is_call_to(repo, qw, c, f'{W}.infinite_watch')]
    ctx.require_sites('R19.3', 'queueing.watcher: the infinite watch stream', len(iw), 1, qw.loc())
    for c in iw:
        ctx.ob('R19.3', 'queueing.watcher: infinite_watch gets the watcher\'s operator_paused', dotted(kwarg(c, 'operator_paused')) == qp, loc=qw.loc(c),
               construct=construct(qw, 'config:infinite_watch(operator_paused=)'))


def check(ctx: Ctx) -> None:
    check_orchestration(ctx)
    check_stream(ctx)
    check_pause_gate(ctx)
    from . import _extra
    _extra.check_revision_lock_scope(ctx, 'R19.5')


SPEC = PropSpec(
    id='C19',
    title='Watch coverage and continuity under reconnects, 410s, pauses and cluster changes',
    technique='static analysis: dominating absence tests and call order on the CFG (GUARD/ORDER), who-may-call (CONFINE), the decision table of one '
              'watch event and of a failed listing by path enumeration (TABLE), value provenance of the tracked resource version (FLOW), '
              'the pause-gate table of streaming_block',
    level_text='Static analysis of the current source: a watcher/peering task is stored only under `dkey not in ensemble.<tasks>` and created nowhere else; '
               'redundant tasks are stopped before new ones start and their keys are deleted only after the stop; per watch event: ERROR/410 returns to a fresh '
               'listing, any other ERROR raises, only the four supported kinds are delivered (once, unchanged) and nothing but non-ERROR unknown kinds is skipped; '
               'listing failures never lead into a watch; the first watch starts at the listing\'s version and the tracked version only ever takes a delivered '
               'event\'s metadata.resourceVersion (incl. BOOKMARK) before the yield; objects are listed/watched only by continuous_watch inside streaming_block, '
               'which waits for the un-pause and whose waiter stops the request and the watch loop. NOT "every change reaches processing" against a server log.',
    level_note='one symbolic loop iteration; opaque values (the resource version is a symbol, its provenance is its defining expression); the meta-watchers '
               '(namespaces, CRDs), the peering watcher and namespace_observer\'s one-off listing are outside the subject (served resources); DESIGN.md §3, §6.3',
    design_ref='DESIGN.md §4 C19',
    explanation='GUARD+CONFINE+ORDER in orchestration.spawn_missing_*/adjust_tasks/terminate_redundancies, TABLE over one iteration of continuous_watch\'s stream '
                'loop and over listing failures, FLOW of since=/resource_version, CONFINE of list/watch callers, TABLE over streaming_block, CONFIG of the '
                'operator_paused/pause-waiter hand-over chain.',
    not_decided='that every change reaches processing for all fault positions (needs a server log); the exact set of served (resource, namespace) pairs over '
                'histories of insights; observation O4 (Resource.__eq__ ignores subresources); behaviour of api.stream once the stopper fires.',
    check=check,
)
