"""C02 -- recorded handler progress governs invocation (DESIGN.md §4, R2.1-R2.10).

Some routines take the rule id as a parameter because other properties re-use the clause under their own id
(R11.5 = R2.1/R2.3/R2.5; R14.1 re-uses the cycle-closing table of R2.7 for the `fully_handled_once` flag).
"""
from __future__ import annotations

import ast
import itertools
import re
from typing import Any, Callable, Iterable, Optional

from .. import absint
from ..core import Ctx, PropSpec
from ..rules import (calls_in, cfg_of, construct, is_call_to, kwarg, method_call, norm, origin, witness)
from ..srcmodel import AnalysisError, dotted, src, walk_no_defs

EXE = 'kopf._core.actions.execution'
PRG = 'kopf._core.actions.progression'
LFC = 'kopf._core.actions.lifecycles'
PROC = 'kopf._core.reactor.processing'
SUBH = 'kopf._core.reactor.subhandling'
PROGRESS = 'kopf._cogs.configs.progress'


# ====================================================================== local helpers (TABLE with ordering atoms)
def split_top(s: str) -> list[str]:
    """Split `A, B` at top-level commas (keys of calls contain commas of their own)."""
    out, depth, cur = [], 0, ''
    i = 0
    while i < len(s):
        ch = s[i]
        if ch in '([{':
            depth += 1
        elif ch in ')]}':
            depth -= 1
        if ch == ',' and depth == 0 and s[i + 1:i + 2] == ' ':
            out.append(cur)
            cur = ''
            i += 2
            continue
        cur += ch
        i += 1
    out.append(cur)
    return out


def cmp_rel(p: absint.Path, is_left: Callable[[str], bool], is_right: Callable[[str], bool]) -> Optional[str]:
    """Relation `left REL right` (one of < = >) decided on the path for the pair of operands recognised by the two
    predicates over operand keys; None if the path never compared them.  Orientation-independent."""
    found = set()
    for k, v in p.atoms.items():
        if not (k.startswith('cmp(') and k.endswith(')')):
            continue
        ops = split_top(k[4:-1])
        if len(ops) != 2:
            continue
        a, b = ops
        if is_left(a) and is_right(b):
            found.add(v)
        elif is_left(b) and is_right(a):
            found.add({'<': '>', '>': '<', '=': '='}[v])
    if len(found) > 1:
        raise absint.AmbiguousAtom('cmp', {k: v for k, v in p.atoms.items() if k.startswith('cmp(')})
    return found.pop() if found else None


REL3 = ('<', '=', '>')
SKIP = object()


def table3(ctx: Ctx, rule: str, f, paths: list, atoms: dict, spec: Callable[[dict], Any], observe: Callable[[absint.Path], Any], *,
           what: str, tag: str = 'table', min_rows: int = 2, max_report: int = 5, short: str = '') -> int:
    """Like rules.table_check, with two additions: an atom may be an extractor `path -> value|None` and may have a
    three-point domain (`(extractor, ('<','=','>'))`), so that an ordering the code never consulted is completed with
    all three relations (otherwise a dropped comparison would go unnoticed)."""
    n = bad = 0
    rows = set()
    for p in paths:
        obs = observe(p)
        fixed, free = {}, []
        for name, a in atoms.items():
            dom: tuple = (True, False)
            if isinstance(a, tuple) and len(a) == 2 and isinstance(a[1], tuple):
                a, dom = a
            if callable(a):
                v = a(p)
            elif isinstance(a, tuple):
                v = p.atom(a[0])
                if v is None:
                    v = absint.entails(ctx.repo, f, p, a[1])
            else:
                v = p.atom(a)
            if v is None:
                free.append((name, dom))
            else:
                fixed[name] = v
        for combo in itertools.product(*[d for _, d in free]):
            val = dict(fixed)
            val.update({nm: c for (nm, _), c in zip(free, combo)})
            n += 1
            exp = spec(val)
            if exp is SKIP:
                continue
            if obs == exp:
                rows.add(repr(exp))
                continue
            bad += 1
            if bad <= max_report:
                ctx.ob(rule, f'{short or what[:90]}: valuation {_fmt(val)} must give {exp!r}', False, loc=f.loc(),
                       construct=f'{f.qualname}:{tag}:{_fmt(val)}', detail=f'observed {obs!r} on path [{_atoms(p)}]')
    ctx.count('paths', len(paths))
    ctx.count('valuations', n)
    ctx.ob(rule, f'{what}: {len(paths)} feasible paths x completions = {n} valuations agree with the specification '
           f'({len(rows)} distinct rows exercised)', bad == 0 and len(rows) >= min_rows, loc=f.loc(), construct=f'{f.qualname}:{tag}',
           detail='' if bad == 0 else f'{bad} disagreeing valuations', nontrivial=len(rows) > 1)
    ctx.sample({'rule': rule, 'function': f.short, 'paths': len(paths), 'valuations': n,
                'example_path': paths[0].describe()[:300] if paths else None})
    return n


def _fmt(val: dict) -> str:
    return ' '.join(f'{k}={"1" if v is True else "0" if v is False else v}' for k, v in sorted(val.items()))


def _atoms(p: absint.Path) -> str:
    return '; '.join(f'{k[:80]}={v}' for k, v in p.atoms.items())


def param(f, name: str) -> str:
    for a in f.params():
        if a.arg == name:
            return name
    raise AnalysisError(f'{f.loc()}: {f.short} has no parameter `{name}`')


def follow(f, e: Optional[ast.AST]) -> Optional[ast.AST]:
    return origin(f, e) if e is not None else None


def is_now_key(k: str) -> bool:
    """The framework's "now": <x>.basetime + timedelta(seconds=<loop>.time())."""
    return 'basetime' in k and '.time()' in k and 'Add' in k


# ====================================================================== R2.1 selection flow
def check_selection_flow(ctx: Ctx, rule: str = 'R2.1') -> None:
    repo = ctx.repo
    f = repo.fn(f'{EXE}.execute_handlers_once')
    ctx.analysed(f)
    handlers, state, lifecycle = param(f, 'handlers'), param(f, 'state'), param(f, 'lifecycle')
    loops = [n for n in walk_no_defs(f.node) if isinstance(n, (ast.For, ast.AsyncFor))
             and any(is_call_to(repo, f, c, f'{EXE}.execute_handler_once') for c in calls_in(n))]
    ctx.require_sites(rule, 'execute_handlers_once: loop invoking execute_handler_once', len(loops), 1, f.loc())
    others = [c for c in calls_in(f.node) if is_call_to(repo, f, c, f'{EXE}.execute_handler_once')
              and not any(c in list(ast.walk(lp)) for lp in loops)]
    ctx.ob(rule, 'execute_handlers_once: no handler is executed outside the loop over the planned handlers', not others,
           loc=f.loc(others[0]) if others else f.loc(), construct=construct(f, 'flow:execution-outside-plan'))
    for loop in loops:
        it = follow(f, loop.iter)
        via_lifecycle = isinstance(it, ast.Call) and isinstance(it.func, ast.Name) and it.func.id == lifecycle and len(it.args) >= 1
        ctx.ob(rule, 'execute_handlers_once: the executed handlers are exactly what `lifecycle(...)` returned', via_lifecycle,
               loc=f.loc(loop), construct=construct(f, 'flow:plan=lifecycle(...)'), detail=f'the loop iterates `{norm(it)}`')
        if not via_lifecycle:
            continue
        st = kwarg(it, 'state')
        ctx.ob(rule, 'execute_handlers_once: the lifecycle sees the same state (state=state)', st is not None and dotted(st) == state,
               loc=f.loc(it), construct=construct(f, 'flow:lifecycle(state=)'))
        todo = follow(f, it.args[0])
        if isinstance(todo, ast.Call) and dotted(todo.func) in ('list', 'tuple') and len(todo.args) == 1:
            todo = follow(f, todo.args[0])
        ok, why = _filtered_by_awakened(ctx, f, todo, handlers, state)
        ctx.ob(rule, 'execute_handlers_once: the lifecycle is offered only the handlers of `handlers` whose recorded state is awakened '
               '(`state[h.id].awakened`): finished and still-delayed handlers are never offered', ok, loc=f.loc(it),
               construct=construct(f, 'flow:todo=awakened(handlers)'), detail=why)
        # the loop body executes the planned handler itself with its own recorded state
        tv = loop.target.id if isinstance(loop.target, ast.Name) else None
        for c in calls_in(loop):
            if not is_call_to(repo, f, c, f'{EXE}.execute_handler_once'):
                continue
            h, s = kwarg(c, 'handler'), kwarg(c, 'state')
            ok_h = tv is not None and isinstance(h, ast.Name) and h.id == tv
            ok_s = isinstance(s, ast.Subscript) and dotted(s.value) == state and dotted(s.slice) == f'{tv}.id'
            ctx.ob(rule, 'execute_handlers_once: each planned handler is executed with its own recorded state (`state[handler.id]`)',
                   ok_h and ok_s, loc=f.loc(c), construct=construct(f, 'flow:execute(handler, state[handler.id])'),
                   detail=f'handler={norm(h)}, state={norm(s)}')


def _filtered_by_awakened(ctx: Ctx, f, comp: Optional[ast.AST], handlers: str, state: str) -> tuple[bool, str]:
    if not isinstance(comp, (ast.ListComp, ast.GeneratorExp)) or len(comp.generators) != 1:
        return False, f'the offered handlers are `{norm(comp)}`, not a filter over `{handlers}`'
    g = comp.generators[0]
    if not (isinstance(g.target, ast.Name) and isinstance(comp.elt, ast.Name) and comp.elt.id == g.target.id):
        return False, 'the comprehension does not yield the handlers themselves'
    if dotted(g.iter) != handlers:
        return False, f'the comprehension iterates `{norm(g.iter)}`, not `{handlers}`'
    if not g.ifs:
        return False, 'no filter at all: every handler is offered regardless of its recorded state'
    hv = g.target.id
    it = absint.Interp(ctx.repo, f, absint.Config())
    p0 = absint.Path()
    for a in f.params():
        p0.env[a.arg] = absint.sym(a.arg)
    p0.env[hv] = absint.sym('h')
    cond = g.ifs[0] if len(g.ifs) == 1 else ast.BoolOp(ast.And(), list(g.ifs))
    key = f'truthy({state}[h.id].awakened)'
    for q, b in it.truth(cond, p0):
        others = [k for k in q.atoms if k != key]
        if others:
            return False, f'the filter consults `{others[0]}`'
        if q.atoms.get(key) is not b:
            return False, f'the filter is {b} when {key} is {q.atoms.get(key)}'
    return True, ''


# ====================================================================== R2.2 lifecycles
def check_lifecycles(ctx: Ctx, rule: str = 'R2.2') -> None:
    repo = ctx.repo
    m = repo.module(LFC)
    fns = []
    for f in repo.functions_in(LFC):
        if f.outer is not None or f.cls is not None:
            continue
        pos = list(f.node.args.posonlyargs) + list(f.node.args.args)
        if pos and pos[0].annotation is not None and (repo.resolve(m, pos[0].annotation) or '').endswith('lifecycles.Handlers'):
            fns.append(f)
    ctx.require_sites(rule, 'built-in lifecycles (functions taking the offered handlers first)', len(fns), 5, m.relpath())
    for f in fns:
        ctx.analysed(f)
        p0 = (list(f.node.args.posonlyargs) + list(f.node.args.args))[0].arg
        rets = [n for n in walk_no_defs(f.node) if isinstance(n, ast.Return)]
        bad = [r for r in rets if not _subseq(repo, f, r.value, p0)]
        ctx.ob(rule, f'lifecycles.{f.name}: returns only elements of the handlers it was offered (identity, slice, sorted, '
               'random.choice/sample, displays of those)', bool(rets) and not bad, loc=f.loc(bad[0]) if bad else f.loc(),
               construct=construct(f, 'flow:subset-of-offered'), detail='; '.join(f'returns `{norm(r.value)}`' for r in bad[:2]))


def _subseq(repo, f, e: Optional[ast.AST], p0: str, depth: int = 0) -> bool:
    """Is the value a sub-collection of parameter p0 (no foreign element, no duplication by concatenation)?"""
    if e is None or depth > 6:
        return False
    e = origin(f, e)
    if isinstance(e, ast.Name):
        return e.id == p0
    if isinstance(e, ast.Subscript):
        return isinstance(e.slice, ast.Slice) and _subseq(repo, f, e.value, p0, depth + 1)
    if isinstance(e, (ast.List, ast.Tuple)):
        return all(_elem(repo, f, x, p0, depth + 1) for x in e.elts)
    if isinstance(e, ast.IfExp):
        return _subseq(repo, f, e.body, p0, depth + 1) and _subseq(repo, f, e.orelse, p0, depth + 1)
    if isinstance(e, ast.Call) and e.args:
        r = repo.resolve(f.module, e.func) or dotted(e.func) or ''
        if r in ('sorted', 'list', 'tuple', 'reversed', 'random.sample'):
            return _subseq(repo, f, e.args[0], p0, depth + 1)
    if isinstance(e, (ast.ListComp, ast.GeneratorExp)) and len(e.generators) == 1:
        g = e.generators[0]
        return isinstance(g.target, ast.Name) and isinstance(e.elt, ast.Name) and e.elt.id == g.target.id and _subseq(repo, f, g.iter, p0, depth + 1)
    return False


def _elem(repo, f, e: ast.AST, p0: str, depth: int) -> bool:
    e = origin(f, e)
    if isinstance(e, ast.Starred):
        return _subseq(repo, f, e.value, p0, depth + 1)
    if isinstance(e, ast.Subscript) and not isinstance(e.slice, ast.Slice):
        return _subseq(repo, f, e.value, p0, depth + 1)
    if isinstance(e, ast.Call) and e.args:
        r = repo.resolve(f.module, e.func) or dotted(e.func) or ''
        if r in ('random.choice', 'min', 'max'):
            return _subseq(repo, f, e.args[0], p0, depth + 1)
    return False


# ====================================================================== R2.3 formulas
def check_formulas(ctx: Ctx, rule: str = 'R2.3') -> None:
    repo = ctx.repo
    fin = repo.fn(f'{PRG}.HandlerState.finished')
    slp = repo.fn(f'{PRG}.HandlerState.sleeping') if repo.has_fn(f'{PRG}.HandlerState.sleeping') else None
    awk = repo.fn(f'{PRG}.HandlerState.awakened')
    ctx.analysed(fin, awk)
    inline = {fin.qualname} | ({slp.qualname} if slp else set())
    def delayed_set(p):
        # `delayed is not None`, or its truthiness (a timestamp is never falsy)
        dn = p.atom(r'^isnone\(self\.delayed\)$')
        return (not dn) if dn is not None else p.atom(r'^truthy\(self\.delayed\)$')
    atoms = {
        'S': r'^truthy\(self\.success\)$',
        'F': r'^truthy\(self\.failure\)$',
        'SET': delayed_set,
        'REL': (lambda p: cmp_rel(p, lambda k: k == 'self.delayed', is_now_key), REL3),     # delayed REL now
    }

    def ret(p):
        if p.status != 'return' or p.retval is None or p.retval.kind not in ('bool', 'const'):
            return ('not-a-boolean', p.status, p.retval.key if p.retval is not None else None)
        return bool(p.retval.data)

    table3(ctx, rule, fin, absint.analyse(repo, fin, absint.Config()), {k: atoms[k] for k in 'SF'},
           lambda v: v['S'] or v['F'], ret, what='HandlerState.finished == success or failure', tag='formula')

    def awakened(v):
        return (not (v['S'] or v['F'])) and not (v['SET'] and v['REL'] == '>')
    paths = absint.analyse(repo, awk, absint.Config(inline_props=inline))
    table3(ctx, rule, awk, paths, atoms, awakened, ret, tag='formula', min_rows=2,
           what='HandlerState.awakened == not finished and not (delayed is set and delayed > now)')

    # State.done == all(finished for the active handler states)
    d = repo.fn(f'{PRG}.State.done')
    ctx.analysed(d)
    rets = [n for n in walk_no_defs(d.node) if isinstance(n, ast.Return)]
    if len(rets) != 1:
        raise AnalysisError(f'{d.loc()}: State.done is expected to be a single `return all(...)` (found {len(rets)} returns)')
    e = rets[0].value
    if isinstance(e, ast.Call) and dotted(e.func) == 'bool' and len(e.args) == 1:
        e = e.args[0]
    comp = e.args[0] if isinstance(e, ast.Call) and len(e.args) == 1 and isinstance(e.args[0], (ast.GeneratorExp, ast.ListComp)) else None
    if comp is None or len(comp.generators) != 1 or not isinstance(comp.generators[0].target, ast.Name):
        raise AnalysisError(f'{d.loc()}: State.done: unsupported shape `{norm(e)}` (expected all(<x>.finished for <x> in <states> if <x>.active))')
    g = comp.generators[0]
    x = g.target.id
    ctx.ob(rule, 'State.done is a universal quantification (`all`)', dotted(e.func) == 'all', loc=d.loc(e), construct=construct(d, 'formula:all'),
           detail=norm(e.func))
    over_states = isinstance(g.iter, ast.Call) and method_call(g.iter, 'values') is not None and dotted(method_call(g.iter, 'values')) == 'self._states'
    ctx.ob(rule, 'State.done ranges over every recorded handler state (`self._states.values()`)', over_states, loc=d.loc(g.iter),
           construct=construct(d, 'formula:range'), detail=norm(g.iter))
    ctx.ob(rule, 'State.done requires `finished` of each state in range', dotted(comp.elt) == f'{x}.finished', loc=d.loc(comp.elt),
           construct=construct(d, 'formula:body=finished'), detail=norm(comp.elt))
    ctx.ob(rule, 'State.done is restricted to exactly the active handler states (`if <x>.active`)',
           len(g.ifs) == 1 and dotted(g.ifs[0]) == f'{x}.active', loc=d.loc(), construct=construct(d, 'formula:filter=active'),
           detail='; '.join(norm(i) for i in g.ifs) or 'no filter')


# ====================================================================== R2.4 retry number
def _ctor_calls(repo, f) -> list[ast.Call]:
    """Constructions of the function's own class: cls(...), type(self)(...), <local bound to those>(...), ClassName(...)."""
    out = []
    for c in calls_in(f.node):
        fn = origin(f, c.func) if isinstance(c.func, ast.Name) else c.func
        if isinstance(fn, ast.Name) and fn.id == 'cls':
            out.append(c)
        elif isinstance(fn, ast.Call) and dotted(fn.func) == 'type' and len(fn.args) == 1:
            out.append(c)
        elif f.cls is not None and (repo.resolve(f.module, c.func) or '') == f.cls.qualname:
            out.append(c)
    return out


def check_retry_flow(ctx: Ctx, rule: str = 'R2.4') -> None:
    repo = ctx.repo
    f = repo.fn(f'{EXE}.execute_handler_once')
    ctx.analysed(f)
    state = param(f, 'state')
    inv = [c for c in calls_in(f.node) if is_call_to(repo, f, c, f'{EXE}.invoke_handler')]
    ctx.require_sites(rule, 'execute_handler_once: invocation site', len(inv), 1, f.loc())
    for c in inv:
        r = follow(f, kwarg(c, 'retry'))
        ctx.ob(rule, 'execute_handler_once: the handler is invoked with retry = the recorded number of attempts (`state.retries`)',
               r is not None and dotted(r) == f'{state}.retries', loc=f.loc(c), construct=construct(f, 'flow:retry=state.retries'), detail=norm(r))
    g = repo.fn(f'{EXE}.invoke_handler')
    ctx.analysed(g)
    retry = param(g, 'retry')
    passed = []
    for c in calls_in(g.node):
        if is_call_to(repo, g, c, 'invocation.invoke'):
            kws = follow(g, kwarg(c, 'kwargs'))
            if isinstance(kws, ast.Call) and dotted(kws.func) == 'dict':
                passed.append((c, kwarg(kws, 'retry')))
            elif isinstance(kws, ast.Dict):
                passed.append((c, next((v for k, v in zip(kws.keys, kws.values) if isinstance(k, ast.Constant) and k.value == 'retry'), None)))
            else:
                passed.append((c, None))
    ctx.require_sites(rule, 'invoke_handler: invocation of the user function', len(passed), 1, g.loc())
    for c, v in passed:
        v = follow(g, v)
        ctx.ob(rule, 'invoke_handler: the `retry` kwarg of the user function is the number it was given', v is not None and dotted(v) == retry,
               loc=g.loc(c), construct=construct(g, 'flow:kwargs.retry=retry'), detail=norm(v))

    # the recorded number grows only in HandlerState.with_outcome, by exactly 1
    hs = repo.cls(f'{PRG}.HandlerState')
    growth, n_sites = [], 0
    for meth in hs.methods.values():
        sites = [(c, kwarg(c, 'retries')) for c in _ctor_calls(repo, meth)]
        sites += [(c, kwarg(c, 'retries')) for c in calls_in(meth.node) if (repo.resolve(meth.module, c.func) or '') == 'dataclasses.replace']
        for c, v in sites:
            if v is None:
                continue
            n_sites += 1
            it = absint.Interp(repo, meth, absint.Config())
            p0 = absint.Path()
            for a in meth.params():
                p0.env[a.arg] = absint.sym(a.arg)
            vals = {val.key for _, val in it.fork_value(v, p0)}
            if meth.name == 'with_outcome':
                # <recorded attempts, or 0 if none> + 1
                one = isinstance(v, ast.BinOp) and isinstance(v.op, ast.Add) and isinstance(v.right, ast.Constant) and v.right.value == 1 \
                    and not isinstance(v.right.value, bool)
                base = {val.key for _, val in it.fork_value(v.left, p0)} if one else set()
                vals = {f'{b} + 1' for b in base} if one else vals
                ok = one and base <= {'self.retries', '0'} and 'self.retries' in base
                growth.append(c)
                ctx.ob(rule, 'HandlerState.with_outcome: every recorded outcome adds exactly 1 to the recorded attempts', ok, loc=meth.loc(c),
                       construct=construct(meth, 'flow:retries+1'), detail=f'retries = {sorted(vals)}')
            else:
                params = [a.arg for a in meth.params()]
                if params and params[0] == 'cls':       # a constructor from the stored record: the stored number, or 0 if none
                    rec = params[1] if len(params) > 1 else '?'
                    ok = all(k == '0' or k.startswith(f"{rec}.get('retries'") or k == f"{rec}['retries']" for k in vals)
                else:                                   # a derived copy: the number is carried over
                    ok = vals == {'self.retries'}
                ctx.ob(rule, f'HandlerState.{meth.name}: the recorded attempts are carried over unchanged (only with_outcome counts)',
                       ok, loc=meth.loc(c), construct=construct(meth, 'flow:retries-carried'), detail=f'retries = {sorted(vals)}')
    ctx.require_sites(rule, 'HandlerState.with_outcome: site that counts the attempt', len(growth), 1, hs.module.relpath())
    # the per-handler record is replaced by with_outcome exactly for the handlers that have an outcome
    so = repo.fn(f'{PRG}.State.with_outcomes')
    ctx.analysed(so)
    calls = [c for c in calls_in(so.node) if method_call(c, 'with_outcome') is not None]
    ctx.require_sites(rule, 'State.with_outcomes: per-handler with_outcome', len(calls), 1, so.loc())


# ====================================================================== R2.5 keys
def check_keys(ctx: Ctx, rule: str = 'R2.5') -> None:
    repo = ctx.repo
    rec = repo.cls(f'{PROGRESS}.ProgressRecord')
    fields = set(rec.fields)
    ctx.ob(rule, f'ProgressRecord declares the nine progress keys ({len(fields)} found)', len(fields) >= 9, loc=rec.module.relpath(),
           construct=f'{rec.qualname}:keys:declared', detail=str(sorted(fields)))
    w = repo.fn(f'{PRG}.HandlerState.for_storage')
    r = repo.fn(f'{PRG}.HandlerState.from_storage')
    ctx.analysed(w, r)
    ctors = [c for c in calls_in(w.node) if is_call_to(repo, w, c, f'{PROGRESS}.ProgressRecord')]
    ctx.require_sites(rule, 'HandlerState.for_storage: construction of the ProgressRecord', len(ctors), 1, w.loc())
    written: set[str] = set()
    for c in ctors:
        written |= {k.arg for k in c.keywords if k.arg}
        for k in c.keywords:
            if not k.arg:
                continue
            selfs = {n.attr for n in ast.walk(k.value) if isinstance(n, ast.Attribute) and dotted(n.value) == 'self'}
            ctx.ob(rule, f'HandlerState.for_storage: key `{k.arg}` is written from the field of the same name', selfs == {k.arg}, loc=w.loc(k.value),
                   construct=construct(w, f'keys:write:{k.arg}'), detail=f'written from self.{sorted(selfs)}')
    d = (list(r.node.args.posonlyargs) + list(r.node.args.args))
    dparam = d[1].arg if len(d) > 1 else None
    if dparam is None:
        raise AnalysisError(f'{r.loc()}: from_storage has no record parameter')
    read: set[str] = set()
    kw_reads: dict[str, set[str]] = {}

    def keys_read(node: ast.AST) -> set[str]:
        out = set()
        for n in ast.walk(node):
            if isinstance(n, ast.Call) and method_call(n, 'get') is not None and dotted(method_call(n, 'get')) == dparam and n.args \
                    and isinstance(n.args[0], ast.Constant):
                out.add(n.args[0].value)
            elif isinstance(n, ast.Subscript) and dotted(n.value) == dparam and isinstance(n.slice, ast.Constant):
                out.add(n.slice.value)
        return out
    rc = _ctor_calls(repo, r)
    ctx.require_sites(rule, 'HandlerState.from_storage: construction of the handler state', len(rc), 1, r.loc())
    for c in rc:
        for k in c.keywords:
            if k.arg:
                ks = keys_read(k.value)
                read |= ks
                if ks:
                    kw_reads[k.arg] = ks
    ctx.ob(rule, 'the keys written by for_storage are exactly the declared ProgressRecord keys', written == fields, loc=w.loc(),
           construct=construct(w, 'keys:written=declared'), detail=f'written-declared={sorted(written - fields)}, declared-written={sorted(fields - written)}')
    ctx.ob(rule, 'every key written by for_storage is read back by from_storage (a key not read back silently resets that part of the progress)',
           written <= read, loc=r.loc(), construct=construct(r, 'keys:written<=read'), detail=f'never read back: {sorted(written - read)}')
    ctx.ob(rule, 'from_storage reads only declared keys', read <= fields, loc=r.loc(), construct=construct(r, 'keys:read<=declared'),
           detail=f'undeclared keys read: {sorted(read - fields)}')
    for fld, ks in sorted(kw_reads.items()):
        ctx.ob(rule, f'HandlerState.from_storage: field `{fld}` is restored from the key of the same name', ks == {fld}, loc=r.loc(),
               construct=construct(r, f'keys:read:{fld}'), detail=f'restored from {sorted(ks)}')


# ====================================================================== R2.6 / R2.7 closing the cycle
def _pcc_effects(repo, f):
    table = [(f'{EXE}.execute_handlers_once', 'exec'), (f'{PRG}.State.with_outcomes', 'with_outcomes'), (f'{PRG}.State.store', 'store'),
             (f'{PRG}.State.purge', 'purge'), (f'{PRG}.deliver_results', 'deliver'), (f'{PRG}.State.from_storage', 'from_storage'),
             (f'{PRG}.State.with_purpose', 'with_purpose'), (f'{PRG}.State.with_handlers', 'with_handlers')]

    def eff(it, p, call, names):
        for q, lab in table:
            if q in names:
                return lab
        r = method_call(call, 'store')
        if r is not None and (dotted(r) or '').endswith('diffbase_storage'):
            return 'diffstore'
        if any(n.endswith('DiffBaseStorage.store') for n in names) and not any(n.endswith('State.store') for n in names):
            return 'diffstore'
        return None
    return eff


DONE_AFTER = r'^truthy\(.*\.with_outcomes\(.*\)\.done\)$'


def check_cycle_closing(ctx: Ctx, rule_order: Optional[str] = 'R2.6', rule_guard: str = 'R2.7', flag_only: bool = False) -> None:
    repo = ctx.repo
    f, g = cfg_of(ctx, f'{PROC}.process_changing_cause')
    if rule_order:
        ex = g.call_nodes(f'{EXE}.execute_handlers_once')
        wo = g.call_nodes(f'{PRG}.State.with_outcomes')
        st = g.call_nodes(f'{PRG}.State.store')
        pu = g.call_nodes(f'{PRG}.State.purge')
        ctx.require_sites(rule_order, 'process_changing_cause: handler execution', len(ex), 1, f.loc())
        ctx.require_sites(rule_order, 'process_changing_cause: state.with_outcomes', len(wo), 1, f.loc())
        ctx.require_sites(rule_order, 'process_changing_cause: state.store', len(st), 1, f.loc())
        esc = g.escaping_exits(ex, wo, classes=('normal',))
        ctx.ob(rule_order, 'process_changing_cause: after the handlers were executed every normal path merges the outcomes into the state '
               '(`state.with_outcomes(outcomes)`)', not esc and bool(wo), loc=f.loc(ex[0].stmt) if ex else f.loc(),
               construct=construct(f, 'allexits:exec->with_outcomes'), detail='; '.join(witness(g, ex, e, wo) for e in esc[:1]))
        esc = g.escaping_exits(wo, st, classes=('normal',))
        ctx.ob(rule_order, 'process_changing_cause: after the outcomes were merged every normal path persists the progress (`state.store`)',
               not esc and bool(st), loc=f.loc(wo[0].stmt) if wo else f.loc(), construct=construct(f, 'allexits:with_outcomes->store'),
               detail='; '.join(witness(g, wo, e, st) for e in esc[:1]))
        early = [n for n in pu if n in g.reach(ex, stop=lambda n: n in set(st))]
        ctx.ob(rule_order, 'process_changing_cause: a purge after the execution comes after the store (else the store re-creates purged records)',
               not early, loc=f.loc(early[0].stmt) if early else f.loc(), construct=construct(f, 'order:store<purge'))
        # data flow between the steps
        for n in ex:
            outv = n.stmt.targets[0].id if isinstance(n.stmt, ast.Assign) and isinstance(n.stmt.targets[0], ast.Name) else None
            for w in wo:
                c = [c for c in calls_in(w.stmt) if is_call_to(repo, f, c, f'{PRG}.State.with_outcomes')][0]
                a = c.args[0] if c.args else kwarg(c, 'outcomes')
                ctx.ob(rule_order, 'process_changing_cause: the outcomes merged into the state are those just returned by the execution',
                       outv is not None and dotted(a) == outv, loc=f.loc(c), construct=construct(f, 'flow:with_outcomes(outcomes)'))
                sv = w.stmt.targets[0].id if isinstance(w.stmt, ast.Assign) and isinstance(w.stmt.targets[0], ast.Name) else None
                for s in st:
                    sc = [c for c in calls_in(s.stmt) if is_call_to(repo, f, c, f'{PRG}.State.store')][0]
                    ctx.ob(rule_order, 'process_changing_cause: the state persisted is the one that includes the outcomes', sv is not None
                           and dotted(method_call(sc, 'store')) == sv and s in g.reach([w]), loc=f.loc(sc), construct=construct(f, 'flow:merged.store'))

    # R2.7: decision table of the closing steps
    paths = absint.analyse(repo, f, absint.Config(effect=_pcc_effects(repo, f)))
    hreasons = _const_names(repo, 'kopf._core.intents.causes.HANDLER_REASONS')
    flag = 'fully_handled_once'

    def H(p):
        vals = [p.atoms.get(k) for k in p.atoms if any(k == f'eq(cause.reason, {m})' for m in hreasons)]
        if any(v is True for v in vals):
            return True
        if len(vals) == len(hreasons) and all(v is False for v in vals):
            return False
        # implied by another reason being equal
        if any(v is True for k, v in p.atoms.items() if k.startswith('eq(cause.reason, ')):
            return False
        return None
    atoms = {
        'H': H,
        'CH': lambda p: _one(p, r'^truthy\(.*get_handlers\(.*\)\)$'),
        'DN': DONE_AFTER,
        'NN': (r'^isnone\(cause\.new\)$', 'isnone(cause.new)'),
        'EQ': r'^eq\(cause\.(new, cause\.old|old, cause\.new)\)$',
    }

    def spec(v):
        executed = v['H'] and v['CH']
        closing = (executed and v['DN']) or (v['H'] and not v['CH'])
        base = closing and not v['NN'] and not v['EQ']
        if flag_only:
            return ('flag:=True',) if closing else ()
        return ('exec' if executed else '-', 'purge' if executed and v['DN'] else '-', 'diffbase' if base else '-', 'flag:=True' if closing else '-')

    def observe(p):
        labs = p.labels()
        flags = tuple(f'flag:={e.kw["value"].key}' for e in p.trace if e.label.startswith('write:') and e.label.endswith('.' + flag))
        if flag_only:
            return flags
        nexec = labs.count('exec')
        after = labs[labs.index('exec'):] if nexec else []
        return ('exec' if nexec == 1 else '-' if nexec == 0 else f'exec x{nexec}', 'purge' if after.count('purge') == 1 else '-' if not after.count('purge') else 'purge x2',
                'diffbase' if labs.count('diffstore') == 1 else '-' if not labs.count('diffstore') else 'diffbase x2',
                flags[0] if len(flags) == 1 else '-' if not flags else str(flags))
    what = ('process_changing_cause: `memory.fully_handled_once` is set (to True) exactly when the cycle closes'
            if flag_only else
            'process_changing_cause: the cycle is closed (progress purged, diff-base stored unless unchanged, fully_handled_once set) exactly when '
            'every selected handler has finished (`state.done` of the state merged with the outcomes) or no handler was selected; never otherwise')
    table3(ctx, rule_guard, f, paths, atoms, spec, observe, what=what, tag='table:closing' + ('-flag' if flag_only else ''), min_rows=2 if flag_only else 3,
           short='process_changing_cause closing table')
    if not flag_only:
        # the essence stored as the new diff-base is the one the handlers were selected for
        for c in calls_in(f.node):
            r = method_call(c, 'store')
            if r is not None and (dotted(r) or '').endswith('diffbase_storage'):
                e = follow(f, kwarg(c, 'essence'))
                ctx.ob(rule_guard, 'process_changing_cause: the last-handled state written on closing is the new essence of this cause (`cause.new`)',
                       dotted(e) == 'cause.new', loc=f.loc(c), construct=construct(f, 'flow:diffbase.store(essence=cause.new)'), detail=norm(e))


def _one(p: absint.Path, rx: str):
    return p.atom(rx)


def _const_names(repo, ref: str) -> list[str]:
    v = repo.const(ref)
    if not isinstance(v, (ast.Tuple, ast.List, ast.Set)):
        raise AnalysisError(f'{ref} is not a literal collection')
    m, _ = repo._split(ref)
    return [repo.resolve(m, e) or src(e) for e in v.elts]


# ====================================================================== R2.8 sibling protocol
PROTOCOL = ['from_storage', 'with_purpose', 'with_handlers', 'exec', 'with_outcomes', 'store', 'deliver']


def check_sibling_protocol(ctx: Ctx, rule: str = 'R2.8') -> None:
    repo = ctx.repo
    results = {}
    all_paths = {}
    for ref in (f'{PROC}.process_changing_cause', f'{SUBH}.execute'):
        f = repo.fn(ref)
        ctx.analysed(f)
        cfg = absint.Config(effect=_pcc_effects(repo, f))
        paths = [p for p in absint.analyse(repo, f, cfg, stmts=_protocol_scope(repo, f)) if 'exec' in p.labels()]
        all_paths[ref] = paths
        ctx.count('paths', len(paths))
        seqs = set()
        flow_bad = []
        for p in paths:
            labs = [l for l in p.labels() if l in PROTOCOL]
            # re-purposing may repeat; purges are R2.6/R2.7
            dedup = [l for i, l in enumerate(labs) if i == 0 or l != labs[i - 1] or l not in ('with_purpose',)]
            if dedup.count('with_purpose') > 1:
                dedup = [l for i, l in enumerate(dedup) if l != 'with_purpose' or i == dedup.index('with_purpose')]
            seqs.add(tuple(dedup))
            why = _protocol_flow(p)
            if why:
                flow_bad.append(why)
        results[ref] = seqs
        ok = seqs == {tuple(PROTOCOL)}
        ctx.ob(rule, f'{f.short}: every executing path follows the progress protocol State.from_storage(owned) -> with_purpose(reason) -> '
               'with_handlers(selected) -> execute_handlers_once -> with_outcomes -> store -> deliver_results', ok and bool(paths), loc=f.loc(),
               construct=construct(f, 'sibling:protocol-sequence'), detail='; '.join(' > '.join(s) for s in sorted(seqs) if s != tuple(PROTOCOL))[:300])
        ctx.ob(rule, f'{f.short}: the protocol steps are chained on the same data (owned handlers -> state -> selected handlers -> outcomes -> patch)',
               not flow_bad and bool(paths), loc=f.loc(), construct=construct(f, 'sibling:protocol-dataflow'), detail='; '.join(sorted(set(flow_bad))[:3]))
    a, b = results.values()
    ctx.ob(rule, 'process_changing_cause and subhandling.execute implement the same sequence of progress steps', a == b, loc='',
           construct='sibling:process_changing_cause~subhandling.execute')

    # subhandling.execute: raise HandlerChildrenRetry iff not done; references to sub-handlers propagated upwards
    f = repo.fn(f'{SUBH}.execute')
    paths = all_paths[f'{SUBH}.execute']
    retry_cls = f'{EXE}.HandlerChildrenRetry'

    def observe(p):
        if p.status == 'raise':
            raises = [e for e in p.trace if e.label.startswith('raise:')]
            call = raises[-1].node.exc if raises and isinstance(raises[-1].node, ast.Raise) else None
            d = follow(f, kwarg(call, 'delay')) if isinstance(call, ast.Call) else None
            delay_ok = d is not None and isinstance(d, ast.Attribute) and d.attr == 'delay'
            return ('raise', p.exc, 'delay=state.delay' if delay_ok else f'delay={norm(d)}')
        return (p.status,)
    table3(ctx, rule, f, paths, {'DN': DONE_AFTER},
           lambda v: ('run',) if v['DN'] else ('raise', retry_cls, 'delay=state.delay'), observe,
           what='subhandling.execute: ends with `raise HandlerChildrenRetry(delay=state.delay)` iff the sub-handlers are not all finished '
                '(the parent stays unfinished exactly as long as a child is)', tag='table:children-retry')
    _check_subrefs_propagation(ctx, rule, f)


def _protocol_scope(repo, f) -> list:
    """The statements of the function from the progress protocol on: compound statements in front of the statement that loads the
    state (argument validation, selection of the sub-registry) are left out when they contain no protocol step themselves."""
    body = absint._body(f)
    steps = (f'{PRG}.State.from_storage', f'{EXE}.execute_handlers_once', f'{PRG}.State.store', f'{PRG}.State.with_outcomes')

    def has_step(s: ast.AST) -> bool:
        return any(is_call_to(repo, f, c, *steps) for c in ast.walk(s) if isinstance(c, ast.Call))
    first = next((i for i, s in enumerate(body) if has_step(s)), None)
    if first is None:
        raise AnalysisError(f'{f.loc()}: no progress protocol step found in {f.short}')
    return [s for i, s in enumerate(body) if i >= first or not isinstance(s, (ast.If, ast.For, ast.While, ast.Try, ast.With, ast.Match))]


def _protocol_flow(p: absint.Path) -> str:
    e = {lab: [x for x in p.trace if x.label == lab] for lab in PROTOCOL}
    if any(not e[lab] for lab in PROTOCOL):
        return 'a protocol step is missing'
    fs, wh, ex, wo, st, dl = e['from_storage'][0], e['with_handlers'][-1], e['exec'][0], e['with_outcomes'][0], e['store'][0], e['deliver'][0]
    owned = fs.kw.get('handlers')
    if owned is None or 'get_resource_handlers' not in owned.key:
        return f'from_storage(handlers={owned.key if owned else None}) is not the owned handlers of the resource'
    sel = wh.kw.get('#0') or wh.kw.get('handlers')
    if sel is None or 'get_handlers(' not in sel.key:
        return 'with_handlers() does not receive the handlers selected for the cause'
    if ex.kw.get('handlers') is None or ex.kw['handlers'].key != sel.key:
        return 'the executed handlers differ from the handlers activated in the state'
    stv = ex.kw.get('state')
    if stv is None or '.with_handlers(' not in stv.key and '@loop' not in stv.key:
        return 'the execution does not receive the activated state'
    oc = wo.kw.get('#0') or wo.kw.get('outcomes')
    if oc is None or not oc.key.startswith(ex.key.split('(')[0]):
        return 'with_outcomes() does not receive the outcomes of the execution'
    if '.with_outcomes(' not in st.key.split('.store(')[0]:
        return 'store() is not called on the state merged with the outcomes'
    cause = ex.kw.get('cause')
    if cause is None:
        return 'the execution is not given the cause'
    if st.kw.get('patch') is None or st.kw['patch'].key != f'{cause.key}.patch':
        return 'store() does not write into the patch of the cause'
    do = dl.kw.get('outcomes')
    if do is None or do.key != oc.key or dl.kw.get('patch') is None or dl.kw['patch'].key != f'{cause.key}.patch':
        return 'deliver_results() does not deliver these outcomes into the patch of the cause'
    wp = e['with_purpose'][0]
    pv = wp.kw.get('#0') or wp.kw.get('purpose')
    if pv is None or pv.key != f'{cause.key}.reason':
        return 'with_purpose() is not given the reason of the cause'
    if fs.kw.get('body') is None or fs.kw['body'].key != f'{cause.key}.body' or st.kw.get('body') is None or st.kw['body'].key != f'{cause.key}.body':
        return 'the progress is not read from / written for the body of the cause'
    if fs.kw.get('storage') is None or st.kw.get('storage') is None or fs.kw['storage'].key != st.kw['storage'].key:
        return 'the progress is read from and stored to different storages'
    return ''


def _check_subrefs_propagation(ctx: Ctx, rule: str, f) -> None:
    repo = ctx.repo
    adds = []
    for outer in [n for n in walk_no_defs(f.node) if isinstance(n, ast.For)]:
        for inner in [n for s in outer.body for n in walk_no_defs(s) if isinstance(n, ast.For)]:
            for c in calls_in(inner):
                r = method_call(c, 'add')
                if r is None or not isinstance(inner.target, ast.Name) or not isinstance(outer.target, ast.Name) or len(c.args) != 1:
                    continue
                names = {dotted(r), dotted(c.args[0])}
                if names != {inner.target.id, outer.target.id}:
                    continue
                its = {norm(follow(f, outer.iter), 200), norm(follow(f, inner.iter), 200)}
                over_state = any(_is_state_after_outcomes(f, x) for x in (outer.iter, inner.iter))
                over_containers = any('subrefs_var' in s and '.get(' in s for s in its)
                cond = [x for lp in (outer, inner) for s in lp.body for x in walk_no_defs(s) if isinstance(x, (ast.If, ast.Break, ast.Continue, ast.Return, ast.Try))]
                adds.append((c, over_state and over_containers and not cond, f'loops over {sorted(its)}' + (', conditional' if cond else '')))
    ctx.require_sites(rule, 'subhandling.execute: propagation of sub-handler ids into the enclosing subrefs containers', len(adds), 1, f.loc())
    for c, ok, why in adds:
        ctx.ob(rule, 'subhandling.execute: every sub-handler id of the state is added to every enclosing `subrefs` container, unconditionally '
               '(so that the final purge of the parent removes the records of its children)', ok, loc=f.loc(c),
               construct=construct(f, 'flow:subrefs-propagation'), detail=why)
    # ... and it happens before the escalation
    _, g = cfg_of(ctx, f)
    add_nodes = g.stmt_nodes(lambda x: any(x is c for c, _, _ in adds))
    raises = [n for n in g.nodes if n.kind == 'raise' and isinstance(n.stmt.exc, ast.Call) and (repo.resolve(f.module, n.stmt.exc.func) or '').endswith('HandlerChildrenRetry')]
    loops = [n for n in g.nodes if n.kind == 'loop' and any(ad in g.reach([n]) for ad in add_nodes)]
    ctx.ob(rule, 'subhandling.execute: the references are propagated before `HandlerChildrenRetry` is raised', bool(raises) and bool(loops)
           and not g.dominated(raises, loops), loc=f.loc(), construct=construct(f, 'order:subrefs<raise'))


def _is_state_after_outcomes(f, e: ast.AST) -> bool:
    if not isinstance(e, ast.Name):
        return False
    for n in walk_no_defs(f.node):
        if isinstance(n, ast.Assign) and any(isinstance(t, ast.Name) and t.id == e.id for t in n.targets) \
                and any(method_call(c, 'with_outcomes') is not None for c in calls_in(n.value)):
            return True
    return False


# ====================================================================== R2.9 children retry keeps the parent unfinished
def check_children_retry(ctx: Ctx, rule: str = 'R2.9') -> None:
    from . import C11
    C11.check_outcome_table(ctx, rule, only=('children',))
    check_with_outcome(ctx, rule)


def check_with_outcome(ctx: Ctx, rule: str) -> None:
    """HandlerState.with_outcome: success/failure are set only by final outcomes (a non-final outcome leaves the handler unfinished)."""
    repo = ctx.repo
    f = repo.fn(f'{PRG}.HandlerState.with_outcome')
    ctx.analysed(f)
    ctors = _ctor_calls(repo, f)
    ctx.require_sites(rule, 'HandlerState.with_outcome: construction of the new state', len(ctors), 1, f.loc())
    for c in ctors:
        it = absint.Interp(repo, f, absint.Config())
        p0 = absint.Path()
        for a in f.params():
            p0.env[a.arg] = absint.sym(a.arg)
        paths = []
        outs = [(p0, {})]
        for name in ('success', 'failure'):
            v = kwarg(c, name)
            if v is None:
                ctx.ob(rule, f'HandlerState.with_outcome sets `{name}`', False, loc=f.loc(c), construct=construct(f, f'formula:{name}'))
                return
            nxt = []
            for q, d in outs:
                for q2, val in it.fork_value(v, q):
                    nxt.append((q2, dict(d, **{name: val})))
            outs = nxt
        for q, d in outs:
            q.notes.append(repr({k: (v.data if v.kind in ('bool', 'const') else v.key) for k, v in d.items()}))
            paths.append(q)
        table3(ctx, rule, f, paths, {'FINAL': r'^truthy\(outcome\.final\)$', 'EXC': (r'^isnone\(outcome\.exception\)$', 'isnone(outcome.exception)')},
               lambda v: repr({'success': bool(v['FINAL'] and v['EXC']), 'failure': bool(v['FINAL'] and not v['EXC'])}),
               lambda p: p.notes[-1], tag='formula:success/failure',
               what='HandlerState.with_outcome: success == final and no exception; failure == final and exception (a non-final outcome, e.g. '
                    'HandlerChildrenRetry, leaves the handler unfinished)')


# ====================================================================== R2.10 purge
def check_purge(ctx: Ctx, rule: str = 'R2.10') -> None:
    repo = ctx.repo
    f, g = cfg_of(ctx, f'{PRG}.State.purge')
    storage, handlers = param(f, 'storage'), param(f, 'handlers')
    sites = [c for c in calls_in(f.node) if method_call(c, 'purge') is not None and dotted(method_call(c, 'purge')) == storage]
    ctx.require_sites(rule, 'State.purge: storage.purge sites', len(sites), 3, f.loc())
    roles: dict[str, list] = {'own': [], 'stored': [], 'subrefs': []}
    parent = f.module.parent
    for c in sites:
        key = kwarg(c, 'key', 0)
        loop = None
        chain = []
        n: Any = c
        while n is not None and n is not f.node:
            n = parent.get(n)
            if isinstance(n, (ast.For, ast.If)):
                chain.append(n)
        for n in chain:
            if isinstance(n, ast.For) and isinstance(key, ast.Name) and key.id in {x.id for x in ast.walk(n.target) if isinstance(x, ast.Name)}:
                loop = n
                break
        if loop is None:
            continue
        it = follow(f, loop.iter)
        s = norm(it, 300)
        conds = [n for n in chain[:chain.index(loop)] if isinstance(n, ast.If)]
        if isinstance(it, (ast.SetComp, ast.ListComp, ast.GeneratorExp)) and dotted(it.generators[0].iter) == handlers and src(it.elt).endswith('.id'):
            roles['own'].append((c, conds))
        elif 'self._states' in s and isinstance(loop.target, (ast.Tuple, ast.Name)) and (not isinstance(loop.target, ast.Tuple) or loop.target.elts[0] is not None
                                                                                       and isinstance(loop.target.elts[0], ast.Name) and loop.target.elts[0].id == key.id):
            roles['stored'].append((c, conds))
        elif isinstance(it, ast.Attribute) and it.attr == 'subrefs':
            # the state whose subrefs are walked must range over all recorded states, with no condition in between
            outer = [n for n in chain[chain.index(loop) + 1:]]
            outer_loops = [n for n in outer if isinstance(n, ast.For)]
            outer_conds = [n for n in outer if isinstance(n, ast.If)]
            over_all = bool(outer_loops) and 'self._states' in norm(follow(f, outer_loops[0].iter), 300)
            roles['subrefs'].append((c, conds + outer_conds + ([] if over_all else [loop])))
    what = {'own': 'the ids of the given (owned) handlers', 'stored': 'the ids recorded in the state', 'subrefs': 'the sub-handler references (`subrefs`) of every recorded state'}
    for role, found in roles.items():
        ctx.ob(rule, f'State.purge purges {what[role]}', bool(found), loc=f.loc(found[0][0]) if found else f.loc(), construct=construct(f, f'confine:purge:{role}'))
    for c, conds in roles['own'] + roles['subrefs']:
        role = 'own' if (c, conds) in roles['own'] else 'subrefs'
        ctx.ob(rule, f'State.purge: purging {what[role]} is unconditional', not conds, loc=f.loc(c), construct=construct(f, f'confine:purge:{role}:unconditional'),
               detail='; '.join(f'under `{norm(getattr(x, "test", x), 60)}`' for x in conds))
    for c, conds in roles['stored']:
        # a stored id may be skipped only if it was already purged as an own id
        ok = all(isinstance(x.test, ast.Compare) and isinstance(x.test.ops[0], ast.NotIn) for x in conds)
        ctx.ob(rule, 'State.purge: a recorded id is skipped only when it is among the own ids (already purged)', ok, loc=f.loc(c),
               construct=construct(f, 'confine:purge:stored:guard'))
    unclassified = [c for c in sites if not any(c is x for v in roles.values() for x, _ in v)]
    ctx.ob(rule, 'State.purge: every storage.purge site is one of the three roles', not unclassified, loc=f.loc(unclassified[0]) if unclassified else f.loc(),
           construct=construct(f, 'confine:purge:roles'))


def check(ctx: Ctx) -> None:
    check_selection_flow(ctx)
    check_lifecycles(ctx)
    check_formulas(ctx)
    check_retry_flow(ctx)
    check_keys(ctx)
    check_cycle_closing(ctx)
    check_sibling_protocol(ctx)
    check_children_retry(ctx)
    check_purge(ctx)
    from . import _extra
    _extra.check_repurpose_all(ctx, 'R2.11')


SPEC = PropSpec(
    id='C02',
    title='Recorded handler progress governs invocation (no re-run of finished handlers)',
    technique='static analysis: def-use flow of the execution plan and the retry number (FLOW), truth tables of the progress predicates by path '
              'enumeration over a predicate abstraction with an ordering domain (FORMULA/TABLE), writer/reader key tables (KEYS), statement CFG '
              '(ALLEXITS/ORDER), protocol agreement of the two handling cycles (SIBLING), purge footprint (CONFINE)',
    level_text='Static analysis of the current source: decides the structural clauses R2.1-R2.10 -- the handlers executed are exactly lifecycle(awakened '
               'subset of the selected handlers) and every built-in lifecycle returns a subset of what it is offered; finished == success or failure, '
               'awakened == not finished and not delayed into the future, done == all active finished; retry= is the recorded attempt count, which '
               'grows by exactly 1 per outcome; the nine progress keys written are the keys read back; after execution the outcomes are merged and '
               'stored on every normal path, purge only after store; the cycle is closed (purge, diff-base, fully_handled_once) exactly when the merged '
               'state is done or nothing was selected (full decision table); process_changing_cause and subhandling.execute follow the same protocol, '
               'HandlerChildrenRetry is raised iff not done and is a non-final outcome; State.purge covers own ids, recorded ids and all subrefs. '
               'These are necessary conditions; the behaviour over histories (at most once per cycle across events, restarts and kills) is NOT decided.',
    level_note='branch predicates are opaque atoms; `now` is one symbol per activation; user lifecycles are outside the claim; storages are assumed to '
               'return what was stored (C16); DESIGN.md §3',
    design_ref='DESIGN.md §4 C02',
    explanation='FLOW on execute_handlers_once / lifecycles / retry=, FORMULA on HandlerState.finished/awakened and State.done, KEYS over ProgressRecord / '
                'for_storage / from_storage, ALLEXITS+ORDER and a TABLE (H, handlers selected, done-after-outcomes, essence changed) on '
                'process_changing_cause, SIBLING with subhandling.execute, TABLE row HandlerChildrenRetry, CONFINE on State.purge.',
    not_decided='"at most once per cycle" across restarts, kills, lost responses and intervening events (history property); observation O2 (records are '
                'keyed by handler id and purpose, not by the change they served); user-supplied lifecycles.',
    check=check,
)
