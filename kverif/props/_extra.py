"""Supplementary rule instances added after the first rounds of seeded changes (DESIGN.md §8), shared across properties.

R16.5 / R4.7   storage `fetch` methods distinguish "absent" from "stored but falsy" by None-tests only (an empty essence `{}` is a value).
R2.11          when a cause supersedes another, EVERY selected handler is re-purposed (finished ones included), so no finished record is purged.
R13.5          the keep-alive sleeps strictly less than the record's lifetime (interval abstraction of the duration expression).
"""
from __future__ import annotations

import ast
from typing import Optional

from .. import absint
from ..core import Ctx
from ..rules import calls_in, construct, is_call_to, kwarg, method_call, norm, origin
from ..srcmodel import dotted, src, walk_no_defs


def check_fetch_none_tests(ctx: Ctx, rule: str) -> None:
    repo = ctx.repo
    n = 0
    for mod in ('kopf._cogs.configs.diffbase', 'kopf._cogs.configs.progress'):
        for f in repo.functions_in(mod):
            if f.name != 'fetch' or f.cls is None:
                continue
            body = [s for s in f.node.body if not (isinstance(s, ast.Expr) and isinstance(s.value, ast.Constant))]
            if len(body) == 1 and isinstance(body[0], ast.Raise):
                continue        # abstract
            n += 1
            ctx.analysed(f)
            paths = absint.analyse(repo, f, absint.Config())
            truthy = sorted({k for p in paths for k in p.atoms if k.startswith('truthy(')})
            ctx.ob(rule, f'{f.short}: "nothing stored" is decided by `is None` tests only -- a stored but falsy value (an empty essence `{{}}`, an empty record) '
                   'is read back as a value, not as absent', not truthy, loc=f.loc(), construct=construct(f, 'formula:none-tests only'),
                   detail='; '.join(t[:90] for t in truthy[:3]))
            ctx.count('paths', len(paths))
    ctx.require_sites(rule, 'concrete storage fetch methods', n, 5)


def check_repurpose_all(ctx: Ctx, rule: str) -> None:
    repo = ctx.repo
    f = repo.fn('processing.process_changing_cause')
    ctx.analysed(f)
    selected = None
    for a in walk_no_defs(f.node):
        if isinstance(a, ast.Assign) and isinstance(a.value, ast.Call) and method_call(a.value, 'get_handlers') is not None \
                and kwarg(a.value, 'cause') is not None and isinstance(a.targets[0], ast.Name):
            selected = a.targets[0].id
    sel_call = None
    for a in walk_no_defs(f.node):
        if isinstance(a, ast.Assign) and isinstance(a.targets[0], ast.Name) and a.targets[0].id == selected:
            sel_call = a.value

    def is_selected(e: Optional[ast.AST]) -> bool:
        if e is None or selected is None:
            return False
        if isinstance(e, ast.Name) and e.id == selected:
            return True
        o = origin(f, e)
        return o is sel_call or (isinstance(o, ast.Name) and o.id == selected)
    calls = [c for c in calls_in(f.node) if method_call(c, 'with_purpose') is not None]
    ctx.require_sites(rule, 'process_changing_cause: re-purposing calls', len(calls), 2, f.loc())
    for c in calls:
        h = kwarg(c, 'handlers')
        if h is None:
            continue   # the initial with_purpose(reason) covers all records of the state
        o = origin(f, h)
        ok = is_selected(h)
        ctx.ob(rule, 'process_changing_cause: a superseding cause re-purposes ALL handlers selected for it (finished ones too) -- otherwise a finished '
               'handler keeps the old purpose, the whole state is purged as "superseded" and the handler is invoked again', ok, loc=f.loc(c),
               construct=construct(f, 'flow:with_purpose(handlers=all selected)'), detail=f'handlers={norm(o, 80)}')
    # ... and the same collection is what is offered for execution and merged with with_handlers
    wh = [c for c in calls_in(f.node) if method_call(c, 'with_handlers') is not None]
    ex = [c for c in calls_in(f.node) if is_call_to(repo, f, c, 'execution.execute_handlers_once')]
    ok = all(c.args and is_selected(c.args[0]) for c in wh) and all(is_selected(kwarg(c, 'handlers')) for c in ex) and bool(wh) and bool(ex)
    ctx.ob(rule, 'process_changing_cause: the handlers selected by get_handlers(cause) are, unfiltered, what the state is extended with and what is offered for execution',
           ok, loc=f.loc(), construct=construct(f, 'flow:selected handlers unfiltered'))


# --------------------------------------------------------------------------------------------- interval abstraction
def _affine(repo, f, e: ast.AST, life: str, depth: int = 0) -> Optional[tuple[int, float, float]]:
    """(a, lo, hi): value = a * lifetime + d with d in [lo, hi], for large lifetimes; None if outside the little language."""
    if depth > 6:
        return None
    if isinstance(e, ast.Constant) and isinstance(e.value, (int, float)) and not isinstance(e.value, bool):
        return (0, e.value, e.value)
    if isinstance(e, ast.Name):
        if e.id == life:
            return (1, 0, 0)
        o = origin(f, e)
        if o is not e:
            if src(o).endswith('peering.lifetime'):
                return (1, 0, 0)
            return _affine(repo, f, o, life, depth + 1)
        return None
    if isinstance(e, ast.Attribute) and src(e).endswith('peering.lifetime'):
        return (1, 0, 0)
    if isinstance(e, ast.BinOp) and isinstance(e.op, (ast.Sub, ast.Add)):
        l, r = _affine(repo, f, e.left, life, depth + 1), _affine(repo, f, e.right, life, depth + 1)
        if l is None or r is None:
            return None
        if isinstance(e.op, ast.Sub):
            return (l[0] - r[0], l[1] - r[2], l[2] - r[1])
        return (l[0] + r[0], l[1] + r[1], l[2] + r[2])
    if isinstance(e, ast.Call):
        name = repo.resolve(f.module, e.func) or dotted(e.func) or ''
        if name in ('random.randint', 'random.uniform') and len(e.args) == 2:
            a, b = _affine(repo, f, e.args[0], life, depth + 1), _affine(repo, f, e.args[1], life, depth + 1)
            if a and b and a[0] == 0 and b[0] == 0:
                return (0, a[1], b[2])
            return None
        if name in ('min', 'max') and len(e.args) >= 2 and not e.keywords:
            vals = [_affine(repo, f, a, life, depth + 1) for a in e.args]
            if any(v is None for v in vals):
                return None
            pick = min if name == 'min' else max
            top = pick(v[0] for v in vals)                      # for large lifetimes the coefficient decides
            cands = [v for v in vals if v[0] == top]
            return (top, pick(v[1] for v in cands), pick(v[2] for v in cands))
    return None


def check_keepalive_renewal(ctx: Ctx, rule: str) -> None:
    repo = ctx.repo
    f = repo.fn('peering.keepalive')
    ctx.analysed(f)
    loops = [n for n in walk_no_defs(f.node) if isinstance(n, ast.While)]
    sleeps = [c for lp in loops for c in calls_in(lp) if (repo.resolve(f.module, c.func) or '') == 'asyncio.sleep']
    ctx.require_sites(rule, 'keepalive: sleep between two keep-alives', len(sleeps), 1, f.loc())
    for c in sleeps:
        v = _affine(repo, f, c.args[0], '<none>') if c.args else None
        if v is None:
            ctx.notes.append(f'{rule}: the keep-alive sleep expression `{norm(c.args[0] if c.args else None)}` is outside the interval abstraction: not decided')
            ctx.ob(rule, 'keepalive: the sleep between keep-alives is an expression over the lifetime, constants, min/max and a bounded jitter', False,
                   loc=f.loc(c), construct=construct(f, 'interval:sleep<lifetime'), detail='expression not understood; cannot show that the record is renewed before it expires')
            continue
        a, lo, hi = v
        ctx.ob(rule, 'keepalive: (interval abstraction, for lifetimes above the constants involved) the sleep between two keep-alives is at most '
               f'lifetime - 1 s, i.e. the record is renewed before it expires [sleep = {a}*lifetime + d, d in [{lo}, {hi}]]', a < 1 or (a == 1 and hi <= -1),
               loc=f.loc(c), construct=construct(f, 'interval:sleep<lifetime'),
               detail='' if (a < 1 or (a == 1 and hi <= -1)) else f'the sleep can be as long as lifetime{hi:+g} s: the renewal is not issued before the record expires')


def check_universal_loop(ctx: Ctx, rule: str, ref: str) -> None:
    """A filter over several declared criteria is a conjunction: inside the loop over the criteria only a FAILING criterion may end the
    loop (`return False`); a passing one continues; after the loop the verdict is True."""
    repo = ctx.repo
    f = repo.fn(ref)
    ctx.analysed(f)
    loops = [n for n in walk_no_defs(f.node) if isinstance(n, ast.For)]
    ctx.require_sites(rule, f'{f.short}: loop over the declared criteria', len(loops), 1, f.loc())
    for lp in loops:
        rets = [r for s in lp.body for r in walk_no_defs(s) if isinstance(r, ast.Return)]
        brks = [r for s in lp.body for r in walk_no_defs(s) if isinstance(r, ast.Break)]
        bad = [r for r in rets if not (isinstance(r.value, ast.Constant) and r.value.value is False)]
        ctx.ob(rule, f'{f.short}: all declared criteria must hold -- inside the loop only a failing criterion ends it (`return False`); a passing criterion '
               'never returns or breaks early', not bad and not brks and bool(rets), loc=f.loc(bad[0]) if bad else f.loc(lp),
               construct=construct(f, 'formula:conjunction over criteria'), detail='; '.join(norm(r, 70) for r in bad + brks))
    tail = [s for s in f.node.body if isinstance(s, ast.Return)]
    ctx.ob(rule, f'{f.short}: when no criterion failed the verdict is True', bool(tail) and isinstance(tail[-1].value, ast.Constant) and tail[-1].value.value is True,
           loc=f.loc(), construct=construct(f, 'formula:default True'))


def check_store_unconditional(ctx: Ctx, rule: str) -> None:
    """`store` of a concrete storage writes the record whatever the object currently holds (only `touch`/`purge` may look at the body):
    a write skipped because the body already has the value cannot override what the same patch holds for that key."""
    from ..rules import cfg_of, dominating_conditions
    repo = ctx.repo
    n = 0
    for mod in ('kopf._cogs.configs.diffbase', 'kopf._cogs.configs.progress'):
        for f in repo.functions_in(mod):
            if f.name != 'store' or f.cls is None or f.cls.node.name.startswith('Multi'):
                continue
            body = [s for s in f.node.body if not (isinstance(s, ast.Expr) and isinstance(s.value, ast.Constant))]
            if len(body) == 1 and isinstance(body[0], ast.Raise):
                continue
            g = cfg_of(ctx, f)[1]
            writes = [x for x in g.nodes if x.kind == 'stmt' and (
                any(is_call_to(repo, f, c, 'dicts.ensure') for c in calls_in(x.stmt)) or
                (isinstance(x.stmt, ast.Assign) and any(isinstance(t, ast.Subscript) and 'patch' in src(t.value) for t in x.stmt.targets)))]
            if not writes:
                continue
            n += 1
            guarded = []
            for w in writes:
                conds = [(t, o) for t, o, _ in dominating_conditions(g, w)]
                if conds:
                    guarded.append((w, conds))
            ctx.ob(rule, f'{f.short}: the record is written into the patch unconditionally (no test of what the body or the patch currently hold)', not guarded,
                   loc=f.loc(guarded[0][0].stmt) if guarded else f.loc(), construct=construct(f, 'allexits:unconditional write'),
                   detail='; '.join(f'write at L{w.lineno} only under `{norm(c[0][0], 50)}`' for w, c in guarded[:2]))
    ctx.require_sites(rule, 'concrete storage store methods', n, 4)


def check_index_alias(ctx: Ctx, rule: str) -> None:
    """Index._replace: the reverse-index set taken from `self.__reverse[acckey]` is not written through after `_discard`, which may delete
    (and thereby detach) that very entry."""
    from ..rules import cfg_of
    repo = ctx.repo
    f, g = cfg_of(ctx, 'indexing.Index._replace')
    d = repo.fn('indexing.Index._discard')
    ctx.analysed(d)
    deletes_reverse = any(isinstance(n, ast.Delete) and any('__reverse' in src(t) for t in n.targets) for n in walk_no_defs(d.node))
    ctx.ob(rule, 'Index._discard frees an emptied reverse-index entry (premise of the ordering rule below)', deletes_reverse, loc=d.loc(),
           construct=construct(d, 'premise:del reverse entry'), nontrivial=False)
    aliases = set()
    for n in walk_no_defs(f.node):
        if isinstance(n, ast.Assign) and '__reverse' in src(n.value if not isinstance(n.value, ast.Constant) else n.targets[0]) or \
                (isinstance(n, ast.Assign) and any('__reverse' in src(t) for t in n.targets)):
            for t in n.targets:
                if isinstance(t, ast.Name):
                    aliases.add(t.id)
    discards = [x for x in g.nodes if x.kind == 'stmt' and any(method_call(c, '_discard') is not None and src(method_call(c, '_discard')) == 'self' for c in calls_in(x.stmt))]
    ctx.require_sites(rule, 'Index._replace: discard of the obsolete keys', len(discards), 1, f.loc())
    after = g.reach(discards)
    bad = [x for x in after if x.stmt is not None and x.kind == 'stmt' and any(
        isinstance(c.func, ast.Attribute) and isinstance(c.func.value, ast.Name) and c.func.value.id in aliases
        and c.func.attr in ('add', 'update', 'discard', 'remove', 'clear', 'pop') for c in calls_in(x.stmt))]
    ctx.ob(rule, 'Index._replace: the obsolete keys are discarded last -- the local alias of the reverse-index entry is never updated after a call '
           'that may delete that entry (else the new keys are recorded in a detached set and the object can never be removed again)',
           not bad and bool(aliases), loc=f.loc(bad[0].stmt) if bad else f.loc(), construct=construct(f, 'order:alias writes<_discard'),
           detail='; '.join(f'L{x.lineno} `{x.label[:50]}`' for x in bad[:2]))


def check_presence_probe(ctx: Ctx, rule: str) -> None:
    """Patch._apply_patch: whether the target exists is probed with a private sentinel; None is a value a reviewed object can hold."""
    repo = ctx.repo
    f = repo.fn('patches.Patch._apply_patch')
    ctx.analysed(f)
    probes = [c for c in calls_in(f.node) if is_call_to(repo, f, c, 'dicts.resolve')]
    ctx.require_sites(rule, '_apply_patch: presence probe (dicts.resolve with a default)', len(probes), 1, f.loc())
    for c in probes:
        default = c.args[2] if len(c.args) > 2 else kwarg(c, 'default')
        o = origin(f, default) if default is not None else None
        ok = isinstance(o, ast.Call) and dotted(o.func) == 'object' and not o.args
        ctx.ob(rule, '_apply_patch: the "is there a target at all" probe uses a private sentinel default (object()), so that a field holding an explicit '
               'null is still recognised as a present non-mapping target and replaced by a mapping (RFC 7386)', ok, loc=f.loc(c),
               construct=construct(f, 'config:resolve(default=sentinel)'), detail=f'default is `{norm(o)}`')


def check_revision_lock_scope(ctx: Ctx, rule: str) -> None:
    """orchestrator: the insights condition is held from the wake-up through adjust_tasks and across iterations (no lost wake-up)."""
    from ..rules import cfg_of
    repo = ctx.repo
    f, g = cfg_of(ctx, 'orchestration.orchestrator')
    adj = g.call_nodes('orchestration.adjust_tasks')
    waits = [x for x in g.nodes if x.kind == 'stmt' and any(method_call(c, 'wait') is not None and src(method_call(c, 'wait')).endswith('.revised') for c in calls_in(x.stmt))]
    ctx.require_sites(rule, 'orchestrator: adjust_tasks call', len(adj), 1, f.loc())
    ctx.require_sites(rule, 'orchestrator: wait for a revision', len(waits), 1, f.loc())

    def lock_frames(x):
        return [fr for fr in x.frames if fr.kind == 'with' and isinstance(fr.stmt, ast.AsyncWith)
                and any(src(it.context_expr).endswith('.revised') for it in fr.stmt.items)]
    ok = bool(adj) and bool(waits)
    for a in adj:
        for w in waits:
            fa, fw = lock_frames(a), lock_frames(w)
            same = bool(fa) and bool(fw) and fa[0].stmt is fw[0].stmt
            # the loop that repeats wait+adjust lies inside that with-block (the lock is not released between iterations)
            loops_a = [fr for fr in a.frames if fr.kind == 'loop']
            inside = same and all(any(x is fa[0] for x in a.frames[:a.frames.index(lp)]) for lp in loops_a) and bool(loops_a)
            ok = ok and same and inside
    ctx.ob(rule, 'orchestrator: the revision condition is held continuously from waking up through adjust_tasks and across iterations -- a revision '
           'notified while tasks are being adjusted is not lost (else a removed namespace/CRD keeps its watcher, an added one gets none)', ok,
           loc=f.loc(adj[0].stmt) if adj else f.loc(), construct=construct(f, 'atomic:revised lock scope'))


def check_activity_accumulates(ctx: Ctx, rule: str) -> None:
    """run_activity: failures of EVERY cycle decide the activity's verdict (outcomes are accumulated, not overwritten by the last cycle)."""
    repo = ctx.repo
    f = repo.fn('activities.run_activity')
    ctx.analysed(f)
    loops = [n for n in walk_no_defs(f.node) if isinstance(n, ast.While)]
    raises = [n for n in walk_no_defs(f.node) if isinstance(n, ast.Raise)]
    ctx.require_sites(rule, 'run_activity: retry loop', len(loops), 1, f.loc())
    ctx.require_sites(rule, 'run_activity: failure escalation (raise)', len(raises), 1, f.loc())
    if not loops:
        return
    lp = loops[0]
    execs = [c for c in calls_in(lp) if is_call_to(repo, f, c, 'execution.execute_handlers_once')]
    # the collection whose exceptions decide the verdict: the one iterated (`.values()`/`.items()`) after the loop
    after = False
    examined = set()
    for s in f.node.body:
        if s is lp:
            after = True
            continue
        if after:
            for n in walk_no_defs(s):
                if isinstance(n, ast.Call) and isinstance(n.func, ast.Attribute) and n.func.attr in ('values', 'items') and isinstance(n.func.value, ast.Name):
                    examined.add(n.func.value.id)
    ctx.ob(rule, 'run_activity: after the retry loop one collection of outcomes is examined for failures', len(examined) == 1, loc=f.loc(),
           construct=construct(f, 'flow:examined outcomes'), detail=str(sorted(examined)))
    for x in examined:
        plain = [n for s in lp.body for n in walk_no_defs(s) if isinstance(n, (ast.Assign, ast.AnnAssign))
                 and any(isinstance(t, ast.Name) and t.id == x for t in (n.targets if isinstance(n, ast.Assign) else [n.target]))]
        accum = [n for s in lp.body for n in walk_no_defs(s) if (isinstance(n, ast.AugAssign) and isinstance(n.op, ast.BitOr) and dotted(n.target) == x)
                 or (isinstance(n, ast.Call) and method_call(n, 'update') is not None and dotted(method_call(n, 'update')) == x)]
        ctx.ob(rule, f'run_activity: `{x}` accumulates the outcomes of every cycle (a failure recorded in an earlier cycle still fails the activity: '
               'a failed startup handler aborts the operator even if other handlers needed more cycles)', bool(accum) and not plain and bool(execs),
               loc=f.loc(plain[0]) if plain else f.loc(lp), construct=construct(f, 'flow:outcomes accumulate'),
               detail='; '.join(norm(n, 80) for n in plain))
    # the state merged with each cycle's outcomes drives the loop
    merges = [c for c in calls_in(lp) if method_call(c, 'with_outcomes') is not None]
    ctx.ob(rule, 'run_activity: each cycle\'s outcomes are merged into the state that ends the loop', bool(merges), loc=f.loc(lp), construct=construct(f, 'flow:with_outcomes'))
