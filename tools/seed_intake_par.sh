#!/bin/sh
# Development aid: like seed_intake.sh, three seeds at a time.  usage: tools/seed_intake_par.sh <outdir> <nA> <nB>
od="$1"; na="$2"; nb="$3"
mkdir -p /tmp/seedwork/stage$od
for d in /tmp/seedwork/C*/$od/A /tmp/seedwork/C*/$od/B; do
  [ -f "$d/meta.json" ] && [ -f "$d/patch.diff" ] && [ -f "$d/demo.py" ] || continue
  pid=$(echo "$d" | sed 's#/tmp/seedwork/\(C[0-9]*\)/.*#\1#'); ab=$(basename "$d")
  n=$na; [ "$ab" = B ] && n=$nb
  sid="$pid-$n"; st="/tmp/seedwork/stage$od/$sid"
  [ -d "$st" ] && continue
  mkdir -p "$st"; cp "$d/patch.diff" "$d/demo.py" "$d/meta.json" "$st/"
  echo "$st"
done | xargs -P 3 -I{} sh -c '/verif/tools/try_seed.sh {}/patch.diff quick > {}/first_try.txt 2>&1; echo "$(basename {}) $(grep DETECTED-BY {}/first_try.txt)"; /verif/tools/confirm_seed.sh {} > {}/confirm.txt 2>&1; grep "^seed=" {}/confirm.txt | cut -c1-150'
cat /tmp/seedwork/stage$od/*/confirm.txt > /tmp/seedwork/confirm$od.log 2>/dev/null
