"""C11 -- handler error policy: retry delays, permanence, retries/timeout limits (DESIGN.md §4, R11.1-R11.6; Appendix A.2)."""
from __future__ import annotations

import ast
from typing import Any, Optional

from .. import absint
from ..core import Ctx, PropSpec
from ..rules import (calls_in, cfg_of, cond_implies, construct, except_chain_order, is_call_to, kwarg, method_call, norm, origin, witness)
from ..srcmodel import AnalysisError, dotted, src, walk_no_defs
from .C02 import (EXE, PRG, REL3, SKIP, _ctor_calls, check_formulas, check_keys, check_selection_flow, cmp_rel, follow, is_now_key, param,
                  table3)

CANCELLED = 'asyncio.CancelledError'
SLEEP = 'kopf._cogs.aiokits.aiotime.sleep'


def _short(c: Optional[str]) -> Optional[str]:
    return c.rsplit('.', 1)[-1] if c else c


def _invocation_try(repo, f) -> ast.Try:
    tries = [n for n in walk_no_defs(f.node) if isinstance(n, ast.Try)
             and any(is_call_to(repo, f, c, f'{EXE}.invoke_handler') for s in n.body for c in calls_in(s))]
    if len(tries) != 1:
        raise AnalysisError(f'{f.loc()}: expected exactly one try statement around invoke_handler in {f.short}, found {len(tries)}')
    return tries[0]


# ====================================================================== R11.1 dispatch order
def check_dispatch(ctx: Ctx, rule: str = 'R11.1') -> None:
    repo = ctx.repo
    f = repo.fn(f'{EXE}.execute_handler_once')
    ctx.analysed(f)
    t = _invocation_try(repo, f)
    chain = except_chain_order(ctx, rule, f, t, label='execute_handler_once')
    flat = [c for arm in chain for c in arm]
    need = [CANCELLED, f'{EXE}.HandlerChildrenRetry', f'{EXE}.TemporaryError', f'{EXE}.HandlerTimeoutError', f'{EXE}.HandlerRetriesError',
            f'{EXE}.PermanentError', 'Exception']
    for c in need:
        # an arm of its own, or -- for the two limit errors -- the arm of their superclass PermanentError (same outcome by table R11.2: final, exception=e),
        # provided no earlier arm would take them first
        own = c in flat
        via_super = False
        if not own and c in (f'{EXE}.HandlerTimeoutError', f'{EXE}.HandlerRetriesError'):
            first = next((k for k in flat if repo.is_subclass(c, k)), None)
            via_super = first == f'{EXE}.PermanentError'
        ctx.ob(rule, f'execute_handler_once: the except chain has an arm for {_short(c)}', own or via_super, loc=f.loc(t),
               construct=construct(f, f'dispatch:arm:{_short(c)}'))
    # hierarchy facts the order relies on (read from the source)
    for sub, sup in ((f'{EXE}.HandlerChildrenRetry', f'{EXE}.TemporaryError'), (f'{EXE}.HandlerTimeoutError', f'{EXE}.PermanentError'),
                     (f'{EXE}.HandlerRetriesError', f'{EXE}.PermanentError'), (f'{EXE}.TemporaryError', 'Exception'), (f'{EXE}.PermanentError', 'Exception')):
        ctx.ob(rule, f'{_short(sub)} is a subclass of {_short(sup)}', repo.is_subclass(sub, sup), loc=f.module.relpath(),
               construct=f'{EXE}:hierarchy:{_short(sub)}<{_short(sup)}')
    ctx.ob(rule, 'TemporaryError and PermanentError are unrelated classes', not repo.is_subclass(f'{EXE}.TemporaryError', f'{EXE}.PermanentError')
           and not repo.is_subclass(f'{EXE}.PermanentError', f'{EXE}.TemporaryError'), loc=f.module.relpath(), construct=f'{EXE}:hierarchy:temporary|permanent')


# ====================================================================== R11.2 / R11.3 / R2.9 outcome table
def _raised_classes(repo) -> list[str]:
    out = [CANCELLED]
    for base in (f'{EXE}.TemporaryError', f'{EXE}.PermanentError'):
        out.append(base)
        out.extend(sorted(repo.subclasses(base)))
    out.append('Exception')
    return out


def _category(repo, c: str) -> str:
    if repo.is_subclass(c, CANCELLED):
        return 'cancel'
    if repo.is_subclass(c, f'{EXE}.HandlerChildrenRetry'):
        return 'children'
    if repo.is_subclass(c, f'{EXE}.TemporaryError'):
        return 'temporary'
    if repo.is_subclass(c, f'{EXE}.HandlerTimeoutError') or repo.is_subclass(c, f'{EXE}.HandlerRetriesError'):
        return 'limit'
    if repo.is_subclass(c, f'{EXE}.PermanentError'):
        return 'permanent'
    return 'arbitrary'


CATEGORIES = ('none', 'cancel', 'children', 'temporary', 'limit', 'permanent', 'arbitrary')


def _outcome_paths(ctx: Ctx, f, classes: list[str]):
    repo = ctx.repo

    def eff(it, p, call, names):
        if f'{EXE}.Outcome' in names:
            return 'outcome'
        if f'{EXE}.invoke_handler' in names:
            return 'invoke'
        return None
    helpers = {g.qualname for g in repo.functions_in(EXE) if g.cls is None and g.outer is None
               and g.name not in ('execute_handler_once', 'execute_handlers_once', 'invoke_handler')}
    cfg = absint.Config(effect=eff, raising={f'{EXE}.invoke_handler': classes}, inline=helpers)
    return absint.analyse(repo, f, cfg)


def check_outcome_table(ctx: Ctx, rule: str = 'R11.2', only: Optional[tuple] = None, guard_rule: Optional[str] = None) -> None:
    repo = ctx.repo
    f = repo.fn(f'{EXE}.execute_handler_once')
    ctx.analysed(f)
    handler, state = param(f, 'handler'), param(f, 'state')
    param(f, 'default_errors'), param(f, 'settings')
    classes = _raised_classes(repo)
    if only:
        classes = [c for c in classes if _category(repo, c) in only]
    paths = _outcome_paths(ctx, f, classes)
    modes = sorted(repo.cls(f'{EXE}.ErrorsMode').field_defaults)
    ctx.ob(rule, 'ErrorsMode has exactly the members IGNORED, TEMPORARY, PERMANENT (the mode chain is checked against these)',
           modes == ['IGNORED', 'PERMANENT', 'TEMPORARY'], loc=f.module.relpath(), construct=f'{EXE}.ErrorsMode:members', detail=str(modes))

    def raised(p) -> Optional[str]:
        r = [e.label[len('raised:'):] for e in p.trace if e.label.startswith('raised:')]
        return r[0] if r else None

    def X(p):
        if not p.effects('invoke'):
            return None
        c = raised(p)
        return 'none' if c is None else _category(repo, c)

    def mode(member: str):
        def get(p):
            en = p.atom(rf'^isnone\({handler}\.errors\)$')
            if en is None:
                return None
            subject = 'default_errors' if en else f'{handler}.errors'
            return absint.entails(repo, f, p, f'eq({subject}, {EXE}.ErrorsMode.{member})')
        return get

    def is_runtime(k: str) -> bool:
        return 'runtime' in k and ' Add ' not in k

    def is_lookahead_runtime(k: str) -> bool:
        return 'runtime' in k and ' Add ' in k

    atoms = {
        'X': (X, CATEGORIES),
        'TN': rf'^isnone\({handler}\.timeout\)$',
        'RN': rf'^isnone\({handler}\.retries\)$',
        'BN': rf'^isnone\({handler}\.backoff\)$',
        'RT': (lambda p: cmp_rel(p, is_runtime, lambda k: k == f'{handler}.timeout'), REL3),            # runtime REL timeout
        'RR': (lambda p: cmp_rel(p, lambda k: k == f'{state}.retries', lambda k: k == f'{handler}.retries'), REL3),
        'LT': (lambda p: cmp_rel(p, is_lookahead_runtime, lambda k: k == f'{handler}.timeout'), REL3),  # runtime + delay REL timeout
        'LR': (lambda p: cmp_rel(p, lambda k: k == f'({state}.retries Add 1)', lambda k: k == f'{handler}.retries'), REL3),
        'IG': mode('IGNORED'), 'TE': mode('TEMPORARY'), 'PE': mode('PERMANENT'),
    }

    def out(final, exc=None, delay=None, result=None, invoked=True):
        return ('invoked' if invoked else 'not-invoked', 'return', f'final={final}', f'exception={exc}', f'delay={delay}', f'result={result}', 'subrefs=subrefs')

    def spec(v):
        if v['IG'] + v['TE'] + v['PE'] > 1:
            return SKIP
        if not v['TN'] and v['RT'] in ('=', '>'):
            return SKIP if only else out(True, 'e:HandlerTimeoutError', invoked=False)
        if not v['RN'] and v['RR'] in ('=', '>'):
            return SKIP if only else out(True, 'e:HandlerRetriesError', invoked=False)
        x = v['X']
        if only and x not in only:
            return SKIP
        lt = not v['TN'] and v['LT'] in ('=', '>')
        lr = not v['RN'] and v['LR'] in ('=', '>')
        if x == 'none':
            return out(True, result='result')
        if x == 'cancel':
            return ('invoked', 'raise', 'CancelledError')
        if x == 'children':
            return out(False, 'e', 'e.delay')
        if x == 'temporary':
            return out(True, 'new:HandlerTimeoutError') if lt else out(True, 'new:HandlerRetriesError') if lr else out(False, 'e', 'e.delay')
        if x in ('limit', 'permanent'):
            return out(True, 'e')
        if v['IG']:
            return out(True)
        if v['TE']:
            return out(True, 'new:HandlerTimeoutError') if lt else out(True, 'new:HandlerRetriesError') if lr else out(False, 'e', 'backoff')
        if v['PE']:
            return out(True, 'e')
        return ('invoked', 'raise', 'RuntimeError')

    def observe(p):
        inv = p.effects('invoke')
        invoked = 'invoked' if len(inv) == 1 else 'not-invoked' if not inv else f'invoked x{len(inv)}'
        if p.status == 'raise':
            return (invoked, 'raise', _short(p.exc))
        ocs = p.effects('outcome')
        if p.status != 'return' or len(ocs) != 1 or p.retval is None or p.retval.key != ocs[0].key:
            return (invoked, p.status, f'{len(ocs)} outcomes constructed', p.retval.key[:60] if p.retval is not None else None)
        kw = ocs[0].kw
        cls = raised(p)
        guard = [e.label[len('raise:'):] for e in p.trace if e.label.startswith('raise:')]
        exc = kw.get('exception')
        if exc is None or (exc.kind == 'const' and exc.data is None):
            ed = None
        elif cls is not None and exc.key == f'exc:{cls}':
            ed = 'e'
        elif guard and exc.key == f'exc:{guard[-1]}':
            ed = f'e:{_short(guard[-1])}'
        elif exc.kind == 'new':
            ed = f'new:{_short(exc.data[0])}'
        else:
            ed = exc.key[:60]
        d = kw.get('delay')
        if d is None or (d.kind == 'const' and d.data is None):
            dd = None
        elif cls is not None and d.key == f'exc:{cls}.delay':
            dd = 'e.delay'
        elif d.key == (f'{handler}.backoff' if p.atom(atoms['BN']) is False else 'settings.execution.default_backoff' if p.atom(atoms['BN']) is True else '?'):
            dd = 'backoff'
        else:
            dd = d.key[:60]
        r = kw.get('result')
        rd = None if r is None or (r.kind == 'const' and r.data is None) else 'result' if inv and r.key == inv[0].key else r.key[:60]
        fin = kw.get('final')
        fd = fin.data if fin is not None and fin.kind in ('const', 'bool') else (fin.key if fin is not None else None)
        sub = kw.get('subrefs')
        sd = 'subrefs=subrefs' if sub is not None and (not inv or (inv[0].kw.get('subrefs') is not None and inv[0].kw['subrefs'].key == sub.key)) else 'subrefs=?'
        return (invoked, 'return', f'final={fd}', f'exception={ed}', f'delay={dd}', f'result={rd}', sd)

    if only:
        paths = [p for p in paths if raised(p) is not None]
        what = ('execute_handler_once: HandlerChildrenRetry becomes the non-final outcome Outcome(final=False, exception=e, delay=e.delay): '
                'the parent stays unfinished and is retried')
        table3(ctx, rule, f, paths, atoms, spec, observe, what=what, tag='table:children-retry', min_rows=1)
        return
    what = ('execute_handler_once: outcome per (raised class x errors mode x look-ahead timeout x look-ahead retries) equals Appendix A.2 '
            '(strict limits first; temporary => retry with e.delay unless a look-ahead limit fires; permanent/limit => final failure; '
            'arbitrary: IGNORED => final without exception, TEMPORARY => retry with backoff unless a look-ahead fires, PERMANENT => final failure; '
            'success => final with the result; cancellation re-raised)')
    table3(ctx, rule, f, paths, atoms, spec, observe, what=what, tag='table:outcome', min_rows=8, short='execute_handler_once outcome table (A.2)')

    # R11.3: the two strict guards dominate the invocation, with non-strict operators (>=)
    g_rule = guard_rule or 'R11.3'
    inv_paths = [p for p in paths if p.effects('invoke')]
    ctx.require_sites(g_rule, 'execute_handler_once: paths that invoke the handler', len(inv_paths), 1, f.loc())
    for nm, unset, rel, text in (('timeout', 'TN', 'RT', 'runtime >= timeout'), ('retries', 'RN', 'RR', 'retries >= limit')):
        bad = []
        for p in inv_paths:
            u = p.atom(atoms[unset])
            r = atoms[rel][0](p)
            if not (u is True or (u is False and r == '<')):
                bad.append((p, u, r))
        ctx.ob(g_rule, f'execute_handler_once: the handler is invoked only if `{nm}` is unset or the strict guard `{text} => raise` did not fire '
               f'(every invoking path has decided {nm} unset or strictly below the limit)', not bad, loc=f.loc(),
               construct=construct(f, f'dom:strict-{nm}-guard'),
               detail='; '.join(f'invoked with {nm} unset={u}, relation={r}' for _, u, r in bad[:2]))


# ====================================================================== R11.4 default_errors per call site
def check_default_errors(ctx: Ctx, rule: str = 'R11.4') -> None:
    repo = ctx.repo
    want_by_cause = [
        ('kopf._core.intents.causes.WatchingCause', 'IGNORED'), ('kopf._core.intents.causes.IndexingCause', 'IGNORED'),
        ('kopf._core.intents.causes.WebhookCause', 'PERMANENT'), ('kopf._core.intents.causes.ChangingCause', None),
        ('kopf._core.intents.causes.DaemonCause', None), ('kopf._core.intents.causes.ActivityCause', None),
        (f'{EXE}.Cause', None),     # sub-handling: the cause of the parent handler
    ]
    for c, _ in want_by_cause:
        if c not in repo.classes:
            raise AnalysisError(f'scope anchor: cause class {c} not found')
    sites = repo.call_sites_of(f'{EXE}.execute_handlers_once', exact=True)
    ctx.require_sites(rule, 'call sites of execute_handlers_once', len(sites), 8)
    seen = set()
    for f, c in sites:
        ctx.analysed(f)
        cause = kwarg(c, 'cause')
        t = repo.type_of(f, cause) if cause is not None else None
        want = next((w for cls, w in want_by_cause if t == cls), '?')
        de = follow(f, kwarg(c, 'default_errors'))
        got = (repo.resolve(f.module, de) or src(de)) if de is not None else None
        seen.add(t)
        if want == '?':
            ctx.ob(rule, f'{f.short}: the kind of cause executed at this site is known to the rule', False, loc=f.loc(c),
                   construct=construct(f, 'config:default_errors:unclassified'), detail=f'cause={norm(cause)} of type {t}')
            continue
        ok = (got is None) if want is None else (got == f'{EXE}.ErrorsMode.{want}')
        ctx.ob(rule, f'{f.short}: handlers of a {_short(t)} are executed with default_errors=' + (want or 'the default (TEMPORARY)'), ok, loc=f.loc(c),
               construct=construct(f, f'config:default_errors:{_short(t)}'), detail=f'default_errors={_short(got) if got else "omitted"}')
    for cls, w in want_by_cause:
        ctx.ob(rule, f'handlers of a {_short(cls)} are executed somewhere', cls in seen, loc='', construct=f'config:default_errors:site:{_short(cls)}')
    for ref in (f'{EXE}.execute_handlers_once', f'{EXE}.execute_handler_once'):
        f = repo.fn(ref)
        ctx.analysed(f)
        dflt = absint._defaults(f).get('default_errors')
        ctx.ob(rule, f'{f.name}: the default of `default_errors` is ErrorsMode.TEMPORARY', dflt is not None
               and repo.resolve(f.module, dflt) == f'{EXE}.ErrorsMode.TEMPORARY', loc=f.loc(), construct=construct(f, 'config:default_errors:default'))
    f = repo.fn(f'{EXE}.execute_handlers_once')
    for c in calls_in(f.node):
        if is_call_to(repo, f, c, f'{EXE}.execute_handler_once'):
            v = kwarg(c, 'default_errors')
            ctx.ob(rule, 'execute_handlers_once hands its `default_errors` down to execute_handler_once', v is not None and dotted(v) == 'default_errors',
                   loc=f.loc(c), construct=construct(f, 'config:default_errors:passed-down'))


# ====================================================================== R11.5 delays persisted
def check_delay_flow(ctx: Ctx, rule: str = 'R11.5') -> None:
    repo = ctx.repo
    check_selection_flow(ctx, rule)
    check_formulas(ctx, rule)
    check_keys(ctx, rule)
    f = repo.fn(f'{PRG}.HandlerState.with_outcome')
    ctx.analysed(f)
    ctors = _ctor_calls(repo, f)
    ctx.require_sites(rule, 'HandlerState.with_outcome: construction of the new state', len(ctors), 1, f.loc())
    for c in ctors:
        v = kwarg(c, 'delayed')
        it = absint.Interp(repo, f, absint.Config())
        p0 = absint.Path()
        for a in f.params():
            p0.env[a.arg] = absint.sym(a.arg)
        # the locals (`now`) are bound by running the statements in front of the return
        pre = [s for s in absint._body(f) if not any(c is x for x in ast.walk(s))]
        starts = it.run_block(pre, [p0])
        rows = []
        for q0 in starts:
            if v is None:
                continue
            for q, val in it.fork_value(v, q0):
                rows.append((q.atom(r'^isnone\(outcome\.delay\)$'), val))
        ok = bool(rows)
        why = []
        for dn, val in rows:
            if dn is True:
                good = val.kind == 'const' and val.data is None
            elif dn is False:
                m = val.key
                good = m.startswith('(') and ' Add ' in m and is_now_key(m.split(' Add datetime.timedelta(seconds=outcome.delay)')[0]) \
                    and m.endswith(' Add datetime.timedelta(seconds=outcome.delay))')
            else:
                good = False
            if not good:
                ok = False
                why.append(f'outcome.delay is None={dn}: delayed = {val.key[:110]}')
        ctx.ob(rule, 'HandlerState.with_outcome: delayed = now + timedelta(seconds=outcome.delay) when a delay is requested, else None '
               '(with R2.3: the handler is not awakened before that moment)', ok, loc=f.loc(c), construct=construct(f, 'flow:delayed=now+delay'),
               detail='; '.join(why[:2]))
        st = kwarg(c, 'started')
        ctx.ob(rule, 'HandlerState.with_outcome: `started` is carried over (the timeout is measured from the first attempt)',
               st is not None and dotted(st) == 'self.started', loc=f.loc(c), construct=construct(f, 'flow:started-carried'), detail=norm(st))
    rt = repo.fn(f'{PRG}.HandlerState.runtime')
    ctx.analysed(rt)
    paths = absint.analyse(repo, rt, absint.Config())
    keys = {p.retval.key for p in paths if p.retval is not None}
    ok = len(keys) == 1 and all(k.endswith(' Sub self.started)') and is_now_key(k[1:-len(' Sub self.started)')]) for k in keys)
    ctx.ob(rule, 'HandlerState.runtime == now - started (the persisted first start)', ok, loc=rt.loc(), construct=construct(rt, 'formula:now-started'),
           detail='; '.join(sorted(keys))[:160])


# ====================================================================== R11.6 in-memory retry loops
def check_retry_loops(ctx: Ctx, rule: str = 'R11.6') -> None:
    repo = ctx.repo
    refs = ('kopf._core.engines.daemons._daemon', 'kopf._core.engines.daemons._timer', 'kopf._core.engines.activities.run_activity')
    n_resets = 0
    for ref in refs:
        f, g = cfg_of(ctx, ref)
        ex = g.call_nodes(f'{EXE}.execute_handlers_once')
        wo = g.call_nodes(f'{PRG}.State.with_outcomes')
        ctx.require_sites(rule, f'{f.short}: handler execution', len(ex), 1, f.loc())
        ctx.require_sites(rule, f'{f.short}: state.with_outcomes', len(wo), 1, f.loc())
        if not ex or not wo:
            continue
        loops = [lp for lp in walk_no_defs(f.node) if isinstance(lp, (ast.While, ast.For)) and any(n.stmt is not None and any(x is n.stmt for x in ast.walk(lp)) for n in ex)]
        ctx.ob(rule, f'{f.short}: the attempts are made in a retry loop', bool(loops), loc=f.loc(), construct=construct(f, 'sibling:retry-loop'))
        if not loops:
            continue
        loop = loops[-1] if len(loops) == 1 else min(loops, key=lambda lp: len(list(ast.walk(lp))))
        sv = wo[0].stmt.targets[0].id if isinstance(wo[0].stmt, ast.Assign) and isinstance(wo[0].stmt.targets[0], ast.Name) else None
        if sv is None:
            raise AnalysisError(f'{f.loc(wo[0].stmt)}: the merged state is not bound to a local')
        for n in ex:
            c = [c for c in calls_in(n.stmt) if is_call_to(repo, f, c, f'{EXE}.execute_handlers_once')][0]
            ctx.ob(rule, f'{f.short}: every attempt is made with the state that accumulated the previous outcomes', dotted(kwarg(c, 'state')) == sv,
                   loc=f.loc(c), construct=construct(f, 'flow:exec(state=accumulated)'))

        def done_is(e: ast.AST, o: bool, want: bool) -> bool:
            return dotted(e) == f'{sv}.done' and o is want

        def delay_falsy(e: ast.AST, o: bool) -> bool:
            return dotted(e) in (f'{sv}.delay', f'{sv}.delays') and o is False

        def is_reset(x: ast.AST) -> bool:
            return isinstance(x, ast.Call) and is_call_to(repo, f, x, f'{PRG}.State.from_scratch')
        inside = {n for n in g.nodes if any(fr.kind == 'loop' and fr.stmt is loop for fr in n.frames)}
        resets = [n for n in g.stmt_nodes(is_reset) if n in inside]
        sleeps = [n for n in g.stmt_nodes(lambda x: isinstance(x, ast.Call) and is_call_to(repo, f, x, SLEEP) and x.args
                                          and dotted(x.args[0]) in (f'{sv}.delay', f'{sv}.delays')) if n in inside]
        ctx.ob(rule, f'{f.short}: sleeps for the delay requested by the outcome (`{sv}.delay(s)`) inside the retry loop', bool(sleeps),
               loc=f.loc(loop), construct=construct(f, 'sibling:sleep(state.delay)'))

        # (a) an unfinished state reaches the next attempt only through the sleep for the requested delay (or with no delay requested)
        def stop_a(n) -> bool:
            if n in sleeps or n in resets:
                return True
            if n.kind == 'branch' and n.cond is not None:
                t, o = n.cond
                return cond_implies(t, o, lambda e, oo: done_is(e, oo, True)) or cond_implies(t, o, delay_falsy)
            return False
        r = g.reach(wo, stop=stop_a)
        unslept = [n for n in ex if n in r]
        ctx.ob(rule, f'{f.short}: between two attempts of an unfinished handler the loop sleeps for `{sv}.delay(s)` (never retries sooner than requested)',
               not unslept, loc=f.loc(unslept[0].stmt) if unslept else f.loc(loop), construct=construct(f, 'sibling:retry-after-delay'),
               detail=witness(g, wo, unslept[0], [n for n in g.nodes if stop_a(n)]) if unslept else '')

        # (b) a finished state is never executed again, unless it is reset (c)
        def stop_b(n) -> bool:
            if n in resets:
                return True
            if n.kind == 'branch' and n.cond is not None:
                t, o = n.cond
                return cond_implies(t, o, lambda e, oo: done_is(e, oo, False))
            return False
        r = g.reach(wo, stop=stop_b)
        redo = [n for n in ex if n in r]
        ctx.ob(rule, f'{f.short}: the loop tests `{sv}.done` between attempts: a finished handler is not executed again with its finished state',
               not redo, loc=f.loc(redo[0].stmt) if redo else f.loc(loop), construct=construct(f, 'sibling:loop-on-done'),
               detail=witness(g, wo, redo[0], [n for n in g.nodes if stop_b(n)]) if redo else '')

        # (c) a reset of the attempt state inside the retry loop is guarded by success
        if resets:
            n_resets += len(resets)
            eff_names = {f'{PRG}.State.from_scratch': 'reset', f'{EXE}.execute_handlers_once': 'exec'}

            def eff(it, p, call, names):
                for q, lab in eff_names.items():
                    if q in names:
                        return lab
                return None
            paths = absint.analyse(repo, f, absint.Config(effect=eff), stmts=loop.body, env={sv: absint.sym(sv)})
            bad = []
            n_reset_paths = 0
            for p in paths:
                labs = p.labels('reset', 'exec')
                if 'reset' not in labs:
                    continue
                n_reset_paths += 1
                done = p.atom(rf'^truthy\({sv}\.done\)$')
                not_failed = any((('.failure)' in k and v is False) or ('.success)' in k and v is True)) and k.startswith(f'truthy({sv}')
                                 for k, v in p.atoms.items())
                if not (done is True and not_failed):
                    bad.append(p)
            ctx.count('paths', len(paths))
            ctx.ob(rule, f'{f.short}: the attempt state is reset (`State.from_scratch()`) inside the retry loop only under a condition that implies '
                   f'success (`{sv}.done` and not failed): a permanently failed / retries-exhausted / timed-out handler is not started over',
                   not bad and n_reset_paths > 0, loc=f.loc(resets[0].stmt), construct=construct(f, 'guard:reset-implies-success'),
                   detail='; '.join(f'reset on path [{", ".join(f"{k}={v}" for k, v in p.atoms.items())[:200]}]' for p in bad[:2]))
    ctx.count('resets_in_retry_loops', n_resets)


def check(ctx: Ctx) -> None:
    check_dispatch(ctx)
    check_outcome_table(ctx)
    check_default_errors(ctx)
    check_delay_flow(ctx)
    check_retry_loops(ctx)
    # R11.6 (daemons/timers "recorded as failed for good"): a runner that ended on its own -- also by a final failure -- is recorded in
    # forever_stopped, which requires the reason test to precede the runner's own stopper.set(DONE)
    from . import _stoppers
    _stoppers.check_runner_exit_order(ctx, 'R11.6')
    from . import _extra
    _extra.check_activity_accumulates(ctx, 'R11.6')


SPEC = PropSpec(
    id='C11',
    title='Handler error policy: retry delays, permanence, retries/timeout limits',
    technique='static analysis: except-chain order against the class hierarchy (DISPATCH), full decision table of execute_handler_once by path '
              'enumeration over a predicate abstraction with an ordering domain and declared-raising callees (TABLE, DOM), constant keyword facts '
              'at the call sites (CONFIG), def-use flow of the delay (FLOW), CFG agreement of the three in-memory retry loops (SIBLING+GUARD)',
    level_text='Static analysis of the current source: decides the structural clauses R11.1-R11.6 -- no except arm of execute_handler_once is shadowed '
               'by a superclass arm; for every raised class x errors mode x look-ahead outcome the constructed Outcome equals Appendix A.2 (cancellation '
               're-raised, enum chain exhaustive); the handler is invoked only below both strict limits (>=); every call site of execute_handlers_once '
               'passes the default_errors its kind of cause requires; delayed = now + delay, awakened only after it, started/retries/delayed persisted '
               'and read back; daemons, timers and activities sleep for the requested delay between attempts, stop on done and reset their attempt state '
               'only after success. These are necessary conditions; spacing and count over whole attempt sequences (behaviour over histories) are NOT decided.',
    level_note='exception classes are abstracted to their most specific declared class; comparisons live in a three-point ordering domain per pair of '
               'expressions (no arithmetic); `now` is one symbol per activation; DESIGN.md §3',
    design_ref='DESIGN.md §4 C11, Appendix A.2',
    explanation='DISPATCH on the except chain; TABLE over 11 atoms (raised category, timeout/retries/backoff set, four orderings, three modes) of '
                'execute_handler_once; DOM of the strict guards in the ordering domain; CONFIG over the eight call sites by the type of the cause; '
                'FLOW on HandlerState.with_outcome/runtime plus R2.1/R2.3/R2.5; SIBLING+GUARD on _daemon/_timer/run_activity.',
    not_decided='numbers: spacing and count over whole attempt sequences, the look-ahead arithmetic itself, clock behaviour across restarts.',
    check=check,
)
