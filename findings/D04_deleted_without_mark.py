"""
D4 (C09): an object with a running daemon disappears without a deletion mark (it was deleted
before the framework's finalizer landed -- the finalizer PATCH gets 404 -- or the finalizer was
force-removed). The DELETED event carries no deletionTimestamp, so process_spawning_cause takes
the "spawn" branch instead of stop_daemons; the object's memory is forgotten, so even
daemon_killer cannot find the daemon at pause/exit. The daemon is never asked to stop.
Run: /venv/bin/python D04_deleted_without_mark.py
"""
import asyncio, logging, functools
import kopf
from kopf._core.reactor import processing, inventory
from kopf._core.engines import indexing
from kopf._core.intents import registries
from kopf._core.actions import lifecycles
from kopf._cogs.structs import references, ephemera
from kopf._cogs.configs import configuration
from kopf._cogs.clients import patching
from kopf._cogs.aiokits import aiotoggles

log = []
registry = registries.OperatorRegistry()

@kopf.daemon('g', 'v1', 'plural', registry=registry)
async def d(stopped, **_):
    log.append('daemon started')
    try:
        while not stopped:
            await asyncio.sleep(0.05)
        log.append(f'daemon saw stop flag: {stopped.reason}')
    except asyncio.CancelledError:
        log.append('daemon cancelled'); raise

async def fake_patch_obj(**kw):
    log.append(f"PATCH fns={len(kw['patch'].fns)} -> 404 (object already gone)")
    return None, None
patching.patch_obj = fake_patch_obj

async def main():
    settings = configuration.OperatorSettings()
    memories = inventory.ResourceMemories()
    resource = references.Resource('g', 'v1', 'plural', namespaced=True)
    indexers = indexing.OperatorIndexers()
    kw = dict(lifecycle=lifecycles.all_at_once, registry=registry, settings=settings, memories=memories,
              memobase=ephemera.Memo(), resource=resource, indexers=indexers, event_queue=asyncio.Queue())
    body = {'apiVersion': 'g/v1', 'kind': 'K', 'metadata': {'name': 'x', 'namespace': 'ns', 'uid': 'u1', 'resourceVersion': '1'}, 'spec': {}}
    await processing.process_resource_event(raw_event={'type': 'ADDED', 'object': body}, **kw)
    await asyncio.sleep(0.1)
    mem = list(memories.iter_all_memories())
    running = dict(mem[0].daemons_memory.running_daemons)
    log.append(f'running daemons after ADDED: {list(running)}')
    # the object is deleted before the finalizer lands: DELETED without deletionTimestamp
    await processing.process_resource_event(raw_event={'type': 'DELETED', 'object': body}, **kw)
    await asyncio.sleep(0.3)
    log.append(f'memories known to daemon_killer after DELETED: {len(list(memories.iter_all_memories()))}')
    for hid, dm in running.items():
        log.append(f'daemon {hid}: task done={dm.task.done()} stopper set={dm.stopper.is_set()} reason={dm.stopper.reason}')
    print('\n'.join(log))
    for dm in running.values(): dm.task.cancel()
asyncio.run(main())
