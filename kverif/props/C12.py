"""C12 -- infrastructure errors are retried, then contained per object, never fatal (DESIGN.md §4, R12.1-R12.4).

R12.5 (= R17.4, readiness toggles dropped on every exit of worker/watcher; D7 fixed) is decided by C17's rule set.
"""
from __future__ import annotations

import ast
import re
from typing import Iterable, Optional

from .. import absint
from ..core import Ctx, PropSpec
from ..rules import (calls_in, cfg_of, cond_implies, construct, dominating_conditions, except_chain_order, is_call_to,
                     kwarg, norm, origin)
from ..srcmodel import AnalysisError, dotted, walk_no_defs

API = 'kopf._cogs.clients.api'
ERR = 'kopf._cogs.clients.errors'
AUTH = 'kopf._cogs.clients.auth'
CRED = 'kopf._cogs.structs.credentials'
THR = 'kopf._core.actions.throttlers'
PROC = 'kopf._core.reactor.processing'
INV = 'kopf._core.reactor.inventory'

# The transient classes of the property text (network errors, 5xx, 403, 429), as class names.
RETRIED_ROOTS = ['aiohttp.ClientConnectionError', 'TimeoutError',
                 f'{ERR}.APIServerError', f'{ERR}.APIForbiddenError', f'{ERR}.APITooManyRequestsError']
# What the transport (the raw session call) may raise; what the response check may raise is discovered from errors.py.
TRANSPORT_PROBES = ['aiohttp.ClientConnectionError', 'aiohttp.ClientOSError', 'aiohttp.ServerDisconnectedError',
                    'aiohttp.ClientSSLError', 'asyncio.TimeoutError', 'TimeoutError',
                    'aiohttp.ClientPayloadError', 'aiohttp.ClientResponseError', 'aiohttp.ClientError',
                    'RuntimeError', 'ValueError', 'Exception']
# Protocol field names of the server-requested delay (Kubernetes API: header, and Status.details of older servers).
RETRY_AFTER_FIELDS = ("'Retry-After'", "'retryAfterSeconds'")
HTTP_VERBS = {'request', 'get', 'post', 'put', 'patch', 'delete', 'head', 'options', 'ws_connect'}


def short(c: Optional[str]) -> str:
    return (c or '?').rsplit('.', 1)[-1]


def label(c: str) -> str:
    """Class name for construct keys: repo classes by their short name, foreign ones with their module."""
    return short(c) if c.startswith('kopf.') else c


def _numeric_none(p: absint.Path) -> bool:
    """A path on which the result of int()/float() `is None` is infeasible (the engine's theory has no such axiom)."""
    return any(v is True and re.match(r'isnone\((int|float)\(', k) for k, v in p.atoms.items())


def _enclosing(f, node: ast.AST, kinds) -> list:
    out = []
    p = f.module.parent.get(node)
    while p is not None and p is not f.node:
        if isinstance(p, kinds):
            out.append(p)
        p = f.module.parent.get(p)
    return out


def _stmt_within(f, node: ast.AST, container_stmts: Iterable[ast.AST]) -> bool:
    cs = list(container_stmts)
    p = node
    while p is not None and p is not f.node:
        if any(p is c for c in cs):
            return True
        p = f.module.parent.get(p)
    return False


# ====================================================================================== R12.1 / R12.2: api.request
def check_request(ctx: Ctx) -> None:
    repo = ctx.repo
    f = repo.fn(f'{API}.request')
    ctx.analysed(f)
    raw = [c for c in calls_in(f.node) if any(n.startswith('aiohttp.ClientSession.') and n.rsplit('.', 1)[-1] in HTTP_VERBS
                                              for n in repo.callee_names(f, c))]
    ctx.require_sites('R12.1', 'api.request: the raw session request', len(raw), 1, f.loc())
    if not raw:
        return
    loops = [lp for lp in _enclosing(f, raw[0], (ast.For, ast.While, ast.AsyncFor))]
    if not loops:
        ctx.ob('R12.1', 'api.request: the raw session request is made inside a retry loop', False, loc=f.loc(raw[0]),
               construct=construct(f, 'loop:retry'))
        return
    loop = loops[0]
    tries = _enclosing(f, raw[0], ast.Try)
    tries = [t for t in tries if _stmt_within(f, t, loop.body)]
    for t in tries:
        except_chain_order(ctx, 'R12.1', f, t, label='api.request')

    # the loop is driven by the configured backoffs (def-use closure of the iterated expression)
    # (a `for` over the backoffs, or a `while` whose body draws the next backoff with next(<iterator>, None))
    if isinstance(loop, ast.While):
        driver = [c.args[0] for st in loop.body for c in ast.walk(st) if isinstance(c, ast.Call) and isinstance(c.func, ast.Name) and c.func.id == 'next' and c.args]
        drv = driver[0] if driver else loop.test
    else:
        drv = loop.iter
    seen, todo, found = set(), [drv], False
    while todo:
        e = todo.pop()
        for n in ast.walk(e):
            if isinstance(n, ast.Attribute) and (dotted(n) or '').endswith('networking.error_backoffs'):
                found = True
            if isinstance(n, ast.Name) and n.id not in seen:
                seen.add(n.id)
                for a in walk_no_defs(f.node):
                    if isinstance(a, ast.Assign) and any(isinstance(t, ast.Name) and t.id == n.id for t in a.targets):
                        todo.append(a.value)
    ctx.ob('R12.1', 'api.request: the retry loop iterates over settings.networking.error_backoffs', found, loc=f.loc(loop),
           construct=construct(f, 'config:backoffs-source'), detail=norm(drv))

    api_errors = sorted(c for c in repo.classes if c.startswith(ERR + '.') and repo.is_subclass(c, 'Exception')
                        and (repo.is_subclass(c, f'{ERR}.APIError') or c == f'{ERR}.APISessionClosed'))
    if len(api_errors) < 9:
        raise AnalysisError(f'{f.loc()}: expected the API error hierarchy in {ERR} (found {len(api_errors)} classes)')
    raw_names = sorted(n for n in repo.callee_names(f, raw[0]))
    raising = {n: list(TRANSPORT_PROBES) for n in raw_names}
    raising[f'{ERR}.check_response'] = api_errors
    checks = [c for c in calls_in(loop) if is_call_to(repo, f, c, f'{ERR}.check_response')]
    ctx.require_sites('R12.1', 'api.request: the response check (status -> API error) inside the retry loop', len(checks), 1, f.loc(loop))

    def eff(it, p, call, names):
        if 'asyncio.sleep' in names or any(n.endswith('aiotime.sleep') for n in names):
            return 'sleep'
        if names == {'max'}:
            return 'max'
        return None
    targets = [n.id for n in ast.walk(loop.target) if isinstance(n, ast.Name)] if not isinstance(loop, ast.While) else []
    env = {t: absint.sym(t) for t in targets}
    # module-local helpers called from the loop are inlined (an extracted Retry-After parser stays visible)
    helpers = {n for c in calls_in(loop) for n in repo.callee_names(f, c) if n in repo.funcs and repo.funcs[n].module is f.module and n != f.qualname}
    paths = [p for p in absint.analyse(repo, f, absint.Config(effect=eff, raising=raising, inline=helpers), stmts=loop.body, env=env)
             if not _numeric_none(p)]
    ctx.count('paths', len(paths))
    # the backoff of the attempt: the loop variable(s), or whatever plain local is slept (a `while` form of the loop)
    targets = targets + sorted({e.kw['#0'].key for p in paths for e in p.effects('sleep') if e.kw.get('#0') is not None
                                and e.kw['#0'].kind == 'sym' and e.kw['#0'].key.isidentifier()} - set(targets))

    def thrown(p) -> Optional[str]:
        r = [e for e in p.trace if e.label.startswith('raised:')]
        return r[0].label[len('raised:'):] if r else None

    def backoff_none(p) -> Optional[bool]:
        vals = {p.atoms[f'isnone({t})'] for t in targets if f'isnone({t})' in p.atoms}
        return vals.pop() if len(vals) == 1 else None

    def ssl_closed(p) -> bool:
        return any(v is True and re.match(r'in\(.*, str\(exc:', k) for k, v in p.atoms.items())

    by_class: dict[str, list] = {}
    for p in paths:
        c = thrown(p)
        if c is not None:
            by_class.setdefault(c, []).append(p)
    n_retried = n_escal = 0
    for c in sorted(set(TRANSPORT_PROBES) | set(api_errors)):
        ps = by_class.get(c, [])
        expected_retry = any(repo.is_subclass(c, r) for r in RETRIED_ROOTS)
        bad = []
        kinds = set()
        for p in ps:
            sleeps = p.effects('sleep')
            if expected_retry:
                if p.status == 'raise' and short(p.exc) == 'APISessionClosed' and not sleeps:
                    kinds.add('reauth')
                    if not ssl_closed(p):
                        bad.append((p, 'raises APISessionClosed without the closed-SSL-stream test'))
                    continue
                bn = backoff_none(p)
                if bn is None:
                    bad.append((p, 'outcome does not depend on whether a backoff is left'))
                elif bn:
                    kinds.add('escalate')
                    if not (p.status == 'raise' and p.exc == c and not sleeps):
                        bad.append((p, f'no backoff left, but {p.status} {short(p.exc)} with {len(sleeps)} sleep(s); must re-raise at once'))
                else:
                    kinds.add('retry')
                    if not (p.status in ('run', 'continue') and len(sleeps) == 1):
                        bad.append((p, f'a backoff is left, but {p.status} {short(p.exc)} with {len(sleeps)} sleep(s); must sleep once and retry'))
                    elif not _slept_ok(p, sleeps[0], targets):
                        bad.append((p, f'sleeps `{sleeps[0].kw.get("#0").key[:60] if sleeps[0].kw.get("#0") else "?"}`, neither the backoff nor a value floored by Retry-After'))
            else:
                kinds.add('propagate')
                allowed = {c} | ({f'{ERR}.APISessionClosed'} if repo.is_subclass(c, 'RuntimeError') else set())
                if not (p.status == 'raise' and p.exc in allowed and not sleeps):
                    bad.append((p, f'{p.status} {short(p.exc)} with {len(sleeps)} sleep(s); must propagate at once'))
        complete = bool(ps) and (kinds >= {'escalate', 'retry'} if expected_retry else kinds == {'propagate'})
        if expected_retry:
            n_retried += 1
        else:
            n_escal += 1
        what = (f'api.request: {short(c)} is transient: slept for the backoff and retried; re-raised iff no backoff is left '
                f'(or re-authentication on a closed SSL stream)') if expected_retry else \
               f'api.request: {short(c)} is not transient: it propagates at once (no sleep, no retry)'
        ctx.ob('R12.1', what, complete and not bad, loc=f.loc(loop), construct=construct(f, f'dispatch:{label(c)}'),
               detail='; '.join(f'{why} [{_brief(p)}]' for p, why in bad[:2]) or ('' if complete else f'outcomes seen: {sorted(kinds)} on {len(ps)} paths'))
    ctx.count('classes_probed', n_retried + n_escal)
    # no error: the response is returned, nothing is slept
    okp = [p for p in paths if thrown(p) is None]
    ctx.ob('R12.1', 'api.request: without an error the response is returned at once', bool(okp) and all(p.status == 'return' and not p.effects('sleep') for p in okp),
           loc=f.loc(loop), construct=construct(f, 'dispatch:no-error'))

    # ---- R12.2: the Retry-After floor over {enforce} x {retry_after <,=,> backoff}
    rows = set()
    bad2 = []
    for p in by_class.get(f'{ERR}.APITooManyRequestsError', []):
        rkeys = _retry_after_keys(p)
        sleeps = p.effects('sleep')
        if not rkeys or not sleeps:
            continue
        s = sleeps[0].kw.get('#0')
        rel = _floor_relation(p, sleeps[0], rkeys)
        cmpv = sorted({v for k, v in p.atoms.items() if k.startswith('cmp(') and any(r in k for r in rkeys)})
        field = 'header' if any(RETRY_AFTER_FIELDS[0] in r for r in rkeys) else 'details'
        for o in (cmpv or ['<', '=', '>']):
            rows.add((field, bool(cmpv), o))
        if rel is None:
            bad2.append((p, s.key if s is not None else '?'))
    ctx.require_sites('R12.2', 'api.request: (Retry-After source, enforce, ordering) combinations that end in a sleep', len(rows), 6, f.loc(loop))
    ctx.count('valuations', len(rows))
    ctx.ob('R12.2', f'api.request: on a 429 with a server-requested delay r the slept value is >= r for every ordering of (r, backoff) and both '
           f'settings of enforce_retry_after ({len(rows)} combinations)', not bad2, loc=f.loc(loop), construct=construct(f, 'table:retry-after-floor'),
           detail='; '.join(f'sleeps `{k[:50]}` on [{_brief(p)}]' for p, k in bad2[:2]))
    ctx.sample({'rule': 'R12.2', 'rows': sorted(map(str, rows))})


def _brief(p: absint.Path) -> str:
    keep = [f'{re.sub(r"exc:[\w.]*\.", "", k)[:48]}={v}' for k, v in p.atoms.items()
            if k.startswith(('cmp(', 'truthy(settings', 'isnone(')) and 'count' not in k and 'retry)' not in k]
    return ', '.join(keep)[:220]


def _retry_after_keys(p: absint.Path) -> set:
    """Keys of local values derived from the server-requested delay on this path."""
    return {v.key for k, v in p.env.items() if v.kind == 'sym' and not k.startswith('@') and any(fld in v.key for fld in RETRY_AFTER_FIELDS)}


def _floor_relation(p: absint.Path, sleep: absint.Eff, rkeys: set) -> Optional[str]:
    """How the slept value is known to be >= the requested delay: 'is', 'max', 'cmp'; None if not known."""
    s = sleep.kw.get('#0')
    if s is None:
        return None
    if s.key in rkeys:
        return 'is'
    for m in p.effects('max'):
        if m.key == s.key and any(v.key in rkeys for v in m.kw.values()):
            return 'max'
    for k, v in p.atoms.items():
        m = re.fullmatch(r'cmp\((.*), (.*)\)', k)
        if not m or not k.startswith('cmp('):
            continue
        for r in rkeys:
            if k == f'cmp({s.key}, {r})' and v in ('>', '='):
                return 'cmp'
            if k == f'cmp({r}, {s.key})' and v in ('<', '='):
                return 'cmp'
    return None


def _slept_ok(p: absint.Path, sleep: absint.Eff, targets: list) -> bool:
    s = sleep.kw.get('#0')
    if s is None:
        return False
    if s.kind == 'sym' and s.key in targets:
        return True
    rkeys = _retry_after_keys(p)
    return bool(rkeys) and _floor_relation(p, sleep, rkeys) is not None


# ====================================================================================== R12.1: status -> error class
def check_status_dispatch(ctx: Ctx) -> None:
    repo = ctx.repo
    f = repo.fn(f'{ERR}.check_response')
    ctx.analysed(f)
    paths = absint.analyse(repo, f, absint.Config(raising={'raise_for_status': ['aiohttp.ClientResponseError']}))
    ctx.count('paths', len(paths))
    params = [a.arg for a in f.params()]
    if not params:
        raise AnalysisError(f'{f.loc()}: check_response has no response parameter')
    status = re.escape(f'{params[0]}.status')
    rx_eq = re.compile(rf'^eq\({status}, (\d+)\)$')
    rx_c1 = re.compile(rf'^cmp\((\d+), {status}\)$')
    rx_c2 = re.compile(rf'^cmp\({status}, (\d+)\)$')

    def consistent(p: absint.Path, s: int) -> bool:
        for k, v in p.atoms.items():
            m = rx_eq.match(k)
            if m and (s == int(m.group(1))) != v:
                return False
            m = rx_c1.match(k)
            if m:
                c = int(m.group(1))
                if v != ('<' if c < s else '=' if c == s else '>'):
                    return False
            m = rx_c2.match(k)
            if m:
                c = int(m.group(1))
                if v != ('<' if s < c else '=' if c == s else '>'):
                    return False
        return True

    def raised_class(p: absint.Path) -> Optional[str]:
        rs = [e for e in p.trace if e.label.startswith('raise:')]
        if p.status != 'raise' or not rs:
            return None
        exc = rs[-1].node.exc if isinstance(rs[-1].node, ast.Raise) else None
        fn = exc.func if isinstance(exc, ast.Call) else exc
        if isinstance(fn, ast.Name) and fn.id in p.env:
            return p.env[fn.id].key
        return repo.resolve(f.module, fn) if fn is not None else p.exc

    spec = {401: 'APIUnauthorizedError', 403: 'APIForbiddenError', 404: 'APINotFoundError', 409: 'APIConflictError',
            422: 'APIUnprocessableEntityError', 429: 'APITooManyRequestsError',
            400: 'APIClientError', 410: 'APIClientError', 418: 'APIClientError', 499: 'APIClientError',
            500: 'APIServerError', 503: 'APIServerError', 599: 'APIServerError', 200: None, 304: None, 399: None}
    for s, want in spec.items():
        ps = [p for p in paths if consistent(p, s)]
        got = {short(raised_class(p)) for p in ps if p.status == 'raise'}
        if want is None:
            ok = bool(ps) and not got
        else:
            ok = got == {want}
        ctx.ob('R12.1', f'errors.check_response: HTTP {s} ' + (f'raises {want}' if want else 'raises nothing')
               + ' (specific codes are mapped before the 4xx range, the 4xx range before the 5xx range)', ok, loc=f.loc(),
               construct=construct(f, f'dispatch:{s}'), detail=f'{len(ps)} consistent paths raise {sorted(got)}')
    ctx.count('status_codes_probed', len(spec))


# ====================================================================================== R12.3: authentication
def _mentions_field(node: ast.AST, attr: str) -> bool:
    return any(isinstance(x, ast.Attribute) and x.attr == attr for x in ast.walk(node))


def _is_authenticated(f) -> bool:
    g = f
    while g is not None:
        if any(d == f'{AUTH}.authenticated' for d in g.decorators):
            return True
        g = g.outer
    return False


def check_auth(ctx: Ctx) -> None:
    repo = ctx.repo
    # (a) CONFINE: the raw aiohttp session is used only inside @authenticated functions (and built only by APIContext)
    ctxcls = f'{AUTH}.APIContext'
    uses = []
    builds = []
    for fn in repo.all_functions():
        in_ctx = fn.cls is not None and fn.cls.qualname == ctxcls or (fn.outer is not None and fn.outer.cls is not None and fn.outer.cls.qualname == ctxcls)
        for n in walk_no_defs(fn.node, include_lambdas=True):
            if isinstance(n, ast.Attribute) and isinstance(n.ctx, ast.Load) and n.attr in ('session', 'aiohttp_session') and not in_ctx:
                t = repo.type_of(fn, n.value)
                if t in (None, ctxcls) or (t or '').startswith(CRED):
                    uses.append((fn, n))
            elif isinstance(n, ast.Call):
                names = repo.callee_names(fn, n)
                via_field = isinstance(n.func, ast.Attribute) and isinstance(n.func.value, ast.Attribute) and n.func.value.attr in ('session', 'aiohttp_session')
                if any(x.startswith('aiohttp.ClientSession.') and x.rsplit('.', 1)[-1] in HTTP_VERBS for x in names) and not in_ctx and not via_field:
                    uses.append((fn, n))
                if 'aiohttp.ClientSession' in names:
                    builds.append((fn, n))
    ctx.require_sites('R12.3', 'uses of the raw aiohttp session of an API context', len(uses), 1)
    for fn, n in uses:
        ctx.ob('R12.3', f'the raw session (`{norm(n, 50)}`) is used only inside a function decorated @auth.authenticated '
               f'(re-authentication on 401 wraps every request)', _is_authenticated(fn), loc=fn.loc(n),
               construct=f'{fn.qualname}:confine:raw-session')
    for fn, n in builds:
        ctx.ob('R12.3', 'aiohttp sessions are constructed only by auth.APIContext (one per credentials item, closed on invalidation)',
               fn.cls is not None and fn.cls.qualname == ctxcls, loc=fn.loc(n), construct=f'{fn.qualname}:confine:ClientSession()')

    # (b) every URL-taking helper of the api module goes through api.request
    req = repo.fn(f'{API}.request')
    helpers = [fn for fn in repo.functions_in(API) if fn.outer is None and fn is not req and any(a.arg == 'url' for a in fn.params())]
    ctx.require_sites('R12.3', 'api: URL-taking request helpers (get/post/patch/delete/stream)', len(helpers), 5)
    for fn in helpers:
        ctx.analysed(fn)
        through = [c for c in calls_in(fn.node) if is_call_to(repo, fn, c, f'{API}.request')]
        ok = bool(through) and all(kwarg(c, 'context') is None for c in through)
        ctx.ob('R12.3', f'api.{fn.name} performs its request through api.request (retry + re-authentication), without a pinned context',
               ok, loc=fn.loc(), construct=f'{fn.qualname}:confine:via-request')
    ctx.ob('R12.3', 'api.request is decorated @auth.authenticated', _is_authenticated(req), loc=req.loc(), construct=f'{req.qualname}:config:decorator')

    # (c) TABLE: one iteration of the credentials loop of the decorator
    deco = repo.fn(f'{AUTH}.authenticated')
    inner = [fn for fn in repo.all_functions() if fn.outer is deco]
    if len(inner) != 1 or not deco.params():
        raise AnalysisError(f'{deco.loc()}: expected exactly one wrapper inside auth.authenticated')
    w = inner[0]
    ctx.analysed(w)
    fparam = deco.params()[0].arg
    loops = [n for n in walk_no_defs(w.node) if isinstance(n, (ast.AsyncFor, ast.For))
             and any(is_call_to(repo, w, c, f'{CRED}.Vault.extended', f'{CRED}.Vault._items', f'{CRED}.Vault.__aiter__') for c in calls_in(n.iter))]
    ctx.require_sites('R12.3', 'authenticated: loop over the credentials of the vault', len(loops), 1, w.loc())
    if loops:
        loop = loops[0]
        tnames = [e.id for e in (loop.target.elts if isinstance(loop.target, ast.Tuple) else [loop.target]) if isinstance(e, ast.Name)]
        probes = [f'{ERR}.APIUnauthorizedError', f'{ERR}.APISessionClosed', f'{ERR}.APIForbiddenError', f'{ERR}.APINotFoundError',
                  f'{ERR}.APIClientError', f'{ERR}.APIServerError', f'{ERR}.APITooManyRequestsError', f'{ERR}.APIError',
                  'aiohttp.ClientConnectionError', 'asyncio.TimeoutError', 'RuntimeError', f'{CRED}.LoginError', 'Exception']
        reauth = {f'{ERR}.APIUnauthorizedError', f'{ERR}.APISessionClosed'}

        def eff(it, p, call, names):
            if f'{CRED}.Vault.invalidate' in names:
                return 'invalidate'
            if isinstance(call.func, ast.Name) and call.func.id == fparam:
                return 'call'
            return None
        paths = absint.analyse(repo, w, absint.Config(effect=eff, raising={fparam: probes}), stmts=loop.body,
                               env={t: absint.sym(t) for t in tnames})
        ctx.count('paths', len(paths))
        for c in probes:
            ps = [p for p in paths if any(e.label == 'raised:' + c for e in p.trace)]
            bad = []
            for p in ps:
                inv = p.effects('invalidate')
                if c in reauth:
                    args_ok = len(inv) == 1 and len(tnames) >= 2 and inv[0].kw.get('#0') is not None and inv[0].kw.get('#1') is not None \
                        and inv[0].kw['#0'].key == tnames[0] and inv[0].kw['#1'].key == tnames[1]
                    if not (p.status in ('run', 'continue') and args_ok):
                        bad.append(f'{p.status} {short(p.exc)}, invalidate x{len(inv)}' + ('' if args_ok or not inv else ' with other arguments than the drawn (key, info)'))
                else:
                    if not (p.status == 'raise' and p.exc == c and not inv):
                        bad.append(f'{p.status} {short(p.exc)}, invalidate x{len(inv)}')
            what = (f'authenticated: {short(c)} invalidates exactly the drawn credentials (vault.invalidate(key, info)) and the loop draws the next ones'
                    if c in reauth else f'authenticated: {short(c)} is not an authentication failure: it propagates, nothing is invalidated')
            ctx.ob('R12.3', what, bool(ps) and not bad, loc=w.loc(loop), construct=f'{w.qualname}:table:{label(c)}', detail='; '.join(bad[:2]))
        okp = [p for p in paths if not any(e.label.startswith('raised:') for e in p.trace)]
        calls = [e for p in okp for e in p.effects('call')]
        ok = bool(okp) and all(p.status == 'return' and not p.effects('invalidate') for p in okp) \
            and bool(calls) and all(len(tnames) >= 3 and e.kw.get('context') is not None and e.kw['context'].key == tnames[-1] for e in calls)
        ctx.ob('R12.3', 'authenticated: the wrapped function runs with the context drawn from the vault and its result is returned', ok,
               loc=w.loc(loop), construct=f'{w.qualname}:table:success')

    # (d) invalidated credentials are not reused: Vault.invalidate moves the item to the history; re-population filters by it
    fi, gi = cfg_of(ctx, f'{CRED}.Vault.invalidate')

    def sub_of(node: ast.AST, attr: str, kinds) -> bool:
        if isinstance(node, kinds):
            tg = node.targets if isinstance(node, (ast.Assign, ast.Delete)) else [node.target]
            return any(isinstance(t, ast.Subscript) and (dotted(t.value) or '').endswith('.' + attr) for t in tg)
        return False
    dels = gi.stmt_nodes(lambda x: sub_of(x, '_current', (ast.Delete,)))
    moves = gi.stmt_nodes(lambda x: sub_of(x, '_invalid', (ast.Assign, ast.AugAssign)) or
                          (isinstance(x, ast.Call) and isinstance(x.func, ast.Attribute) and x.func.attr in ('append', 'extend')
                           and _mentions_field(x.func.value, '_invalid')))
    ctx.require_sites('R12.3', 'Vault.invalidate: removal of the failed item from the current credentials', len(dels), 1, fi.loc())
    for d in dels:
        nd = gi.dominated([d], moves)
        remembers = any(_mentions_field(m.stmt, '_current') for m in moves)
        ctx.ob('R12.3', 'Vault.invalidate: the failed item is recorded in the invalidation history before it is removed from the current credentials',
               not nd and bool(moves) and remembers, loc=fi.loc(d.stmt), construct=construct(fi, 'order:remember<remove'))
    fu, gu = cfg_of(ctx, f'{CRED}.Vault._update_converted')
    writers = []
    for fn in repo.all_functions():
        if fn.cls is None or not fn.cls.qualname == f'{CRED}.Vault':
            continue
        for n in walk_no_defs(fn.node):
            if sub_of(n, '_current', (ast.Assign, ast.AugAssign)) or (isinstance(n, ast.Call) and isinstance(n.func, ast.Attribute)
                                                                    and n.func.attr in ('update', 'setdefault') and (dotted(n.func.value) or '').endswith('._current')):
                writers.append((fn, n))
    ctx.require_sites('R12.3', 'Vault: insertion of credentials into the current set', len(writers), 1, fu.loc())
    for fn, n in writers:
        ok = fn is fu
        if ok:
            nodes = gu.stmt_nodes(lambda x: x is n)

            def not_invalid(e: ast.AST, o: bool) -> bool:
                return isinstance(e, ast.Compare) and len(e.ops) == 1 and isinstance(e.ops[0], ast.In) and o is False \
                    and any(isinstance(x, ast.Attribute) and x.attr == '_invalid' for x in ast.walk(e.comparators[0]))
            ok = bool(nodes) and all(any(cond_implies(t, o, not_invalid) for t, o, _ in dominating_conditions(gu, nd)) for nd in nodes)
        ctx.ob('R12.3', 'Vault: credentials enter the current set only in _update_converted and only if not in the invalidation history',
               ok, loc=fn.loc(n), construct=f'{fn.qualname}:guard:not-in-_invalid')


# ====================================================================================== R12.4: containment region
OUTSIDE_ALLOWED = (f'{INV}.ResourceMemories.recall', f'{INV}.ResourceMemories.forget', 'kopf._cogs.structs.bodies.Body',
                   'kopf._cogs.structs.patches.Patch', 'kopf._core.actions.loggers.', 'kopf._cogs.structs.dicts.ReplaceableMappingView._replace_with',
                   f'{THR}.throttled', 'contextlib.nullcontext')


def _manager_calls(repo, f, e: ast.AST, depth: int = 3) -> list[ast.Call]:
    """The context-manager constructions an `async with` expression may denote (through single-assignment locals and `a if c else b`)."""
    e = origin(f, e)
    if isinstance(e, ast.IfExp):
        return _manager_calls(repo, f, e.body, depth - 1) + _manager_calls(repo, f, e.orelse, depth - 1)
    return [e] if isinstance(e, ast.Call) else []


def check_containment(ctx: Ctx) -> None:
    repo = ctx.repo
    f, g = cfg_of(ctx, f'{PROC}.process_resource_event')
    regions = []
    for n in walk_no_defs(f.node):
        if isinstance(n, (ast.AsyncWith, ast.With)):
            for it in n.items:
                ms = _manager_calls(repo, f, it.context_expr)
                if any(is_call_to(repo, f, c, f'{THR}.throttled') for c in ms):
                    regions.append((n, it, ms))
    ctx.require_sites('R12.4', 'process_resource_event: the `async with throttled(...)` containment region', len(regions), 1, f.loc())
    if len(regions) != 1:
        return
    region, item, managers = regions[0]
    thr_call = [c for c in managers if is_call_to(repo, f, c, f'{THR}.throttled')][0]

    # the bypass (`nullcontext` for simulations) is off by default and never switched on inside the package
    others = [c for c in managers if c is not thr_call]
    if others:
        tests = [n.test for n in walk_no_defs(f.node) if isinstance(n, ast.IfExp) and (n.body in others or n.orelse in others)]
        flags = {x.id for t in tests for x in ast.walk(t) if isinstance(x, ast.Name)}
        defaults = absint._defaults(f)
        ok = bool(flags) and all(fl in defaults and isinstance(defaults[fl], ast.Constant) and defaults[fl].value is False for fl in flags) \
            and all((n.orelse is thr_call) if isinstance(n, ast.IfExp) and n.test in tests else True for n in walk_no_defs(f.node))
        sites = [(fn, c) for fn, c in repo.call_sites_of(f.qualname) if any(k.arg in flags or k.arg is None for k in c.keywords)]
        ctx.ob('R12.4', f'process_resource_event: the throttling bypass ({", ".join(sorted(flags))}) is a test-only parameter defaulting to False, '
               f'never passed inside the package', ok and not sites, loc=f.loc(region), construct=construct(f, 'config:no-bypass'),
               detail='; '.join(f'{fn.short}:L{c.lineno}' for fn, c in sites))

    # CONFINE: every call that may raise lies inside the region
    inside_stmts = region.body
    n_out = 0
    for c in calls_in(f.node):
        if _stmt_within(f, c, inside_stmts):
            continue
        names = repo.callee_names(f, c)
        allowed = bool(names) and all(any(n == a or (a.endswith('.') and n.startswith(a)) for a in OUTSIDE_ALLOWED) for n in names)
        awaited = isinstance(f.module.parent.get(c), ast.Await)
        total = not awaited and not g._may_raise(f, c)
        n_out += 1
        ctx.ob('R12.4', f'process_resource_event: `{norm(c.func, 50)}(...)` outside the containment region is a total set-up operation '
               '(memory recall/forget, body/patch/logger construction)', allowed or total, loc=f.loc(c),
               construct=construct(f, f'confine:outside:{sorted(names)[0].rsplit(".", 2)[-1] if names else norm(c.func, 40)}'),
               detail='' if allowed or total else 'a call that may raise escapes the per-object throttling and kills the worker')
    ctx.count('calls_outside_region', n_out)
    stray = [n for n in walk_no_defs(f.node) if isinstance(n, (ast.Raise, ast.Await)) and not _stmt_within(f, n, inside_stmts)
             and not (isinstance(n, ast.Await) and isinstance(n.value, ast.Call))]
    ctx.ob('R12.4', 'process_resource_event: no `raise` and no bare await outside the containment region', not stray, loc=f.loc(stray[0]) if stray else f.loc(),
           construct=construct(f, 'confine:outside:raise'))
    for target, label in ((f'{PROC}.process_resource_causes', 'cause processing'), ('kopf._core.engines.indexing.index_resource', 'indexing'),
                          ('kopf._core.actions.application.apply', 'patch application')):
        cs = [c for c in calls_in(f.node) if is_call_to(repo, f, c, target)]
        ctx.ob('R12.4', f'process_resource_event: {label} runs inside the containment region', bool(cs) and all(_stmt_within(f, c, inside_stmts) for c in cs),
               loc=f.loc(cs[0]) if cs else f.loc(), construct=construct(f, f'confine:inside:{target.rsplit(".", 1)[-1]}'))

    # GUARD: inside the region nothing that may raise runs against the manager's advice (`should_run`), which would be re-raised
    advice = item.optional_vars.id if isinstance(item.optional_vars, ast.Name) else None

    def advised(e: ast.AST, o: bool) -> bool:
        return isinstance(e, ast.Name) and e.id == advice and o is True
    risky = [n for n in g.nodes if n.kind in ('stmt', 'raise', 'if', 'loop', 'with-enter', 'return', 'match') and 'exc' in n.exc_edges
             and n.stmt is not None and _stmt_within(f, n.stmt, inside_stmts)]
    ctx.require_sites('R12.4', 'process_resource_event: may-raise statements inside the region', len(risky), 3, f.loc(region))
    unguarded = [n for n in risky if not any(cond_implies(t, o, advised) for t, o, _ in dominating_conditions(g, n))]
    ctx.ob('R12.4', f'process_resource_event: every may-raise statement inside the region runs only under `{advice}` (an error while throttled would be re-raised)',
           advice is not None and not unguarded, loc=f.loc(unguarded[0].stmt) if unguarded else f.loc(region), construct=construct(f, 'guard:should_run'),
           detail='; '.join(f'L{n.lineno} `{n.label[:50]}`' for n in unguarded[:3]))

    # CONFIG: the throttler is the per-object one, the delays are the configured ones, all Exceptions are of interest
    thr = kwarg(thr_call, 'throttler')
    base = origin(f, thr.value) if isinstance(thr, ast.Attribute) else None
    base_call = base.value if isinstance(base, ast.Await) else base
    per_object = isinstance(thr, ast.Attribute) and thr.attr == 'error_throttler' and isinstance(base_call, ast.Call) \
        and is_call_to(repo, f, base_call, f'{INV}.ResourceMemories.recall')
    ctx.ob('R12.4', 'process_resource_event: throttled(throttler=) is the error_throttler of the memory recalled for this very object', per_object,
           loc=f.loc(thr_call), construct=construct(f, 'config:throttler='), detail=norm(thr))
    mem = repo.cls(f'{INV}.ResourceMemory')
    dflt = mem.field_defaults.get('error_throttler')
    fac = kwarg(dflt, 'default_factory') if isinstance(dflt, ast.Call) else None
    ctx.ob('R12.4', 'ResourceMemory.error_throttler is a per-instance field (default_factory=Throttler), not shared between objects',
           isinstance(dflt, ast.Call) and (repo.resolve(mem.module, dflt.func) or '') == 'dataclasses.field' and fac is not None
           and repo.resolve(mem.module, fac) == f'{THR}.Throttler', loc=mem.module.relpath(), construct=f'{mem.qualname}:config:error_throttler', detail=norm(dflt))
    dl = kwarg(thr_call, 'delays')
    ctx.ob('R12.4', 'process_resource_event: throttled(delays=) is settings.queueing.error_delays', (dotted(dl) or '').endswith('queueing.error_delays'),
           loc=f.loc(thr_call), construct=construct(f, 'config:delays='), detail=norm(dl))
    er = kwarg(thr_call, 'errors')
    ctx.ob('R12.4', 'process_resource_event: throttled(errors=) is left at Exception (every unexpected error is contained)',
           er is None or repo.resolve(f.module, er) == 'Exception', loc=f.loc(thr_call), construct=construct(f, 'config:errors='), detail=norm(er))
    check_throttled(ctx)


def _manager_paths(repo, f, cfg: absint.Config) -> list[absint.Path]:
    """Paths of a generator-based context manager with both completions of the managed block at its `yield`:
    normal ('@body-ok') and an exception thrown in ('@thrown', bound to the opaque value `thrown`)."""
    it = absint.Interp(repo, f, cfg)
    orig = it.try_

    def try_(s: ast.Try, p: absint.Path):
        if not any(isinstance(x, ast.Yield) for st in s.body for x in walk_no_defs(st)):
            return orig(s, p)
        after = []
        for q in it.run_block(s.body, [p]):
            if q.status != 'run':
                after.append(q)
                continue
            qn = q.clone()
            qn.notes.append('@body-ok')
            after.extend(it.run_block(s.orelse, [qn]) if s.orelse else [qn])
            qe = q.clone()
            qe.notes.append('@thrown')
            hs = [h for h in s.handlers if h.type is None or any((repo.resolve(f.module, e) or '') in ('Exception', 'BaseException')
                                                                 for e in (h.type.elts if isinstance(h.type, ast.Tuple) else [h.type]))]
            if not hs:
                qe.status, qe.exc = 'raise', 'Exception'
                after.append(qe)
                continue
            h = hs[0]
            qe.env['@caught'] = absint.sym('exc:Exception')
            if h.name:
                qe.env[h.name] = absint.sym('thrown')
            for r in it.run_block(h.body, [qe]):
                r.env.pop('@caught', None)
                after.append(r)
        if not s.finalbody:
            return after
        out = []
        for q in after:
            st, rv, ex = q.status, q.retval, q.exc
            q.status = 'run'
            for r in it.run_block(s.finalbody, [q]):
                if r.status == 'run':
                    r.status, r.retval, r.exc = st, rv, ex
                out.append(r)
        return out
    it.try_ = try_  # type: ignore[method-assign]
    p0 = absint.Path()
    p0.fn = f.qualname
    for a in f.params():
        p0.env[a.arg] = absint.sym(a.arg)
    return it.run_block(absint._body(f), [p0])


def check_throttled(ctx: Ctx) -> None:
    repo = ctx.repo
    f = repo.fn(f'{THR}.throttled')
    ctx.analysed(f)
    if not any(d.endswith('asynccontextmanager') or d.endswith('contextmanager') for d in f.decorators):
        raise AnalysisError(f'{f.loc()}: throttlers.throttled is not a generator-based context manager')
    params = [a.arg for a in f.params()]
    defaults = absint._defaults(f)
    ctx.ob('R12.4', 'throttled: the errors of interest default to Exception', 'errors' in defaults and repo.resolve(f.module, defaults['errors']) == 'Exception',
           loc=f.loc(), construct=construct(f, 'config:errors-default'))
    tparam = 'throttler' if 'throttler' in params else None
    if tparam is None:
        raise AnalysisError(f'{f.loc()}: throttled has no `throttler` parameter')
    paths = _manager_paths(repo, f, absint.Config(effect_names={'aiotime.sleep': 'sleep'}))
    ctx.count('paths', len(paths))
    bad = []
    rows = set()
    for p in paths:
        ys = p.effects('yield')
        if len(ys) != 1:
            bad.append((p, f'yields {len(ys)} times'))
            continue
        yi = p.trace.index(ys[0])
        adv = ys[0].kw.get('value')
        if adv is None or adv.kind not in ('bool', 'const'):
            bad.append((p, f'the advice `{adv.key if adv else None}` is not decided by the throttler state'))
            continue
        run = bool(adv.data)
        after = p.trace[yi + 1:]
        writes: dict = {}
        for e in after:
            if e.label.startswith('write:'):
                writes.setdefault(e.label[len('write:'):], e.kw.get('value'))     # the first write after the yield
        armed = writes.get(f'{tparam}.active_until')
        thrown = '@thrown' in p.notes
        interest = p.atom(r'^isinstance\(thrown, ')
        if thrown and interest is None:
            bad.append((p, 'a thrown exception is not tested against the errors of interest'))
            continue
        delay_none = [v for k, v in p.atoms.items() if k.startswith('isnone(next(')]
        if thrown and interest and run:
            rows.add(('swallow', bool(delay_none and not delay_none[0])))
            if p.status == 'raise':
                bad.append((p, 'an error of interest raised while running is re-raised (not contained)'))
            elif delay_none and delay_none[0] is False and (armed is None or armed.kind == 'const'):
                bad.append((p, f'a delay is available but {tparam}.active_until is not armed'))
            elif not delay_none:
                bad.append((p, 'no delay is drawn from the configured delays'))
        elif thrown:
            rows.add(('reraise', interest, run))
            if p.status != 'raise':
                bad.append((p, 'an exception that is not of interest, or raised against the advice, is swallowed'))
        else:
            rows.add(('ok', run))
            reset = all((writes.get(f'{tparam}.{fld}') is not None and writes[f'{tparam}.{fld}'].kind == 'const' and writes[f'{tparam}.{fld}'].data is None)
                        for fld in ('source_of_delays', 'last_used_delay'))
            if p.status == 'raise':
                bad.append((p, 'raises after a successful block'))
            elif run and not reset:
                bad.append((p, 'a success does not reset the sequence of delays (source_of_delays, last_used_delay)'))
            elif not run and (writes.get(f'{tparam}.source_of_delays') is not None):
                bad.append((p, 'the sequence of delays is reset although the block was advised not to run'))
    ctx.ob('R12.4', f'throttled ({len(paths)} paths, {len(rows)} rows): an error of interest raised under should_run is swallowed and arms the throttler '
           'with the next delay; other errors and errors against the advice are re-raised; a successful run resets the delays', not bad and len(rows) >= 5,
           loc=f.loc(), construct=construct(f, 'table:after-yield'), detail='; '.join(f'{why} [{_brief(p)}]' for p, why in bad[:3]) or f'rows {sorted(map(str, rows))}')
    ctx.sample({'rule': 'R12.4', 'rows': sorted(map(str, rows))})


def check(ctx: Ctx) -> None:
    check_request(ctx)
    check_status_dispatch(ctx)
    check_auth(ctx)
    check_containment(ctx)


SPEC = PropSpec(
    id='C12',
    title='Infrastructure errors are retried, then contained per object, never fatal',
    technique='static analysis: exception-dispatch tables by path enumeration with declared-raising callees (DISPATCH/TABLE), '
              'a three-point ordering domain for Retry-After vs backoff, who-may-use the raw session (CONFINE), the containment '
              'region of process_resource_event (CONFINE/GUARD on the CFG), the after-yield table of the throttled() context manager',
    level_text='Static analysis of the current source: decides for one attempt of api.request, for every exception class the transport and the '
               'response check can raise, whether it is slept-and-retried (exactly network errors, timeouts, 5xx, 403, 429; re-raised iff no backoff '
               'is left) or propagated at once, and that on a 429 the slept value is >= the server-requested delay for every ordering of (delay, backoff) '
               'and both enforce settings; that check_response maps 401/403/404/409/422/429 before the 4xx and 5xx ranges; that the raw aiohttp session '
               'is touched only under @authenticated, whose credentials loop invalidates exactly the drawn (key, info) on 401/closed session and '
               'propagates everything else, and that invalidated items are remembered and filtered on re-population; that every call of '
               'process_resource_event that may raise lies inside `async with throttled` under its should_run advice, and that throttled() swallows '
               'errors of interest, arms the per-object throttler with the next delay and resets it on success. NOT the behaviour over fault sequences.',
    level_note='one symbolic attempt/iteration per loop; exception classes are probes dispatched by the class hierarchy; values are opaque '
               '(ordering atoms for the Retry-After comparison); set-up calls outside the containment region are an allow-list; DESIGN.md §3',
    design_ref='DESIGN.md §4 C12, Appendix A.10',
    explanation='DISPATCH+TABLE over one attempt of api.request (probe classes x backoff left x Retry-After source x enforce x ordering), status-code '
                'concretisation of errors.check_response, CONFINE of raw session uses, TABLE over auth.authenticated\'s credentials loop, ORDER/GUARD in '
                'credentials.Vault, CONFINE/GUARD/CONFIG of the containment region, TABLE over throttlers.throttled after its yield. R12.5 = R17.4 is decided by C17.',
    not_decided='behaviour over arbitrary fault sequences (attempt counts, cumulative delays); N concurrent requests hit by one 401 (the vault\'s condition '
                'variable protocol); the single authenticator task (R20.1); readiness toggles on error paths (R17.4).',
    check=check,
)
