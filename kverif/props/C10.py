"""C10 -- timer schedule laws: no self-overlap, interval/sharp/idle/initial-delay structure (DESIGN.md §4, R10.1-R10.4).

Only the *structure* of the schedule is decided (which sleep follows which outcome, what gates the first/next run,
who resets the idle clock); the numeric laws are not (DESIGN.md "Not decided").
"""
from __future__ import annotations

import ast
import re
from typing import Optional

from .. import absint
from ..core import Ctx, PropSpec
from ..rules import (attribute_writes, calls_in, cfg_of, construct, dominating_conditions, is_call_to, kwarg, loop_nodes, norm,
                     nullness_assumption, origin, origin_src, witness)
from ..srcmodel import AnalysisError, dotted, src, walk_no_defs
from .C09 import (MEMORY_CLS, StopInterp, _is_set_call, _memory_field, _param_of_type, cond_implies, lazy_table, run_paths,
                  sites_of, stopper_sleeps)

D = 'kopf._core.engines.daemons'
P = 'kopf._core.reactor.processing'
TASK_FACTORIES = ('create_task', 'ensure_future', 'create_guarded_task', 'gather', 'spawn', 'run_in_executor', 'run_coroutine_threadsafe', 'wait_for', 'shield')


# ====================================================================== roles of the sleeps and loops of _timer
def reaching_values(g, node, name: str) -> Optional[list[ast.AST]]:
    """Values of the assignments to the local ``name`` that reach ``node`` (None if the entry reaches it unassigned)."""
    def assigns(n) -> Optional[ast.AST]:
        s = n.stmt
        if n.kind == 'stmt' and isinstance(s, ast.Assign) and any(isinstance(t, ast.Name) and t.id == name for t in s.targets):
            return s.value
        if n.kind == 'stmt' and isinstance(s, (ast.AnnAssign, ast.AugAssign)) and isinstance(s.target, ast.Name) and s.target.id == name:
            return s.value
        return None
    defs = [n for n in g.nodes if assigns(n) is not None]
    back = g.reach_back([node], stop=lambda n: n in defs)
    if g.entry in back:
        return None
    return [assigns(n) for n in defs if n in back]


def expand(g, node, e: Optional[ast.AST], depth: int = 2) -> list[ast.AST]:
    """The expression with a local name replaced by the values that reach the node (one level per depth)."""
    if e is None:
        return []
    if isinstance(e, ast.Name) and depth > 0:
        vals = reaching_values(g, node, e.id)
        if vals:
            return [x for v in vals for x in expand(g, node, v, depth - 1)]
    return [e]


def attrs_in(exprs: list[ast.AST]) -> set[str]:
    return {n.attr for e in exprs for n in ast.walk(e) if isinstance(n, ast.Attribute)}


def sleep_role(g, node, call: ast.Call) -> str:
    a = kwarg(call, 'delays', 0)
    exprs = expand(g, node, a)
    at = attrs_in(exprs)
    # one more level for the locals inside a compound expression (`d(**kw) if callable(d) else d` with `d = handler.initial_delay`)
    inner = [x for e in exprs if not isinstance(e, ast.Name) for nm_ in ast.walk(e) if isinstance(nm_, ast.Name) for x in expand(g, node, nm_, 1) if x is not nm_]
    if 'initial_delay' in at or 'initial_delay' in attrs_in(inner):
        return 'initial'
    if at & {'delays', 'delay'}:
        return 'error'
    if 'idle_reset_time' in at:
        return 'gate'
    if 'interval' in at and any(isinstance(n, ast.BinOp) and isinstance(n.op, ast.Mod) for e in exprs for n in ast.walk(e)):
        return 'grid'
    if len(exprs) == 1 and isinstance(exprs[0], ast.Attribute) and exprs[0].attr == 'interval':
        return 'interval'
    if len(exprs) == 1 and isinstance(exprs[0], ast.Attribute) and exprs[0].attr == 'idle':
        return 'idlewait'
    return 'other'


class Timer:
    """Anchors of daemons._timer selected by role."""

    def __init__(self, ctx: Ctx):
        repo = ctx.repo
        self.f, self.g = cfg_of(ctx, f'{D}._timer')
        f, g = self.f, self.g
        self.handler = _param_of_type(repo, f, 'kopf._core.intents.handlers.TimerHandler')
        self.cause = _param_of_type(repo, f, 'kopf._core.intents.causes.DaemonCause')
        self.memory = _param_of_type(repo, f, MEMORY_CLS)
        if not (self.handler and self.cause and self.memory):
            raise AnalysisError(f'{f.loc()}: _timer: expected TimerHandler, DaemonCause and DaemonsMemory parameters')
        self.execs = [c for c in calls_in(f.node) if is_call_to(repo, f, c, 'execution.execute_handlers_once')]
        self.exec_nodes = g.call_nodes('execution.execute_handlers_once')
        self.sleeps = {}       # id(call) -> (call, role, setter, node)
        for call, setter in stopper_sleeps(repo, f):
            for n in g.stmt_nodes(lambda x: x is call):
                self.sleeps[id(call)] = (call, sleep_role(g, n, call), setter, n)
        loops = [n for n in walk_no_defs(f.node) if isinstance(n, (ast.While, ast.For, ast.AsyncFor))]
        self.main = [lp for lp in loops if any(c in list(ast.walk(lp)) for c in self.execs)]
        self.loop_roles = {}   # id(loop stmt) -> role
        for lp in loops:
            inner = [self.sleeps[id(c)][1] for c in calls_in(lp) if id(c) in self.sleeps]
            if lp in self.main:
                continue
            if inner and all(r == 'gate' for r in inner):
                self.loop_roles[id(lp)] = 'gate'
            elif inner and all(r == 'idlewait' for r in inner):
                self.loop_roles[id(lp)] = 'idlewait'
        self.loops = loops

    def loops_of(self, role: str) -> list:
        return [lp for lp in self.loops if self.loop_roles.get(id(lp)) == role]


# ====================================================================== R10.1 never overlaps with itself
def check_sequential(ctx: Ctx, t: Timer) -> None:
    repo, f = ctx.repo, t.f
    ctx.require_sites('R10.1', '_timer: invocation of the handler (execute_handlers_once)', len(t.execs), 1, f.loc())
    ok_loop = len(t.main) == 1 and isinstance(t.main[0], ast.While)
    ctx.ob('R10.1', '_timer: the handler is invoked inside exactly one `while` loop', ok_loop, loc=f.loc(t.main[0]) if t.main else f.loc(),
           construct=construct(f, 'confine:single-loop'), detail=f'{len(t.main)} loops contain the invocation')
    for c in t.execs:
        parent = f.module.parent.get(c)
        stmt = repo.stmt_of(f.module, c)
        direct = isinstance(parent, ast.Await) and isinstance(stmt, (ast.Assign, ast.Expr, ast.AnnAssign)) and stmt.value is parent
        ctx.ob('R10.1', '_timer: the invocation is awaited in place (`x = await execute_handlers_once(...)`): the next run cannot start before this one ended',
               direct, loc=f.loc(c), construct=construct(f, 'confine:await execute_handlers_once'), detail='' if direct else f'used as `{norm(stmt, 90)}`')
        hs = kwarg(c, 'handlers')
        one = isinstance(hs, (ast.List, ast.Tuple)) and len(hs.elts) == 1 and dotted(hs.elts[0]) == t.handler
        ctx.ob('R10.1', '_timer: exactly the timer\'s own handler is executed per run', one, loc=f.loc(c), construct=construct(f, 'config:handlers=[handler]'),
               detail=f'handlers={norm(hs)}')
    spawned = [c for c in calls_in(f.node) if (c.func.attr if isinstance(c.func, ast.Attribute) else getattr(c.func, 'id', '')) in TASK_FACTORIES]
    ctx.ob('R10.1', '_timer: no task/future is created (nothing runs concurrently with the loop)', not spawned,
           loc=f.loc(spawned[0]) if spawned else f.loc(), construct=construct(f, 'confine:no-task-creation'),
           detail='; '.join(f'L{c.lineno}: {norm(c, 60)}' for c in spawned[:3]))
    refs = [n for n in walk_no_defs(f.node) if isinstance(n, (ast.Attribute, ast.Name)) and isinstance(getattr(n, 'ctx', None), ast.Load)
            and (repo.resolve(f.module, n) or '').endswith('execution.execute_handlers_once') and not any(c.func is n for c in t.execs)]
    ctx.ob('R10.1', '_timer: the executor is only called, never handed to something else', not refs, loc=f.loc(refs[0]) if refs else f.loc(),
           construct=construct(f, 'confine:executor-escape'))
    callers = sites_of(repo, f'{D}._timer')
    rn = repo.fn(f'{D}._runner')
    ok = len(callers) == 1 and callers[0][0] is rn and isinstance(rn.module.parent.get(callers[0][1]), ast.Await)
    ctx.ob('R10.1', 'the timer coroutine is awaited only by the runner (one per registry entry: R9.1/R9.2 make that one per object and handler)', ok,
           loc=rn.loc(), construct=f'{D}:confine:_timer-call', detail=', '.join(f'{fn.short}:L{c.lineno}' for fn, c in callers))


# ====================================================================== R10.2 initial delay and idle gate
def _linear(fn, e: ast.AST, sign: int, out: dict, depth: int = 0) -> None:
    if isinstance(e, ast.BinOp) and isinstance(e.op, (ast.Add, ast.Sub)):
        _linear(fn, e.left, sign, out, depth)
        _linear(fn, e.right, sign if isinstance(e.op, ast.Add) else -sign, out, depth)
        return
    if isinstance(e, ast.UnaryOp) and isinstance(e.op, ast.USub):
        _linear(fn, e.operand, -sign, out, depth)
        return
    if isinstance(e, ast.Name) and depth < 2:
        o = origin(fn, e, 1)
        if o is not e and isinstance(o, ast.BinOp):
            _linear(fn, o, sign, out, depth + 1)
            return
    if isinstance(e, ast.Call) and not e.args and not e.keywords and origin_src(fn, e.func).endswith('.time'):
        role = 'now'
    elif isinstance(e, ast.Attribute) and e.attr == 'idle_reset_time':
        role = 'reset'
    elif isinstance(e, ast.Attribute) and e.attr == 'idle':
        role = 'idle'
    else:
        role = 'other:' + src(e, 40)
    out[role] = out.get(role, 0) + sign


def gate_truth(fn, test: ast.AST, setter: str, is_set: bool, rel: str, depth: int = 0) -> Optional[bool]:
    """Truth of the loop test for (stopper set?, sign of `now - reset - idle`), None if it has another atom."""
    if isinstance(test, ast.BoolOp):
        vals = [gate_truth(fn, v, setter, is_set, rel, depth) for v in test.values]
        if any(v is None for v in vals):
            return None
        return all(vals) if isinstance(test.op, ast.And) else any(vals)
    if isinstance(test, ast.UnaryOp) and isinstance(test.op, ast.Not):
        v = gate_truth(fn, test.operand, setter, is_set, rel, depth)
        return None if v is None else not v
    if isinstance(test, ast.Name) and depth < 2:
        o = origin(fn, test, 1)
        return gate_truth(fn, o, setter, is_set, rel, depth + 1) if o is not test else None
    if isinstance(test, ast.Call):
        return is_set if _is_set_call(fn, test) == setter else None
    if isinstance(test, ast.Compare) and len(test.ops) == 1 and isinstance(test.ops[0], (ast.Lt, ast.LtE, ast.Gt, ast.GtE)):
        lin: dict = {}
        _linear(fn, test.left, 1, lin)
        _linear(fn, test.comparators[0], -1, lin)
        lin = {k: v for k, v in lin.items() if v}
        op = type(test.ops[0])
        if lin == {'now': 1, 'reset': -1, 'idle': -1}:
            r = rel
        elif lin == {'now': -1, 'reset': 1, 'idle': 1}:
            r = {'<': '>', '>': '<', '=': '='}[rel]
        else:
            return None
        return {ast.Lt: r == '<', ast.LtE: r in '<=', ast.Gt: r == '>', ast.GtE: r in '>='}[op]
    return None


def check_first_run(ctx: Ctx, t: Timer) -> None:
    f, g = t.f, t.g
    hp = t.handler
    ctx.require_sites('R10.2', '_timer: invocation nodes', len(t.exec_nodes), 1, f.loc())
    # (i) initial delay
    initial = [n for c, role, s, n in t.sleeps.values() if role == 'initial']
    ctx.require_sites('R10.2', '_timer: initial-delay sleep', len(initial), 1, f.loc())
    edge = g.pruned(nullness_assumption(f'{hp}.initial_delay'))
    und = g.dominated(t.exec_nodes, initial, edge_ok=edge)
    ctx.ob('R10.2', f'_timer: with `{hp}.initial_delay` set, every invocation is dominated by the initial-delay sleep', bool(initial) and not und,
           loc=f.loc(initial[0].stmt) if initial else f.loc(), construct=construct(f, 'dom:initial-delay<run'),
           detail='; '.join(witness(g, [g.entry], n, initial, edge_ok=edge) for n in und[:1]))
    # (ii) idle gate
    gates = t.loops_of('gate')
    ctx.ob('R10.2', '_timer: there is exactly one idle gate (a loop sleeping until `idle_reset_time + idle`)', len(gates) == 1 and isinstance(gates[0], ast.While),
           loc=f.loc(gates[0]) if gates else f.loc(), construct=construct(f, 'sites:idle-gate'), detail=f'found {len(gates)}')
    if len(gates) != 1 or not isinstance(gates[0], ast.While):
        return
    gate = gates[0]
    exits = [n for n in g.nodes if n.kind == 'branch' and n.stmt is gate and n.cond is not None and n.cond[1] is False]
    edge = g.pruned(nullness_assumption(f'{hp}.idle'))
    und = g.dominated(t.exec_nodes, exits, edge_ok=edge)
    ctx.ob('R10.2', f'_timer: with `{hp}.idle` set, every invocation is dominated by leaving the idle gate', bool(exits) and not und, loc=f.loc(gate),
           construct=construct(f, 'dom:idle-gate<run'), detail='; '.join(witness(g, [g.entry], n, exits, edge_ok=edge) for n in und[:1]))
    setters = {s for c, role, s, n in t.sleeps.values() if role == 'gate'}
    setter = sorted(setters)[0] if setters else ''
    rows = {(s, r): gate_truth(f, gate.test, setter, s, r) for s in (True, False) for r in '<=>'}
    want = {(s, r): (not s and r == '<') for s in (True, False) for r in '<=>'}
    ctx.ob('R10.2', '_timer: the idle gate keeps waiting iff the stopper is unset and `clock - idle_reset_time < idle` '
           '(it is left exactly when stopper set or clock - idle_reset_time >= idle; comparison direction decided in the ordering domain)',
           rows == want, loc=f.loc(gate), construct=construct(f, 'formula:idle-gate-condition'),
           detail='' if rows == want else f'`{norm(gate.test)}` gives ' + ', '.join(f'set={s},{r}:{v}' for (s, r), v in rows.items() if v != want[(s, r)]))
    ctx.count('valuations', len(rows))
    # (iii) leaving the gate because of the stopper must not start a run inside the idle time
    def unset(e: ast.AST, o: bool) -> bool:
        return o is False and _is_set_call(f, e) == setter
    asserting = {b for b in g.nodes if b.kind == 'branch' and b.cond is not None and b.stmt is not gate and cond_implies(b.cond[0], b.cond[1], unset, f)}
    r = g.reach(exits, stop=lambda n: n in asserting)
    leaked = [n for n in t.exec_nodes if n in r]
    ctx.ob('R10.2', '_timer: between leaving the idle gate and the invocation the stopper is re-tested (a gate interrupted by the stopper '
           'never leads to a run inside the idle time)', not leaked, loc=f.loc(gate), construct=construct(f, 'guard:stopper-after-gate'),
           detail='; '.join(witness(g, exits, n, asserting) for n in leaked[:1]))
    # (iv) the gate sleeps (it is not a busy loop)
    inside = loop_nodes(g, gate)
    heads = [n for n in inside if n.kind == 'loop' and n.stmt is gate]
    spin = [h for h in heads if h in g.reach([h], stop=lambda n: n.suspends or n not in inside)]
    ctx.ob('R10.2', '_timer: every iteration of the idle gate suspends in an interruptible sleep', not spin and bool(heads), loc=f.loc(gate),
           construct=construct(f, 'flow:idle-gate-sleeps'))


# ====================================================================== R10.3 the branch after (and before) a run
class TimerInterp(StopInterp):
    """Adds a marker effect when a loop statement of a known role is reached (its arm was selected) -- the engine
    records no effect for a loop whose body is not entered."""
    roles: dict = {}

    def loop(self, s, p):   # type: ignore[override]
        role = self.roles.get(id(s))
        if role is not None:
            p.trace.append(absint.Eff('loop:' + role, '', s, {}, p.loopdepth, self.f.qualname))
        return super().loop(s, p)


def check_schedule_table(ctx: Ctx, t: Timer) -> None:
    repo, f = ctx.repo, t.f
    if len(t.main) != 1:
        return
    loop = t.main[0]
    roots = {n.targets[0].id for n in walk_no_defs(f.node) if isinstance(n, ast.Assign) and len(n.targets) == 1 and isinstance(n.targets[0], ast.Name)
             and origin_src(f, n.targets[0]) == f'{t.cause}.stopper'} | {t.cause}
    sleeps = t.sleeps

    def eff(it, p, call, names):
        if id(call) in sleeps:
            return 'sleep:' + sleeps[id(call)][1]
        if any(n.endswith('execution.execute_handlers_once') for n in names):
            st = kwarg(call, 'state')
            return 'exec:' + ('fresh' if st is not None and 'from_scratch()' in it.ev(st, p).key else 'kept')
        return None
    TimerInterp.roles = dict(t.loop_roles)
    # single-assignment locals defined before the loop (stopper, clock, ...) are substituted by their definitions
    env = {t.handler: absint.sym('H')}
    pre = absint.Interp(repo, f, absint.Config())
    p0 = absint.Path()
    for a in f.params():
        p0.env[a.arg] = env.get(a.arg, absint.sym(a.arg))
    for st in f.node.body:          # type: ignore[attr-defined]
        if st is loop:
            break
        if isinstance(st, ast.Assign) and len(st.targets) == 1 and isinstance(st.targets[0], ast.Name) and not any(isinstance(n, ast.Await) for n in ast.walk(st)):
            v = st.value
            if isinstance(v, (ast.Attribute, ast.Name)):
                env[st.targets[0].id] = pre.ev(v, p0)
    cfg = absint.Config(effect=eff, versioned=roots, record_writes=False)
    paths = run_paths(repo, f, cfg, stmts=loop.body, env=env, interp=TimerInterp)

    def first(rx: str):
        c = re.compile(rx)

        def rd(p):
            for k in p.order:
                if c.search(k) and k in p.atoms:
                    return p.atoms[k]
            return None
        return rd

    def gate_stopper(p):
        last = None
        for k in p.order:
            if 'with_outcomes(' in k:
                break
            if re.search(r'\.is_set\(\)\)$', k) and k in p.atoms:
                last = p.atoms[k]
        return last
    readers = {
        'PD': first(r'^truthy\((?!.*with_outcomes\().*\.done\)$'),
        'PF': first(r'^truthy\((?!.*with_outcomes\().*\.failure\)$'),
        'N': first(r'^truthy\(.*with_outcomes\(.*\.done\)$'),
        'LN': first(r'^isnone\(H\.idle\)$'), 'VN': first(r'^isnone\(H\.interval\)$'), 'SH': first(r'^truthy\(H\.sharp\)$'),
        'GS': gate_stopper,
    }
    domains = {k: [True, False] for k in readers}

    def spec(v):
        if v['PD'] and v['PF']:
            return ('break',)                      # a permanently failed timer ends (D14)
        out = []
        if not v['LN']:
            out.append('gate')
            if v['GS']:
                return tuple(out) + ('next',)
        out.append('exec:fresh' if v['PD'] else 'exec:kept')
        if not v['N']:
            out += ['sleep:error', 'next']
        elif not v['VN'] and v['SH']:
            out += ['sleep:grid', 'next']
        elif not v['VN']:
            out += ['sleep:interval', 'next']
        elif not v['LN']:
            out += ['idlewait', 'next']
        else:
            out.append('break')
        return tuple(out)

    def observe(p):
        out = []
        for e in p.trace:
            if e.label.startswith('loop:'):
                out.append(e.label[5:])
            elif e.label.startswith('exec:'):
                out.append(e.label)
            elif e.label.startswith('sleep:') and e.label[6:] not in ('gate', 'idlewait'):
                out.append(e.label)
        out.append({'run': 'next', 'break': 'break', 'continue': 'next'}.get(p.status, p.status))   # `continue` == falling off the end
        return tuple(out)
    lazy_table(ctx, 'R10.3', f, paths, readers, domains, spec, observe, min_rows=8,
               what='_timer, one iteration (A.5): finished+failed => end; finished => fresh attempt state; idle => gate, a set stopper => no run; '
                    'then exactly one of: not done => sleep(state.delays) | interval+sharp => grid sleep | interval => sleep(interval) | '
                    'idle only => wait for an idle reset | none => one-shot')
    roles = sorted({r for c, r, s, n in sleeps.values()})
    ctx.ob('R10.3', f'_timer: every interruptible sleep has a schedule role ({", ".join(roles)})', 'other' not in roles and {'error', 'grid', 'interval'} <= set(roles),
           loc=f.loc(), construct=construct(f, 'sites:sleep-roles'))
    waits = t.loops_of('idlewait')
    ctx.ob('R10.3', '_timer: the idle-only arm waits in a loop on `idle_reset_time` (until the next essential change)',
           len(waits) == 1 and isinstance(waits[0], ast.While) and 'idle_reset_time' in {n.attr for n in ast.walk(waits[0].test) if isinstance(n, ast.Attribute)},
           loc=f.loc(waits[0]) if waits else f.loc(), construct=construct(f, 'sites:idle-wait'))


# ====================================================================== R10.4 who resets the idle clock, and when
def _is_loop_time(repo, fn, e: Optional[ast.AST]) -> bool:
    """`asyncio.get_running_loop().time()` (also through a local alias of the loop or of its `.time`)."""
    if not (isinstance(e, ast.Call) and not e.args and not e.keywords):
        return False
    s = origin_src(fn, e.func)
    if not s.endswith('.time'):
        return False
    recv = e.func.value if isinstance(e.func, ast.Attribute) else origin(fn, e.func).value if isinstance(origin(fn, e.func), ast.Attribute) else None
    recv = origin(fn, recv) if recv is not None else None
    return isinstance(recv, ast.Call) and (repo.resolve(fn.module, recv.func) or '') in ('asyncio.get_running_loop', 'asyncio.get_event_loop')


def check_idle_reset(ctx: Ctx, t: Timer) -> None:
    repo = ctx.repo
    f, g = cfg_of(ctx, f'{P}.process_spawning_cause')
    writes = [(fn, tgt, v) for fn, tgt, v in attribute_writes(repo, 'idle_reset_time') if _memory_field(repo, fn, tgt, 'idle_reset_time')
              or repo.type_of(fn, tgt.value) is None]
    ctx.require_sites('R10.4', 'writes of DaemonsMemory.idle_reset_time', len(writes), 1, f.loc())
    ctx.ob('R10.4', f'idle_reset_time is written only in process_spawning_cause ({len(writes)} site)', bool(writes) and all(fn is f for fn, _, _ in writes),
           loc=f.loc(), construct=f'{P}:confine:idle_reset_time-write', detail=', '.join(f'{fn.short}:L{tgt.lineno}' for fn, tgt, _ in writes))
    cause_p = _param_of_type(repo, f, 'kopf._core.intents.causes.SpawningCause')
    if cause_p is None:
        raise AnalysisError(f'{f.loc()}: process_spawning_cause has no SpawningCause parameter')

    def reset(e: ast.AST, o: bool) -> bool:
        return o is True and isinstance(e, ast.Attribute) and e.attr == 'reset' and dotted(e.value) == cause_p
    for fn, tgt, v in writes:
        if fn is not f:
            continue
        for n in g.stmt_nodes(lambda x: x is tgt):
            ok = any(cond_implies(c, o, reset, f) for c, o, _ in dominating_conditions(g, n))
            ctx.ob('R10.4', f'process_spawning_cause: the idle clock is reset only under `{cause_p}.reset`', ok, loc=f.loc(tgt),
                   construct=construct(f, 'guard:reset-under-cause.reset'))
            ctx.ob('R10.4', 'process_spawning_cause: the idle clock is reset to the event loop\'s time (the clock the timer compares with)',
                   _is_loop_time(repo, f, v), loc=f.loc(tgt), construct=construct(f, 'config:reset-value-is-loop-time'), detail=norm(v))
    # the timer reads the same clock
    tf = t.f
    clocks = [n for lp in t.loops_of('gate') for n in ast.walk(lp.test) if isinstance(n, ast.Call) and origin_src(tf, n.func).endswith('.time')]
    ctx.ob('R10.4', '_timer: the idle gate reads the event loop\'s time', bool(clocks) and all(_is_loop_time(repo, tf, c) for c in clocks), loc=tf.loc(),
           construct=construct(tf, 'config:gate-clock-is-loop-time'))
    mem = repo.cls(MEMORY_CLS)
    dflt = mem.field_defaults.get('idle_reset_time')
    fac = kwarg(dflt, 'default_factory') if isinstance(dflt, ast.Call) else None
    ff = repo.funcs.get(repo.resolve(mem.module, fac) or '') if fac is not None else None
    ok = ff is not None and any(isinstance(n, ast.Return) and _is_loop_time(repo, ff, n.value) for n in walk_no_defs(ff.node))
    ctx.ob('R10.4', 'DaemonsMemory.idle_reset_time starts at the loop time of the first sighting of the object', ok, loc=mem.module.relpath(),
           construct=f'{MEMORY_CLS}:config:idle_reset_time-default', detail=norm(dflt))

    # `reset` is the emptiness of the essential diff -- the very diff that drives change detection
    sites = sites_of(repo, 'causes.detect_spawning_cause')
    ctx.require_sites('R10.4', 'detect_spawning_cause call sites', len(sites), 1)
    for fn, c in sites:
        ctx.analysed(fn)
        rv = kwarg(c, 'reset')

        def strip(e: Optional[ast.AST], _fn=fn) -> Optional[ast.AST]:
            """Follow single-assignment locals and `bool(...)` wrappers down to the producing expression."""
            for _ in range(6):
                if e is None:
                    return None
                o2 = origin(_fn, e)
                if isinstance(o2, ast.Call) and dotted(o2.func) == 'bool' and len(o2.args) == 1 and not o2.keywords:
                    e = o2.args[0]
                    continue
                return o2
            return e
        diff_calls = [x for x in calls_in(fn.node) if is_call_to(repo, fn, x, 'diffs.diff')]
        o = strip(rv)
        from_diff = o is not None and any(o is x for x in diff_calls)
        ctx.ob('R10.4', f'{fn.name}: reset= is exactly the non-emptiness of the object\'s diff (`bool(diffs.diff(old, new))`), nothing else resets idling',
               from_diff, loc=fn.loc(c), construct=f'{fn.qualname}:flow:reset=bool(diff)', detail=f'reset={norm(rv)}')
        ch = [x for x in calls_in(fn.node) if is_call_to(repo, fn, x, 'causes.detect_changing_cause')]
        same = bool(ch) and o is not None and all(strip(kwarg(x, 'diff')) is o for x in ch)
        ctx.ob('R10.4', f'{fn.name}: it is the essential diff -- the same value that is given to detect_changing_cause(diff=)', same, loc=fn.loc(c),
               construct=f'{fn.qualname}:sibling:reset-diff-is-changing-diff')
        if from_diff:
            args = list(o.args) + [k.value for k in o.keywords]
            essence = True
            for a in args:
                vals = [n.value for n in walk_no_defs(fn.node) if isinstance(n, ast.Assign) and any(isinstance(tt, ast.Name) and tt.id == dotted(a) for tt in n.targets)]
                roots_ok = any(any(getattr(x.func, 'attr', '') in ('fetch', 'build') and 'diffbase_storage' in src(x.func) for x in calls_in(v)) for v in vals)
                only = all(all(getattr(x.func, 'attr', '') in ('fetch', 'build', 'clear') and 'storage' in src(x.func) for x in calls_in(v)) for v in vals)
                essence = essence and bool(vals) and roots_ok and only
            ctx.ob('R10.4', f'{fn.name}: both sides of that diff are essences from the diff-base storage (fetch / build, progress cleared)', essence,
                   loc=fn.loc(o), construct=f'{fn.qualname}:flow:diff-of-essences')
    sc = repo.cls('causes.SpawningCause')
    ctx.ob('R10.4', 'SpawningCause carries the `reset` flag', 'reset' in sc.fields, loc=sc.module.relpath(), construct='causes.SpawningCause:field:reset')


def check(ctx: Ctx) -> None:
    t = Timer(ctx)
    check_sequential(ctx, t)
    check_first_run(ctx, t)
    check_schedule_table(ctx, t)
    check_idle_reset(ctx, t)
    from . import _stoppers
    _stoppers.check_timer_start_sample(ctx, 'R10.5')


SPEC = PropSpec(
    id='C10',
    title='Timer schedule laws: no self-overlap, interval/sharp/idle/initial-delay timing',
    technique='static analysis: who-may-call / no-task-creation (CONFINE), dominators under nullness assumptions (DOM), a truth table of the idle-gate '
              'condition over an ordering domain with linear normalisation (FORMULA), path-enumerated decision table of one timer iteration (TABLE), '
              'write confinement and def-use of the idle clock (FLOW/GUARD/SIBLING)',
    level_text='Static analysis of the current source; decides only a thin STRUCTURAL slice of the property (R10.1-R10.4): in daemons._timer the handler '
               'is awaited in place inside the single loop and nothing is spawned; the first run is dominated by the initial-delay sleep / the idle gate '
               'when these are configured, and the gate is left exactly when `stopper set or clock - idle_reset_time >= idle`; the decision table of one '
               'loop iteration equals Appendix A.5 (failed => error delay and no schedule sleep; sharp => grid sleep; interval => interval sleep; '
               'idle-only => wait for a reset; none => one-shot; finished-with-failure => the timer ends); idle_reset_time is written at one site, under '
               '`cause.reset`, with the loop clock, and reset is the non-emptiness of the essential diff. The numeric laws are NOT decided.',
    level_note='values are opaque: which sleep is taken is decided, not how long it lasts; asyncio is cooperative; aiotime.sleep returns early only through '
               'its wakeup event; DESIGN.md §3',
    design_ref='DESIGN.md §4 C10, Appendix A.5',
    explanation='CONFINE/CONFIG on the invocation site of daemons._timer, DOM with nullness assumptions for the initial delay and the idle gate, FORMULA for '
                'the gate condition (6 valuations, linear normal form now - reset - idle), TABLE by path enumeration of one loop iteration against A.5, '
                'CONFINE/GUARD/FLOW/SIBLING for idle_reset_time and reset=bool(diff).',
    not_decided='all numeric laws: interval counted from the end of the run, the sharp-grid formula, "not earlier than" the initial delay / idle time as numbers; '
                'handler durations; behaviour over sequences of runs.',
    check=check,
)
