"""D15: daemon_killer iterates `memory.running_daemons.values()` across awaits; a daemon that exits promptly removes itself
from that dict (in _runner's finally) => RuntimeError: dictionary changed size during iteration => the killer dies mid-way
and the remaining daemons are never asked to stop."""
import asyncio, logging, sys
import kopf
from kopf._core.engines import daemons
from kopf._core.reactor import inventory, processing
from kopf._core.intents import registries, causes, handlers as handlers_
from kopf._cogs.configs import configuration
from kopf._cogs.aiokits import aiotoggles
from kopf._cogs.structs import bodies, references

NAMES = [f'd{i:02d}' for i in range(12)]

async def main():
    settings = configuration.OperatorSettings()
    registry = registries.OperatorRegistry()
    started, exited = [], []

    def mk(name):
        async def fn(stopped, **_):
            started.append(name)
            await stopped.wait()          # a well-behaved daemon: exits as soon as it is asked to
            exited.append(name)
        fn.__name__ = name
        return fn
    resource = references.Resource('kopf.dev', 'v1', 'kopfexamples', namespaced=True)
    for n in NAMES:
        kopf.daemon('kopf.dev', 'v1', 'kopfexamples', registry=registry, id=n)(mk(n))
    memories = inventory.ResourceMemories()
    body = {'apiVersion': 'kopf.dev/v1', 'kind': 'KopfExample', 'metadata': {'name': 'x', 'namespace': 'ns', 'uid': 'u1', 'finalizers': [settings.persistence.finalizer]}, 'spec': {}}
    memory = await memories.recall(body)
    cause = causes.SpawningCause(resource=resource, indices={}, logger=logging.getLogger('x'), patch=kopf.Patch(), body=bodies.Body(body), memo=memory.memo, reset=False)
    memory.daemons_memory.live_fresh_body = bodies.Body(body)
    hs = registry._spawning.get_handlers(cause=cause)
    await daemons.spawn_daemons(settings=settings, handlers=hs, daemons=memory.daemons_memory.running_daemons, cause=cause, memory=memory.daemons_memory)
    await asyncio.sleep(0.05)
    assert sorted(started) == sorted(NAMES), started
    paused = aiotoggles.ToggleSet(any)
    killer = asyncio.create_task(daemons.daemon_killer(settings=settings, memories=memories, operator_paused=paused))
    await asyncio.sleep(0.05)
    killer.cancel()                       # the operator exits
    try:
        await killer
    except asyncio.CancelledError:
        print('killer: cancelled normally')
    except BaseException as e:
        print(f'killer: FAILED with {type(e).__name__}: {e}')
    await asyncio.sleep(0.2)
    left = sorted(memory.daemons_memory.running_daemons)
    print('daemons exited:', sorted(exited), '| still registered:', left)
    for t in [d.task for d in memory.daemons_memory.running_daemons.values()]:
        t.cancel()
    if left or sorted(exited) != sorted(NAMES):
        print('FAIL: the operator is exiting, but not every daemon was asked to stop')
        return 1
    print('OK')
    return 0

sys.exit(asyncio.run(main()))
