"""
D10 (C18): WebhooksRegistry.iter_handlers does not compare the review's operation with the
handler's declared `operations=`. A handler declared for CREATE only is invoked for (and here
denies) an UPDATE review whenever the request is not pre-filtered by a managed per-handler URL
(webhook id absent, shared endpoint, manually configured webhook).
Run: /venv/bin/python D10_webhook_operation_ignored.py
"""
import asyncio, logging
import kopf
from kopf._core.engines import admission, indexing
from kopf._core.intents import registries
from kopf._core.reactor import inventory
from kopf._cogs.structs import references, ephemera
from kopf._cogs.configs import configuration
logging.disable(logging.CRITICAL)
registry = registries.OperatorRegistry(); calls = []
@kopf.on.validate('g', 'v1', 'plural', registry=registry, operations=['CREATE'])
def only_on_create(**_): calls.append('only_on_create'); raise kopf.AdmissionError("creation is forbidden")
async def main():
    resource = references.Resource('g', 'v1', 'plural', namespaced=True)
    insights = references.Insights(); insights.webhook_resources.add(resource)
    req = {'apiVersion': 'admission.k8s.io/v1', 'kind': 'AdmissionReview', 'request': {
        'uid': 'u', 'operation': 'UPDATE', 'userInfo': {}, 'resource': {'group': 'g', 'version': 'v1', 'resource': 'plural'},
        'object': {'metadata': {'name': 'x', 'uid': '1'}}, 'oldObject': {'metadata': {'name': 'x', 'uid': '1'}}}}
    rsp = await admission.serve_admission_request(req, settings=configuration.OperatorSettings(), memories=inventory.ResourceMemories(),
        memobase=ephemera.Memo(), registry=registry, insights=insights, indices=indexing.OperatorIndexers().indices)
    print('operation=UPDATE, handler declared operations=[CREATE]: calls =', calls, '| allowed =', rsp['response']['allowed'])
asyncio.run(main())
